#!/usr/bin/env python3
"""
gen/ext_b3sum2.py -- artefact G28-b3sum-io: b3sum/src/main.rs  ->  lean/B3/Gen/B3sumIo.lean

The functions of b3sum/src/main.rs that artefact G11-b3sum (gen/ext_b3sum.py) left as parameters or skipped:

    struct Inner (with the clap defaults of its fields), struct Args, every fn of `impl Args` (parse and the accessors),
    read_key_from_stdin, hash_path, write_hex_output, write_raw_output, hash_one_input (now with its real callees),
    check_one_line, check_one_checkfile (whole body), the closure of main (with its eprintln! lines) and the statements of
    main before it.

It reuses the Rust lexer / parser / statement translator of ext_b3sum.py: a PRIVATE instance of that module is loaded
(so that nothing that is changed here can influence artefact G11), its translator class `Tr` is subclassed, and its mapping
tables are extended.  As in G11, control flow, operators, constants, literals, format strings, the order of statements and
every panicking operation come from the source text; library operations are NOT interpreted: each one must be found in
the explicit tables below (the trusted mapping to lean/B3/B3sum/IoPrim.lean, RustPrim.lean and Model.lean), anything else
raises TranslationBroken.

Two monads: functions that only read the world are translated into `Res String α` (ok / err / panic) with the world `w` as a
parameter; functions that print are translated into `Io α` (IoPrim.lean: the two output streams as state around `Res String`),
`print!`/`println!` -> `printOut`, `eprint!`/`eprintln!` -> `printErr`; results of `Res` operations are lifted with `liftR`.
"""
import importlib.util
import os
import re
import sys

import extract as X

A = "G28-b3sum-io"
REL = "b3sum/src/main.rs"


def _load_base():
    here = os.path.dirname(os.path.abspath(__file__))
    spec = importlib.util.spec_from_file_location("ext_b3sum__g28_private", os.path.join(here, "ext_b3sum.py"))
    mod = importlib.util.module_from_spec(spec)
    spec.loader.exec_module(mod)
    return mod


B = _load_base()          # private instance: its globals are ours to extend
B.A = A
Unsupported = B.Unsupported
ln, tup, proj, leanstr, root_var = B.ln, B.tup, B.proj, B.leanstr, B.root_var

# ------------------------------------------------------------------------------------------------
# types

# opaque handles that carry no information in the model
UNIT_TYPES = {"stdouth": "std::io::Stdout", "stdoutlock": "StdoutLock", "tpb": "rayon_core::ThreadPoolBuilder",
              "tpool": "rayon_core::ThreadPool"}

_norm0, _lean_ty0 = B.norm_type, B.lean_ty


def norm_type(t):
    if t != "unit" and t[0] == "named":
        name, args = t[1].split("::")[-1], t[2]
        if name in ("Args", "Self"):
            return ("struct", "Args")
        if name == "Vec" and len(args) == 1:
            return ("list", norm_type(args[0]))
        if name == "Hasher":
            return "hasher"
        if name == "OutputReader":
            return "reader"
        if name == "BufReader":
            return "bufreader"
    if t != "unit" and t[0] == "arr":
        if norm_type(t[1]) == "u8":
            return "bytes"
    return _norm0(t)


def lean_ty(t):
    simple = {"bytes": "(List UInt8)", "hasher": "Hasher", "reader": "Reader", "takereader": "TakeReader", "bytesrc": "ByteSrc"}
    if isinstance(t, str):
        if t in simple:
            return simple[t]
        if t in UNIT_TYPES:
            return "Unit"
    elif t[0] == "struct" and t[1] in G11_STRUCTS:
        return "B3sumParse." + t[1]
    elif t[0] == "err":
        return t[1]
    elif t[0] == "res":
        return f"(Except {t[2] if len(t) > 2 else '_'} {lean_ty(t[1])})"
    return _lean_ty0(t)


B.norm_type, B.lean_ty = norm_type, lean_ty
B.MUTATING = B.MUTATING + ("fill", "set_position", "read_to_end", "update_reader", "update_mmap", "update_mmap_rayon")
B.INTO[("bytes", "hash")] = "{0}"                     # [u8; 32] -> blake3::Hash: the same bytes
B.LEAN_RESERVED.update({"w", "cli", "liftR", "open", "stdin"})

G11_STRUCTS = ("FilepathString", "ParsedCheckLine")   # defined in Gen/B3sumParse.lean

# ------------------------------------------------------------------------------------------------
# the trusted mapping tables of this artefact (receiver / argument types as in ext_b3sum.py, plus: bytes = Vec<u8> / [u8; N],
# bytesrc = something that implements io::Read (File, Stdin, StdinLock, Take<..>), hasher, reader = OutputReader, takereader)

# kind: "pure" term | "res" (can panic: `let v <- ..`) | "try" (returns a Result: must be consumed by `?` or kept as a value)
# | "io-try" (a Result of a printing computation).  `w` in a template = the World parameter of the function being translated.
CALLS2 = {
    "File::open": [(("osbytes",), "fileOpen w {0}", "bytesrc", "try")],
    "io::stdin": [((), "(stdinOf w)", "bytesrc", "pure")],
    "io::BufReader::new": [(("bytesrc",), "(bufReaderNew {0})", "bufreader", "pure")],
    "io::stdout": [((), "()", "stdouth", "pure")],
    "io::copy": [(("takereader", "stdoutlock"), "copyToStdout {0}", "u64", "io-try")],
    "hex::encode": [(("bytes",), "(hexEncode {0})", "str", "pure")],
    "blake3::Hasher::new": [((), "hasherNew", "hasher", "pure")],
    "blake3::Hasher::new_keyed": [(("bytes",), "(hasherNewKeyed {0})", "hasher", "pure")],
    "blake3::Hasher::new_derive_key": [(("str",), "(hasherNewDeriveKey {0})", "hasher", "pure")],
    "Vec::with_capacity": [(("usize",), "vecWithCapacity {0}", "bytes", "res")],
    "rayon_core::ThreadPoolBuilder::new": [((), "()", "tpb", "pure")],
}
for _k in ("io::stdin", "io::BufReader::new", "io::stdout", "io::copy"):
    CALLS2["std::" + _k] = CALLS2[_k]
CALLS2["std::fs::File::open"] = CALLS2["fs::File::open"] = CALLS2["File::open"]

PRIMS2 = {
    ("bytesrc", "lock", ()): ("{0}", "bytesrc", "pure"),
    ("bytesrc", "take", ("u64",)): ("(srcTake {0} {1})", "bytesrc", "pure"),
    ("stdouth", "lock", ()): ("()", "stdoutlock", "pure"),
    ("reader", "take", ("u64",)): ("(readerTake {0} {1})", "takereader", "pure"),
    ("hasher", "clone", ()): ("{0}", "hasher", "pure"),
    ("hasher", "finalize_xof", ()): ("(hasherFinalizeXof w {0})", "reader", "pure"),
    ("list", "clone", ()): ("{0}", None, "pure"),
    ("list", "is_empty", ()): ("({0}.isEmpty)", "bool", "pure"),
    ("list", "len", ()): ("{0}.length", "usize", "pure"),
    ("bytes", "len", ()): ("{0}.length", "usize", "pure"),
    ("tpb", "num_threads", ("usize",)): ("()", "tpb", "pure"),
}
USES_WORLD = re.compile(r"\bw\b")
IO_HEADS = {"printOut", "printErr", "catchIo", "copyToStdout"}
AMBIENT_TY = {"w": "World", "cli": "Inner"}


def kind_of(t):
    return t if isinstance(t, str) else t[0]


# ------------------------------------------------------------------------------------------------
# continuations / exceptions of this extension

class NotAssigned(Unsupported):
    def __init__(self, var):
        super().__init__(f"{var} is not assigned on every path")
        self.var = var


_KJoin0 = B.KJoin


class KJoin2(_KJoin0):
    """variables that are not assigned on every path into the join are dropped from it (and stay unassigned)"""
    def finish(self, tr, term, ty):
        for v in self.vars:
            if tr.types.get(v) is None:
                raise NotAssigned(v)
        _KJoin0.finish(self, tr, term, ty)


B.KJoin = KJoin2


class Probe(Exception):
    def __init__(self, ty):
        self.ty = ty


class KProbe:
    def finish(self, tr, term, ty):
        raise Probe(ty)


class KBind:
    """end of the value-producing arm of `let PAT = match .. { .. }`: bind PAT, go on with the rest of the block"""
    def __init__(self, pat, expect, ss, i, k):
        self.pat, self.expect, self.ss, self.i, self.k = pat, expect, ss, i, k

    def finish(self, tr, term, ty):
        if term is None:
            raise Unsupported("the arm of a `let .. = match` has no value")
        if self.expect is not None and ty != self.expect:
            raise Unsupported(f"let with type {self.expect} initialised by a value of type {ty}")
        tr.bind_pattern(self.pat, term, ty)
        tr.stmts(self.ss, self.i + 1, self.k)


class KEmit:
    """end of the statements of `main` before the closure: run the closure"""
    def __init__(self, line):
        self.line = line

    def finish(self, tr, term, ty):
        if tr.types.get("args") != ("struct", "Args"):
            raise Unsupported("the closure of main uses `args`, which is not an `Args` value at that point")
        tr.emit(self.line)


def arm_stmts(body):
    return body[1] if body[0] == "block" else [("expr", body, False)]


def bound_names(node):
    out = []

    def f(n):
        if n[0] == "pbind":
            out.append(n[1])
    B.walk(node, f)
    return out


# ------------------------------------------------------------------------------------------------
# the translator

class Tr2(B.Tr):
    def __init__(self, cfg, sigs):
        super().__init__(cfg, sigs)
        self.io = bool(cfg.get("io"))
        self.ambient = list(cfg.get("ambient", []))
        self.ext_params = [(n, AMBIENT_TY[n]) for n in self.ambient]
        self.decl_types = {}
        self.ret_arr_len = None

    # -- output ------------------------------------------------------------------------------
    LET_BIND = re.compile(r"^let (\S+) ← (.*)$", re.S)

    def is_io_term(self, term):
        m = re.match(r"\(*\s*([A-Za-z_][A-Za-z0-9_.']*)", term)
        if not m:
            return False
        h = m.group(1)
        return (h in IO_HEADS or h.startswith(self.name + "_loop") or h.startswith(self.name + "_for")
                or any(s["lean"] == h and s.get("io") for s in self.sigs.values()))

    def emit(self, s):
        if self.io:
            m = self.LET_BIND.match(s)
            if m and not self.is_io_term(m.group(2)):
                s = f"let {m.group(1)} ← liftR ({m.group(2)})"
        B.Tr.emit(self, s)

    def need(self, name, what):
        if name not in self.ambient:
            raise Unsupported(f"{what} in a function that has no access to `{name}`")

    def tpl(self, template, what, *vs):
        if USES_WORLD.search(template.replace("{0}", "").replace("{1}", "")):
            self.need("w", what)
        return template.format(*vs)

    def snapshot(self):
        return (list(self.out), self.tmp, dict(self.types), list(self.msgs), list(self.notes), self.nloops, list(self.defs),
                self.ind, self.tail_ok, self._pending_join, self._join_header, dict(self.decl_types))

    def restore(self, s):
        (out, self.tmp, self.types, self.msgs, self.notes, self.nloops, self.defs, self.ind, self.tail_ok,
         self._pending_join, self._join_header, self.decl_types) = s
        self.out[:] = out

    def peek_type(self, e, expect=None):
        s = self.snapshot()
        try:
            return self.ex(e, expect)[1]
        finally:
            self.restore(s)

    def try_peek(self, e):
        try:
            return self.peek_type(e)
        except Unsupported:
            return None

    # -- results kept as values ----------------------------------------------------------------
    def ex(self, e, expect=None, pending_ok=False):
        term, ty = self.ex0(e, expect)
        if isinstance(ty, tuple) and ty[0] == "pending" and not pending_ok:
            ret, err, outs, io = (ty + (None, None, None))[1:5] if len(ty) < 5 else ty[1:5]
            err = err or self.err
            if outs:
                raise Unsupported("a Result of a function with `&mut` parameters must be consumed by `?`")
            v = self.fresh()
            if io:
                if not self.io:
                    raise Unsupported("a printing function is called from a function that cannot print")
                self.emit(f"let {v} ← catchIo ({term})")
            else:
                self.emit(f"let {v} ← catchErr ({term})")
            return v, ("res", ret, err)
        return term, ty

    def patlean(self, p, ty):
        if p[0] == "pts" and len(p[2]) == 1 and p[1] == "Err" and isinstance(ty, tuple) and ty[0] == "res" and len(ty) > 2:
            return [f"(.error {x})" for x in self.patlean(p[2][0], ("err", ty[2]))]
        return B.Tr.patlean(self, p, ty)

    # -- expressions ---------------------------------------------------------------------------
    def ex0(self, e, expect):
        k = e[0]
        if k == "struct" and e[1] == "Self":
            if not self.cfg.get("impl"):
                raise Unsupported("Self outside an impl")
            return B.Tr.ex0(self, ("struct", self.cfg["impl"], e[2]), expect)
        if k == "repeat":
            el = e[1]
            if el[0] == "int" and el[2] in (None, "u8") and 0 <= el[1] < 256:
                n, tn = self.ex(e[2], "usize")
                if tn not in ("usize", "intlit"):
                    raise Unsupported(f"array length of type {tn}")
                return f"(List.replicate {n} ({el[1]} : UInt8))", "bytes"
            raise Unsupported("array repeat expression that is not a byte buffer `[<u8 literal>; N]`")
        if k == "macro" and e[1] == "vec":
            elt = expect[1] if isinstance(expect, tuple) and expect[0] == "list" else None
            items = [self.ex(a, elt) for a in B.parse_tokens(e[2], "vec")]
            if not items:
                if elt is None:
                    raise Unsupported("empty vec! without a known element type")
                return f"([] : {lean_ty(('list', elt))})", ("list", elt)
            ts = {str(t) for _, t in items}
            if len(ts) != 1:
                raise Unsupported("vec! with mixed element types")
            return "[" + ", ".join(v for v, _ in items) + "]", ("list", items[0][1])
        return B.Tr.ex0(self, e, expect)

    def path(self, name, expect):
        if name in self.cfg.get("consts", {}):
            return self.cfg["consts"][name]
        return B.Tr.path(self, name, expect)

    def binop(self, e, expect):
        op, l, r = e[1], e[2], e[3]
        if op in ("+", "==", "!="):
            tl = self.try_peek(l)
            if op == "+" and tl == "str":
                a, _ = self.ex(l)
                b, tb = self.ex(r)
                if tb != "str":
                    raise Unsupported(f"String + {tb}")
                return f"({a} ++ {b})", "str"
            if tl == "hash":
                a, _ = self.ex(l)
                b, tb = self.ex(r)
                if tb != "hash":
                    raise Unsupported(f"comparison of a Hash with a {tb}")
                return (f"(hashEq {a} {b})" if op == "==" else f"(!(hashEq {a} {b}))"), "bool"
        return B.Tr.binop(self, e, expect)

    def index(self, e):
        t = self.try_peek(e[1])
        if t == "bytes":
            r, _ = self.ex(e[1])
            idx = e[2]
            if idx[0] != "range":
                raise Unsupported("indexing a byte buffer with a single index")
            if idx[1] is None and idx[2] is None:
                return r, "bytes"
            if idx[1] is None:
                hi, th = self.ex(idx[2], "usize")
                if th not in ("usize", "intlit"):
                    raise Unsupported(f"slice bound of type {th}")
                v = self.fresh()
                self.emit(f"let {v} ← sliceBytesTo {r} {hi}")
                return v, "bytes"
            raise Unsupported("byte slice with a lower bound")
        return B.Tr.index(self, e)

    def args_typed(self, args, ptypes, what):
        if len(args) != len(ptypes):
            raise Unsupported(f"{what}: {len(args)} arguments")
        vs = []
        for a, pt in zip(args, ptypes):
            v, t = self.ex(a, pt)
            if t == "intlit" and pt in B.NUM:
                t = pt
            if t != pt:
                raise Unsupported(f"{what}: argument of type {t}, parameter of type {pt}")
            vs.append(v)
        return vs

    def call(self, e, expect):
        name, args = e[1], e[2]
        if name in self.sigs:
            sig = self.sigs[name]
            for amb in sig["ambient"]:
                self.need(amb, f"call of {name}")
            if sig["io"] and not self.io:
                raise Unsupported(f"{name} prints; the caller is not translated as a printing function")
            outs = []
            for j in sig["outstate"]:
                a = args[j] if j < len(args) else None
                if not (a and a[0] == "unary" and a[1] == "&mut" and a[2][0] == "path" and a[2][1] in self.types) \
                        and not (a and a[0] == "path" and a[1] in self.outstate):
                    raise Unsupported(f"{name}: argument {j} must be `&mut variable`")
                outs.append(root_var(a))
            vs = self.args_typed(args, sig["ptypes"], name)
            if sig.get("pure"):
                return "(" + sig["lean"] + "".join(f" {v}" for v in vs) + ")", sig["ret"]
            term = sig["lean"] + "".join(f" {a}" for a in sig["ambient"]) + "".join(f" {v}" for v in vs)
            if sig["result"]:
                return term, ("pending", sig["ret"], sig["err"], outs, sig["io"])
            v = self.fresh()
            self.emit(f"let {v} ← {term}")
            return self.rebind_outs(v, sig["ret"], outs)
        if name == "Inner::parse_from":
            if len(args) != 1 or args[0] != ("call", "wild::args_os", []):
                raise Unsupported("Inner::parse_from: the argument is not wild::args_os()")
            self.need("cli", "Inner::parse_from")
            self.note("`Inner::parse_from(wild::args_os())` (clap) is the parameter `cli`")
            return "cli", ("struct", "Inner")
        if name in CALLS2:
            items = [self.ex(a) for a in args]
            got = tuple(("u64" if t == "intlit" else t) for _, t in items)
            for ptypes, tplt, rt, kind in CALLS2[name]:
                if tuple(ptypes) == got or (len(ptypes) == len(got) and all(p == g or (g == "u64" and p in B.NUM) for p, g in zip(ptypes, got))):
                    term = self.tpl(tplt, name, *[v for v, _ in items])
                    if kind == "pure":
                        return term, rt
                    if kind == "res":
                        v = self.fresh()
                        self.emit(f"let {v} ← {term}")
                        return v, rt
                    if kind == "try":
                        return term, ("pending", rt, "String", [], False)
                    if kind == "io-try":
                        return term, ("pending", rt, "String", [], True)
            raise Unsupported(f"{name}({', '.join(map(str, got))}) is not in the mapping table")
        return B.Tr.call(self, e, expect)

    def rebind_outs(self, v, ret, outs):
        n = (0 if ret == "unit" else 1) + len(outs)
        off = 0 if ret == "unit" else 1
        for j, o in enumerate(outs):
            self.emit(f"let {ln(o)} := {proj(v, n, j + off)}")
        if ret == "unit":
            return "()", "unit"
        return proj(v, n, 0), ret

    def try_(self, e, expect):
        inner = e[1]
        if inner[0] == "mcall":
            recv, m, a = inner[1], inner[2], inner[3]
            if m == "read_line":
                return B.Tr.try_(self, e, expect)
            t = self.try_peek(recv)
            if t == "hasher" and m in ("update_reader", "update_mmap", "update_mmap_rayon"):
                hv = recv[1] if recv[0] == "path" and recv[1] in self.types else None
                if hv is None or len(a) != 1:
                    raise Unsupported(f".{m}() must be called on a Hasher variable with one argument")
                if self.err != "String":
                    raise Unsupported(f".{m}()? in a function whose error type is not String")
                v, ta = self.ex(a[0])
                if m == "update_reader":
                    if ta != "bytesrc":
                        raise Unsupported(f"update_reader({ta})")
                    self.emit(f"let {ln(hv)} ← hasherUpdateReader {ln(hv)} {v}")
                else:
                    if ta != "osbytes":
                        raise Unsupported(f"{m}({ta})")
                    self.need("w", m)
                    self.emit(f"let {ln(hv)} ← hasherUpdateMmap w {ln(hv)} {v}")
                    if m == "update_mmap_rayon":
                        self.note("`update_mmap_rayon` and `update_mmap` absorb the same bytes (multithreading is not modelled)")
                return "()", "unit"
            if t == "bytesrc" and m == "read_to_end":
                if len(a) != 1 or not (a[0][0] == "unary" and a[0][1] == "&mut" and a[0][2][0] == "path"
                                       and self.types.get(a[0][2][1]) == "bytes"):
                    raise Unsupported("read_to_end: the argument must be `&mut <Vec<u8> variable>`")
                if self.err != "String":
                    raise Unsupported("read_to_end()? in a function whose error type is not String")
                buf = a[0][2][1]
                r, _ = self.ex(recv)
                v = self.fresh()
                self.emit(f"let {v} ← readToEnd {r} {ln(buf)}")
                self.emit(f"let {ln(buf)} := {v}.2")
                return f"{v}.1", "usize"
            if t == "tpb" and m == "build" and not a:
                self.ex(recv)
                self.note("building the rayon thread pool is assumed to succeed")
                return "()", "tpool"
        term, ty = self.ex(inner, expect, pending_ok=True)
        if isinstance(ty, tuple) and ty[0] == "pending":
            ret, err, outs, io = (ty + (None, None, None))[1:5] if len(ty) < 5 else ty[1:5]
            err = err or self.err
            if err != self.err:
                raise Unsupported(f"`?` on a Result with error type {err} in a function whose error type is {self.err}")
            if io and not self.io:
                raise Unsupported("a printing function is called from a function that cannot print")
            v = self.fresh()
            self.emit(f"let {v} ← {term}")
            return self.rebind_outs(v, ret, outs or [])
        raise Unsupported("`?` on something that is not a Result-returning call of the mapping tables")

    def mcall(self, e, expect):
        recv, m, args = e[1], e[2], e[3]
        # slice.try_into().unwrap()  into the array type that the function returns
        if m == "unwrap" and not args and recv[0] == "mcall" and recv[2] == "try_into" and not recv[3]:
            r, t = self.ex(recv[1])
            if t != "bytes" or expect != "bytes" or self.ret != "bytes" or self.ret_arr_len is None:
                raise Unsupported("try_into().unwrap() that is not a byte slice converted into the returned array type")
            v = self.fresh()
            self.emit(f"let {v} ← arrayFromSlice {self.ret_arr_len} {r}")
            return v, "bytes"
        t = self.try_peek(recv)
        if t is None:
            return B.Tr.mcall(self, e, expect)
        rvar = recv[1] if recv[0] == "path" and "::" not in recv[1] and recv[1] in self.types else None
        if isinstance(t, tuple) and t[0] == "struct" and (t[1] + "::" + m) in self.sigs:
            return self.call(("call", t[1] + "::" + m, [recv] + list(args)), expect)
        if t == "reader" and m == "fill":
            if rvar is None or len(args) != 1 or not (args[0][0] == "unary" and args[0][1] == "&mut" and args[0][2][0] == "path"
                                                      and self.types.get(args[0][2][1]) == "bytes"):
                raise Unsupported("fill: must be `<reader variable>.fill(&mut <byte buffer variable>)`")
            buf = args[0][2][1]
            v = self.fresh()
            self.emit(f"let {v} := readerFill {ln(rvar)} {ln(buf)}.length")
            self.emit(f"let {ln(buf)} := {v}.1")
            self.emit(f"let {ln(rvar)} := {v}.2")
            return "()", "unit"
        if t == "reader" and m == "set_position":
            if rvar is None or len(args) != 1:
                raise Unsupported("set_position: must be called on a reader variable")
            p, tp = self.ex(args[0], "u64")
            if tp not in ("u64", "intlit"):
                raise Unsupported(f"set_position({tp})")
            self.emit(f"let {ln(rvar)} := readerSetPosition {ln(rvar)} {p}")
            return "()", "unit"
        snap = self.snapshot()
        r, _ = self.ex(recv)
        items = [self.ex(a) for a in args]
        akinds = tuple(("u64" if ta == "intlit" else kind_of(ta)) for _, ta in items)
        key = (kind_of(t), m, akinds)
        if key not in PRIMS2:
            key = (kind_of(t), m, tuple("u64" if a == "usize" else a for a in akinds))
        if key in PRIMS2:
            tplt, rt, kind = PRIMS2[key]
            return self.tpl(tplt, f".{m}()", r, *[v for v, _ in items]), (t if rt is None else rt)
        # not ours: the tables of ext_b3sum.py.  The receiver was evaluated above and is evaluated again there: undo the first
        self.restore(snap)
        return B.Tr.mcall(self, e, expect)

    # -- formatting ------------------------------------------------------------------------------
    def render(self, v, t):
        if t == "str":
            return v
        if t in ("u64", "usize", "intlit"):
            return f"(natToStr {v})"
        if t == ("err", "PErr"):
            return f"(PErr.msg {v}).toList"
        if t == ("err", "String"):
            return f"{v}.toList"
        raise Unsupported(f"{{}} applied to a value of type {t}")

    def fmt_pieces(self, toks):
        if not toks:
            return []
        args = B.parse_tokens(toks, "format")
        if args[0][0] != "str":
            raise Unsupported("format string is not a literal")
        fmt, rest = args[0][1], list(args[1:])
        pieces, cur, j = [], [], 0
        while j < len(fmt):
            if fmt.startswith("{{", j) or fmt.startswith("}}", j):
                cur.append(fmt[j])
                j += 2
            elif fmt.startswith("{}", j):
                if cur:
                    pieces.append(leanstr("".join(cur)))
                    cur = []
                if not rest:
                    raise Unsupported("format string has more {} than arguments")
                v, t = self.ex(rest.pop(0))
                pieces.append(self.render(v, t))
                j += 2
            elif fmt[j] in "{}":
                raise Unsupported(f"format specification in {fmt!r}")
            else:
                cur.append(fmt[j])
                j += 1
        if cur:
            pieces.append(leanstr("".join(cur)))
        if rest:
            raise Unsupported("format string has fewer {} than arguments")
        return pieces

    # -- statements ------------------------------------------------------------------------------
    def tail(self, e, k):
        if e[0] == "macro" and e[1] == "vec":
            want = k.expect if isinstance(k, B.KJoin) else (self.ret if isinstance(k, B.KRet) and not self.ret_is_result else None)
            term, ty = self.ex(e, want)
            k.finish(self, term, ty)
            return
        B.Tr.tail(self, e, k)

    def stmt_expr(self, e, ss, i, k):
        k0 = e[0]
        last = i == len(ss) - 1
        if k0 == "macro" and e[1] in ("print", "println", "eprint", "eprintln"):
            if not self.io:
                raise Unsupported(f"{e[1]}! in a function that is not translated as a printing function")
            pieces = self.fmt_pieces(e[2])
            if e[1].endswith("ln"):
                pieces.append(leanstr("\n"))
            act = "printErr" if e[1].startswith("e") else "printOut"
            self.emit(f"{act} (" + " ++ ".join(pieces or ["([] : Str)"]) + ")")
            return False
        if k0 == "macro" and e[1] == "bail":
            if self.err != "String":
                raise Unsupported("bail! in a function whose error type is not String")
            if not last:
                raise Unsupported("statements after bail!")
            pieces = self.fmt_pieces(e[2])
            if not pieces:
                raise Unsupported("bail! without a message")
            term = "Res.err (String.ofList (" + " ++ ".join(pieces) + "))"
            self.emit(f"liftR ({term})" if self.io else term)
            return True
        if k0 == "macro" and e[1] == "ensure":
            raise Unsupported("ensure!")
        if k0 == "assign" and e[1] == "=" and e[2][0] == "path" and e[2][1] in self.types and self.types[e[2][1]] is None \
                and e[2][1] in self.decl_types:
            v, want = e[2][1], self.decl_types[e[2][1]]
            term, ty = self.ex(e[3], want)
            if ty != want:
                raise Unsupported(f"{v}: declared as {want}, assigned a {ty}")
            self.emit(f"let {ln(v)} := {term}")
            self.types[v] = ty
            return False
        return B.Tr.stmt_expr(self, e, ss, i, k)

    def let_(self, st, ss, i, k):
        pat, ty, init, els = st[1], st[2], st[3], st[4]
        if init is None:
            if pat[0] == "pbind" and ty is not None:
                self.decl_types[pat[1]] = norm_type(ty)
            elif pat[0] == "pbind":
                self.decl_types.pop(pat[1], None)
            return B.Tr.let_(self, st, ss, i, k)
        if init[0] == "match" and els is None and any(B.diverges(arm_stmts(b)) for _, _, b in init[2]):
            expect = norm_type(ty) if ty is not None else None
            scrut, arms = init[1], init[2]
            if any(g is not None for _, g, _ in arms):
                raise Unsupported("match guard")
            if sum(1 for _, _, b in arms if not B.diverges(arm_stmts(b))) != 1:
                raise Unsupported("`let .. = match` with diverging arms must have exactly one arm that yields the value")
            s, sty = self.ex(scrut)
            fns = []
            for p, _, body in arms:
                stmts = arm_stmts(body)
                if B.diverges(stmts):
                    fns.append((p, lambda k2, stmts=stmts: self.stmts(stmts, 0, B.KDead("an arm that must diverge ends"))))
                else:
                    self.no_shadowing(p, stmts)
                    fns.append((p, lambda k2, stmts=stmts: self.stmts(stmts, 0, KBind(pat, expect, ss, i, k2))))
            self.pat_match(s, sty, fns, None, k)
            return True
        return B.Tr.let_(self, st, ss, i, k)

    def no_shadowing(self, pat, stmts):
        """the rest of the block is translated inside the arm: the arm must not re-declare a name of the enclosing scope"""
        names = bound_names(pat)
        for st in stmts:
            if st[0] == "let":
                names += bound_names(st[1])
        for n in names:
            if n in self.types:
                raise Unsupported(f"a match arm that is continued by the rest of the block re-declares {n}")

    def match_(self, e, ss, i, k, value=False, expect=None, tail=False):
        arms = e[2]
        if not value and not tail and ss is not None and any(B.diverges(arm_stmts(b)) for _, _, b in arms):
            # `match x { A => { .. } B => { ..; return .. } }; rest`: the rest of the block continues the arms that end
            if any(g is not None for _, g, _ in arms):
                raise Unsupported("match guard")
            if sum(1 for _, _, b in arms if not B.diverges(arm_stmts(b))) != 1:
                raise Unsupported("a match with diverging arms in the middle of a block must have exactly one arm that ends")
            s, sty = self.ex(e[1])
            fns = []
            for p, _, body in arms:
                stmts = arm_stmts(body)
                if B.diverges(stmts):
                    fns.append((p, lambda k2, stmts=stmts: self.stmts(stmts, 0, B.KDead("an arm that must diverge ends"))))
                else:
                    self.no_shadowing(p, stmts)
                    if stmts and stmts[-1][0] == "expr" and not stmts[-1][2] and stmts[-1][1][0] not in B.BLOCKLIKE:
                        raise Unsupported("a match statement whose arm has a value")
                    fns.append((p, lambda k2, stmts=stmts: self.stmts(list(stmts) + list(ss[i + 1:]), 0, k2)))
            self.pat_match(s, sty, fns, None, k)
            return True
        return B.Tr.match_(self, e, ss, i, k, value=value, expect=expect, tail=tail)

    def probe_block(self, stmts):
        s = self.snapshot()
        try:
            self.tail_ok = False
            self.stmts(stmts, 0, KProbe())
        except Probe as p:
            return p.ty
        except Unsupported:
            return None
        finally:
            self.restore(s)
        return None

    def if_(self, e, ss, i, k, value=False, expect=None, tail=False):
        if value and expect is None and e[3] is not None:
            for br in (e[2], e[3]):
                t = self.probe_block(br)
                if t is not None and t != "intlit" and not (isinstance(t, tuple) and t[0] in ("pending", "okv")):
                    expect = t
                    break
        return B.Tr.if_(self, e, ss, i, k, value=value, expect=expect, tail=tail)

    def join(self, build, vars_, value=False, expect=None):
        vars_ = list(vars_)
        while True:
            s = self.snapshot()
            try:
                return B.Tr.join(self, build, vars_, value, expect)
            except NotAssigned as ex:
                self.restore(s)
                vars_.remove(ex.var)

    def loop(self, e, ss, i, k):
        n0 = len(self.defs)
        r = B.Tr.loop(self, e, ss, i, k)
        if self.io:
            for j in range(n0, len(self.defs)):
                lines = self.defs[j].split("\n")
                head = lines[0]
                cut = head.rfind("→ Res String ")
                if cut < 0:
                    raise Unsupported("translator error: loop header")
                lines[0] = head[:cut] + "→ Io " + head[cut + len("→ Res String "):]
                lines = [x.replace("=> Res.panic   -- out of fuel", "=> liftR Res.panic   -- out of fuel") for x in lines]
                self.defs[j] = "\n".join(lines)
        return r


# ------------------------------------------------------------------------------------------------
# finding things in the source

def fn_at(text, pos, what):
    """parse `fn name(params) -> ret { body }` starting at text[pos]; returns (params, ret type AST, body, end offset)"""
    toks = B.lex(text, pos)
    p = B.RP(toks)
    p.expect("fn")
    p.ident()
    p.expect("(")
    params = []
    while not p.at(")"):
        if p.at("&") or p.at("self") or p.at("mut") and p.at("self", 1):
            while not (p.at(",") or p.at(")")):
                p.next()
            params.append(("self", ("named", "Self", [])))
        else:
            if p.at("mut"):
                p.next()
            pn = p.ident()
            p.expect(":")
            params.append((pn, p.type_()))
        if p.at(","):
            p.next()
    p.next()
    ret = None
    if p.at("->"):
        p.next()
        ret = p.type_()
    return p, toks, params, ret


def find_fn(name, lo=0, hi=None):
    text = X.src(REL)
    m = re.compile(r"\bfn\s+%s\s*\(" % re.escape(name)).search(text, lo, hi if hi is not None else len(text))
    if not m:
        raise X.TranslationBroken(A, f"fn {name} not found in {REL}")
    p, toks, params, ret = fn_at(text, m.start(), name)
    body = p.block()
    X.record_span(A, REL, m.start(), toks[p.i - 1][3])
    return params, ret, body


def fn_header(name):
    """(params, ret) of a function that another artefact translates (no span is recorded)"""
    text = X.src(REL)
    m = re.search(r"\bfn\s+%s\s*\(" % re.escape(name), text)
    if not m:
        raise X.TranslationBroken(A, f"fn {name} not found in {REL}")
    _, _, params, ret = fn_at(text, m.start(), name)
    return params, ret


def impl_span(name):
    text = X.src(REL)
    m = re.search(r"\bimpl\s+%s\s*\{" % re.escape(name), text)
    if not m:
        raise X.TranslationBroken(A, f"impl {name} not found in {REL}")
    toks = B.lex(text, m.end() - 1)
    depth, fns = 0, []
    for j, (k, v, s, e_) in enumerate(toks):
        if k == "err":
            raise X.TranslationBroken(A, f"impl {name}: cannot lex: {v}")
        if k == "op" and v == "{":
            depth += 1
        elif k == "op" and v == "}":
            depth -= 1
            if depth == 0:
                return m.start(), e_, fns
        elif depth == 1 and k == "id" and v == "fn" and toks[j + 1][0] == "id":
            fns.append(toks[j + 1][1])
    raise X.TranslationBroken(A, f"impl {name}: unbalanced braces")


def find_struct(name):
    """[(field, type AST, [attribute token lists])] of `struct name { .. }` (doc comments are comments; `#[..]` attributes are
    returned as token lists)"""
    text = X.src(REL)
    m = re.search(r"\bstruct\s+%s\s*\{" % re.escape(name), text)
    if not m:
        raise X.TranslationBroken(A, f"struct {name} not found in {REL}")
    toks = B.lex(text, m.start())
    p = B.RP(toks)
    p.expect("struct")
    p.ident()
    p.expect("{")
    fields = []
    while not p.at("}"):
        attrs = []
        while p.at("#"):
            p.next()
            if not p.at("["):
                raise Unsupported("attribute syntax")
            attrs.append(p.macro_tokens())
        if p.at("pub"):
            p.next()
        f = p.ident()
        p.expect(":")
        fields.append((f, p.type_(), attrs))
        if p.at(","):
            p.next()
    p.next()
    X.record_span(A, REL, m.start(), toks[p.i - 1][3])
    return fields


def str_const(name):
    text = X.src(REL)
    m = re.search(r"\bconst\s+%s\s*:\s*&\s*(?:'static\s+)?str\s*=" % re.escape(name), text)
    if not m:
        raise X.TranslationBroken(A, f"const {name}: &str not found in {REL}")
    toks = B.lex(text, m.end())
    if len(toks) < 2 or toks[0][0] != "str" or toks[1][:2] != ("op", ";"):
        raise X.TranslationBroken(A, f"const {name} is not a string literal")
    X.record_span(A, REL, m.start(), toks[1][3])
    return toks[0][1]


def clap_default(tr, fname, ftype, attrs):
    """the value a field of the clap `Parser` struct has when the argument is absent"""
    for at in attrs:
        vals = [t[1] for t in at]
        if not (len(at) >= 3 and at[0][:2] == ("id", "arg") and at[1][:2] == ("op", "(")):
            continue
        inner = at[2:-1]
        depth, j = 0, 0
        while j < len(inner):
            k, v = inner[j][:2]
            if k == "op" and v in "([{":
                depth += 1
            elif k == "op" and v in ")]}":
                depth -= 1
            elif depth == 0 and k == "id" and v in ("default_value_t", "default_value", "default_values_t", "default_missing_value"):
                if v != "default_value_t" or inner[j + 1][:2] != ("op", "="):
                    raise Unsupported(f"field {fname}: clap attribute {v}")
                j2, d2 = j + 2, 0
                while j2 < len(inner) and not (d2 == 0 and inner[j2][:2] == ("op", ",")):
                    if inner[j2][0] == "op" and inner[j2][1] in "([{":
                        d2 += 1
                    elif inner[j2][0] == "op" and inner[j2][1] in ")]}":
                        d2 -= 1
                    j2 += 1
                p = B.RP(list(inner[j + 2:j2]) + [("op", ";", 0, 0)])
                ex = p.expr()
                if not p.at(";"):
                    raise Unsupported(f"field {fname}: default_value_t expression")
                n0 = len(tr.out)
                v_, t_ = tr.ex(ex, ftype)
                if len(tr.out) != n0:
                    raise Unsupported(f"field {fname}: default_value_t is not a constant expression")
                if t_ == "intlit" and ftype in B.NUM:
                    t_ = ftype
                if t_ != ftype:
                    raise Unsupported(f"field {fname}: default of type {t_} for a field of type {ftype}")
                return v_
            j += 1
    if ftype == "bool":
        return "false"
    if isinstance(ftype, tuple) and ftype[0] == "opt":
        return "none"
    if isinstance(ftype, tuple) and ftype[0] == "list":
        return "[]"
    raise Unsupported(f"field {fname} of type {ftype} has no default (a required argument)")


def main_prefix_and_closure():
    """`fn main`: the statements before `thread_pool.install(|| { .. })`, and the closure body"""
    text = X.src(REL)
    m = re.search(r"\bfn\s+main\s*\(", text)
    if not m:
        raise X.TranslationBroken(A, f"fn main not found in {REL}")
    p, toks, params, ret = fn_at(text, m.start(), "main")
    if params:
        raise Unsupported("main has parameters")
    p.expect("{")
    pre = []
    while not (p.at("thread_pool") and p.at(".", 1) and p.at("install", 2)):
        if p.at("}") or p.peek()[0] == "eof":
            raise Unsupported("`thread_pool.install(|| { .. })` not found")
        if p.at(";"):
            p.next()
            continue
        pre.append(p.stmt())
    for v in ("thread_pool", ".", "install", "(", "||"):
        p.expect(v)
    body = p.block()
    p.expect(")")
    if p.at(";"):
        raise Unsupported("the value of thread_pool.install(..) is not the value of main")
    p.expect("}")
    X.record_span(A, REL, m.start(), toks[p.i - 1][3])
    return pre, body


# ------------------------------------------------------------------------------------------------
# per-function translation

def translate(cfg, sigs):
    name = cfg["rust"]
    try:
        tr = Tr2(cfg, sigs)
        if cfg.get("parts"):
            params, ret, body = cfg["parts"]
        elif cfg.get("impl"):
            lo, hi, _ = impl_span(cfg["impl"])
            params, ret, body = find_fn(name, lo, hi)
        else:
            params, ret, body = find_fn(name)
        lean_params = []
        for pn, pt in params:
            t = norm_type(pt)
            tr.types[pn] = t
            if pt != "unit" and pt[0] == "mutref":
                tr.outstate.append(pn)
            lean_params.append((pn, t))
        for pn, t in cfg.get("params", []):
            tr.types[pn] = t
            lean_params.append((pn, t))
        if "ret" in cfg:
            tr.ret = cfg["ret"]
        else:
            inner_ret = ret
            rt = norm_type(ret) if ret is not None else "unit"
            if isinstance(rt, tuple) and rt[0] == "res":
                tr.ret_is_result, tr.ret = True, rt[1]
                inner_ret = ret[2][0]
            else:
                tr.ret = rt
            if tr.ret == "bytes" and inner_ret[0] == "arr" and inner_ret[2] is not None:
                v, t = tr.ex(inner_ret[2], "usize")
                if tr.out or t not in ("usize", "intlit"):
                    raise Unsupported("array length in the return type is not a constant")
                tr.ret_arr_len = v
        tr.types_at_entry = dict(tr.types)
        tr.stmts(body, 0, cfg.get("k") or B.KRet())
    except X.TranslationBroken:
        raise
    except Unsupported as ex:
        raise X.TranslationBroken(A, f"{cfg.get('impl', '') + '::' if cfg.get('impl') else ''}{name}: {ex}")
    except (IndexError, KeyError, TypeError, ValueError, AttributeError) as ex:
        raise X.TranslationBroken(A, f"{name}: translator error {ex!r}")
    o = list(tr.defs)
    doc = cfg["doc"]
    if tr.notes:
        doc += "  [" + "; ".join(tr.notes) + "]"
    o.append(f"/-- {doc} -/")
    sig = "".join(f" ({ln(n)} : {lean_ty(t)})" for n, t in lean_params)
    pure = (not tr.defs and len(tr.out) == 1 and tr.out[0].strip().startswith("pure ") and not tr.ambient
            and not tr.ret_is_result and not tr.outstate and not tr.io)
    if pure:
        o.append(f"def {cfg['lean']}{sig} : {tr.result_lean_ty()} := {tr.out[0].strip()[5:]}")
    else:
        monad = "Io" if tr.io else "Res String"
        o.append(f"def {cfg['lean']}{tr.binders()}{sig} : {monad} {tr.result_lean_ty()} := do")
        o.extend(tr.out)
    o.append("")
    key = (cfg["impl"] + "::" + name) if cfg.get("impl") else cfg.get("key", name)
    sigs[key] = dict(lean=cfg["lean"], ptypes=[t for _, t in lean_params], ret=tr.ret, result=tr.ret_is_result, err="String",
                     ambient=list(tr.ambient), io=tr.io, pure=pure,
                     outstate=[j for j, (pn, _) in enumerate(lean_params) if pn in tr.outstate])
    return "\n".join(o)


def g11_sig(sigs, name, lean, err, result):
    params, ret = fn_header(name)
    rt = norm_type(ret)
    if result:
        if not (isinstance(rt, tuple) and rt[0] == "res"):
            raise Unsupported(f"{name} no longer returns a Result")
        rt = rt[1]
    sigs[name] = dict(lean=lean, ptypes=[norm_type(t) for _, t in params], ret=rt, result=result, err=err, ambient=[], io=False,
                      pure=False, outstate=[])


def gen_b3sum_io():
    B.STRUCTS.clear()
    try:
        for sname in G11_STRUCTS:
            B.STRUCTS[sname] = []
            B.STRUCTS[sname] = [(f, norm_type(t)) for f, t in B.find_rust_struct(sname)]
        inner_fields = find_struct("Inner")
        B.STRUCTS["Inner"] = []
        B.STRUCTS["Inner"] = [(f, norm_type(t)) for f, t, _ in inner_fields]
        args_fields = find_struct("Args")
        B.STRUCTS["Args"] = []
        B.STRUCTS["Args"] = [(f, norm_type(t)) for f, t, _ in args_fields]
        consts = {"NAME": (leanstr(str_const("NAME")), "str")}
        for c in ("OUT_LEN", "KEY_LEN", "BLOCK_LEN"):
            consts["blake3::" + c] = (str(X.rust_const_int(A, "src/lib.rs", c)), "usize")
        dtr = Tr2(dict(lean="Inner.default", err="String", consts=consts), {})
        defaults = [(f, clap_default(dtr, f, norm_type(t), attrs)) for f, t, attrs in inner_fields]
        sigs = {}
        g11_sig(sigs, "parse_check_line", "B3sumParse.parse_check_line", "PErr", True)
        g11_sig(sigs, "filepath_to_string", "B3sumParse.filepath_to_string", "String", False)
        _, _, impl_fns = impl_span("Args")
        main_pre, main_closure = main_prefix_and_closure()
    except Unsupported as ex:
        raise X.TranslationBroken(A, f"declarations: {ex}")
    o = ["/- GENERATED by gen/ext_b3sum2.py from /repo/b3sum/src/main.rs (argument handling, key reading, opening and hashing the",
         "   inputs, the two output writers, check_one_line, check_one_checkfile, main) -- do not edit.  Library operations are",
         "   mapped by the tables CALLS2 / PRIMS2 of gen/ext_b3sum2.py (and PRIMS / CALLS / INTO of gen/ext_b3sum.py) to the",
         "   primitives of B3.B3sum.IoPrim / RustPrim / Model; control flow, operators, constants, literals, format strings, the",
         "   order of statements and every panicking operation come from the source text.  `parse_check_line` and",
         "   `filepath_to_string` are the translated functions of artefact G11 (Gen/B3sumParse.lean). -/",
         "import B3.B3sum.IoPrim", "import B3.Gen.B3sumParse", "set_option linter.unusedVariables false",
         "namespace B3.Gen.B3sumIo", "open B3.B3sum B3.B3sum.RustPrim B3.B3sum.IoPrim", ""]
    for sname, what in (("Inner", "the clap `Parser` struct: one field per command line argument"), ("Args", "")):
        o.append(f"/-- `struct {sname}`" + (f" ({what})" if what else "") + " -/")
        o.append(f"structure {sname} where")
        for f, t in B.STRUCTS[sname]:
            o.append(f"  {ln(f)} : {lean_ty(t)}")
        o.append("")
    o.append("/-- the fields of `Inner` when no argument is given: flags are false, optional arguments are `None`, the positional list")
    o.append("is empty, and `#[arg(default_value_t = ..)]` is the expression of the source -/")
    o.append("def Inner.default : Inner :=")
    o.append("  { " + ", ".join(f"{ln(f)} := {v}" for f, v in defaults) + " }")
    o.append("")

    plan = []
    for fn in impl_fns:
        if fn == "parse":
            continue
        plan.append(dict(rust=fn, impl="Args", lean="Args." + ln(fn), consts=consts, doc=f"`Args::{fn}`"))
    plan += [
        dict(rust="read_key_from_stdin", lean="read_key_from_stdin", consts=consts, ambient=["w"],
             doc="`read_key_from_stdin`: `Err(message)` unless stdin delivers exactly `KEY_LEN` bytes"),
        dict(rust="parse", impl="Args", lean="Args.parse", consts=consts, ambient=["w", "cli"],
             doc="`Args::parse`: the default file list, the `--raw` restriction and the mode of the base hasher"),
        dict(rust="hash_path", lean="hash_path", consts=consts, ambient=["w"],
             doc="`hash_path`: which input is absorbed (stdin for `-`, refused in keyed mode; the file otherwise, read or mapped) "
                 "and where the output reader is positioned"),
        dict(rust="write_hex_output", lean="write_hex_output", consts=consts, io=True, fuel={1: "len + 1"},
             doc="`write_hex_output`; the `while len > 0` loop is `write_hex_output_loop` with fuel `len + 1` (every iteration "
                 "removes at least one byte from `len`; running out of fuel is a panic and is proved unreachable)"),
        dict(rust="write_raw_output", lean="write_raw_output", consts=consts, io=True, doc="`write_raw_output`"),
        dict(rust="hash_one_input", lean="hash_one_input", consts=consts, io=True, ambient=["w"], doc="`hash_one_input`"),
        dict(rust="check_one_line", lean="check_one_line", consts=consts, io=True, ambient=["w"], doc="`check_one_line`"),
        dict(rust="check_one_checkfile", lean="check_one_checkfile", consts=consts, io=True, ambient=["w"],
             fuel={1: "bufreader.length + 1"},
             doc="`check_one_checkfile`: returns the new `*files_failed`; the `loop` is `check_one_checkfile_loop` with fuel "
                 "`bufreader.length + 1` (`bufreader` = the future results of `read_line`; an exhausted reader returns `Ok(0)`)"),
        dict(rust="main", key="main::closure", lean="main_closure", consts=consts, io=True, ambient=["w"], ret="i32",
             exit_is_return=True, parts=([], None, main_closure), params=[("args", ("struct", "Args"))],
             doc="the closure that `main` runs in the thread pool; the value is the argument of `std::process::exit` "
                 "(`err e` = the closure returns `Err(e)`)"),
        dict(rust="main", lean="main", consts=consts, io=True, ambient=["w", "cli"], ret="i32",
             parts=([], None, main_pre), k=KEmit("main_closure w args"),
             doc="`main`: the statements before `thread_pool.install(|| ..)`, then the closure (rayon runs it to completion on a "
                 "pool thread; the thread pool itself is not modelled)"),
    ]
    for cfg in plan:
        cfg.setdefault("err", "String")
        o.append(translate(cfg, sigs))
    o.append("end B3.Gen.B3sumIo")
    return "\n".join(o) + "\n"


ARTEFACTS = [("B3sumIo.lean", A, gen_b3sum_io)]

if __name__ == "__main__":
    sys.stdout.write(gen_b3sum_io())
