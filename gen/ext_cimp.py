"""
G14-c-state: the chunk-state / hasher layer of c/blake3.c translated WITH DATA into Lean (lean/B3/Gen/CState.lean).

A small C front end (tokenizer, expression / statement parser for the subset used by blake3.c) and a statement-level
translator into the panic monad `R`:

  C                                           Lean
  ------------------------------------------  ---------------------------------------------------------------------------
  struct declarations (blake3.h, output_t)    structures; `uint8_t` -> UInt8, `uint64_t`/`size_t` -> Nat (< 2^64, arithmetic
                                              through Arith.w64add/w64sub/w64mul = wrap-around), `uint32_t[8]` -> CV,
                                              `uint8_t[n]` -> List UInt8 (n bytes)
  `T *self` (non-const)                       the struct is passed in and the updated struct is returned
  `const uint8_t *p` + `p += n`               the remaining suffix of the buffer; `CMem.ptr` panics past the end
  `uint8_t *q = arr + e`, `&arr[e]`           (array, offset); memcpy / calls through it update the array (`CMem.wr`)
  array parameter `uint8_t x[N]`              N bytes read at the pointer (`CMem.rd`); if the callee writes to it the new
                                              N bytes are returned and written back by the caller
  uint8_t arithmetic                          UInt8 (wraps mod 256: `blocks_compressed += 1`, `buf_len += (uint8_t)take`)
  uint8_t (op) int literal in an index        exact Int arithmetic (C promotes to int; the translator checks by interval
                                              arithmetic that it cannot overflow int), negative index = panic (`CMem.idx`)
  `while`                                     fuel loop (separate definition; out of fuel = panic)
  `if` with `return` inside                   the rest of the function becomes the else-branch or a join-point definition
  uninitialised locals                        arbitrary bytes `E.junk site`
  blake3_compress_in_place, compress_subtree_to_parent_node, output_root_bytes
                                              fields of the parameter structure `Env` (typed from their C prototypes)

Anything outside the subset raises TranslationBroken("G14-c-state", "<function>: <what>").
"""
import re

import extract as X

A = "G14-c-state"
SRC = "c/blake3.c"
W64 = 1 << 64


class Broken(Exception):
    pass


# ------------------------------------------------------------------------------------------------
# tokens

TOK = re.compile(r"""\s*(?:
    (?P<num>0[xX][0-9a-fA-F]+|\d+)(?P<suf>[uUlL]*)
  | (?P<id>[A-Za-z_]\w*)
  | (?P<op>->|\+\+|--|<<=|>>=|<<|>>|<=|>=|==|!=|&&|\|\||[-+*/%&|^]=|[-+*/%&|^~!<>=?:;,.(){}\[\]\#])
)""", re.X)


def tokenize(s):
    out, i = [], 0
    s = s.rstrip()
    while i < len(s):
        m = TOK.match(s, i)
        if not m or m.end() == i:
            if s[i:].strip() == "":
                break
            raise Broken(f"cannot tokenize at {s[i:i + 30]!r}")
        i = m.end()
        if m.group("num") is not None:
            out.append(("num", int(m.group("num"), 0)))
        elif m.group("id") is not None:
            out.append(("id", m.group("id")))
        else:
            out.append(("op", m.group("op")))
    return out


BASE_TYPES = {"uint8_t": "u8", "uint32_t": "u32", "uint64_t": "u64", "size_t": "u64", "bool": "bool", "void": "void",
              "char": "char"}
STRUCT_NAMES = ["blake3_chunk_state", "blake3_hasher", "output_t"]


class CType:
    """base: u8 | u32 | u64 | bool | void | char | struct name; ptr: pointer depth; const; dim: array length or None"""

    def __init__(self, base, ptr=0, const=False, dim=None):
        self.base, self.ptr, self.const, self.dim = base, ptr, const, dim

    def __repr__(self):
        return f"{'const ' if self.const else ''}{self.base}{'*' * self.ptr}{'[%s]' % self.dim if self.dim is not None else ''}"


# ------------------------------------------------------------------------------------------------
# parser

BIN_PREC = [("||",), ("&&",), ("|",), ("^",), ("&",), ("==", "!="), ("<", ">", "<=", ">="), ("<<", ">>"), ("+", "-"), ("*", "/", "%")]


class Parser:
    def __init__(self, toks, consts):
        self.t, self.i, self.consts = toks, 0, consts

    def peek(self, k=0):
        return self.t[self.i + k] if self.i + k < len(self.t) else ("eof", None)

    def next(self):
        x = self.peek()
        self.i += 1
        return x

    def at(self, op, k=0):
        return self.peek(k) == ("op", op)

    def expect(self, op):
        x = self.next()
        if x != ("op", op):
            raise Broken(f"expected {op!r}, found {x[1]!r}")

    def is_type_start(self, k=0):
        p = self.peek(k)
        return p[0] == "id" and (p[1] in BASE_TYPES or p[1] in STRUCT_NAMES or p[1] == "const")

    def type_prefix(self):
        """[const] base [const] '*'* -> CType (no declarator)"""
        const = False
        if self.peek() == ("id", "const"):
            self.next()
            const = True
        k, v = self.next()
        if k != "id" or not (v in BASE_TYPES or v in STRUCT_NAMES):
            raise Broken(f"type name expected, found {v!r}")
        base = BASE_TYPES.get(v, v)
        if self.peek() == ("id", "const"):
            self.next()
            const = True
        ptr = 0
        while self.at("*"):
            self.next()
            ptr += 1
        return CType(base, ptr, const)

    def const_int(self, e):
        v = const_fold(e, self.consts)
        if v is None:
            raise Broken("array dimension is not a constant expression")
        return v

    # ---- expressions
    def expr(self, level=0):
        if level == len(BIN_PREC):
            return self.unary()
        lhs = self.expr(level + 1)
        while self.peek()[0] == "op" and self.peek()[1] in BIN_PREC[level]:
            op = self.next()[1]
            rhs = self.expr(level + 1)
            lhs = ("bin", op, lhs, rhs)
        if level == 0 and self.at("?"):
            raise Broken("conditional expressions are not supported")
        return lhs

    def unary(self):
        if self.at("("):
            # cast?
            if self.is_type_start(1):
                save = self.i
                self.next()
                ty = self.type_prefix()
                if self.at(")"):
                    self.next()
                    return ("cast", ty, self.unary())
                self.i = save
        for op in ("&", "*", "-", "!", "~"):
            if self.at(op):
                self.next()
                return ("un", op, self.unary())
        return self.postfix()

    def postfix(self):
        k, v = self.next()
        if k == "num":
            e = ("num", v)
        elif k == "id":
            if self.at("("):
                self.next()
                args = []
                while not self.at(")"):
                    args.append(self.expr())
                    if self.at(","):
                        self.next()
                self.expect(")")
                e = ("call", v, args)
            else:
                e = ("id", v)
        elif (k, v) == ("op", "("):
            e = self.expr()
            self.expect(")")
        else:
            raise Broken(f"unexpected token {v!r} in an expression")
        while True:
            if self.at("["):
                self.next()
                i = self.expr()
                self.expect("]")
                e = ("idx", e, i)
            elif self.at(".") or self.at("->"):
                self.next()
                k2, f = self.next()
                if k2 != "id":
                    raise Broken("field name expected")
                e = ("mem", e, f)
            else:
                return e

    # ---- statements
    def block_body(self):
        out = []
        while not self.at("}") and self.peek()[0] != "eof":
            out.append(self.statement())
        return out

    def braced(self):
        self.expect("{")
        b = self.block_body()
        self.expect("}")
        return b

    def statement(self):
        if self.at("#"):
            raise Broken("preprocessor directive inside a translated function")
        if self.at("{"):
            raise Broken("nested bare block")
        p = self.peek()
        if p == ("id", "if"):
            self.next()
            self.expect("(")
            c = self.expr()
            self.expect(")")
            if not self.at("{"):
                raise Broken("`if` without a braced block")
            th = self.braced()
            el = None
            if self.peek() == ("id", "else"):
                self.next()
                if self.peek() == ("id", "if"):
                    el = [self.statement()]
                else:
                    el = self.braced()
            return ("if", c, th, el)
        if p == ("id", "while"):
            self.next()
            self.expect("(")
            c = self.expr()
            self.expect(")")
            return ("while", c, self.braced())
        if p == ("id", "return"):
            self.next()
            e = None if self.at(";") else self.expr()
            self.expect(";")
            return ("return", e)
        if p[0] == "id" and p[1] in ("for", "do", "switch", "goto", "break", "continue"):
            raise Broken(f"`{p[1]}` statements are not supported")
        if self.is_type_start():
            ty = self.type_prefix()
            k, name = self.next()
            if k != "id":
                raise Broken("declarator name expected")
            if self.at("["):
                self.next()
                ty.dim = self.const_int(self.expr())
                self.expect("]")
            init = None
            if self.at("="):
                self.next()
                init = self.expr()
            self.expect(";")
            return ("decl", ty, name, init)
        e = self.expr()
        if self.peek()[0] == "op" and self.peek()[1] in ("=", "+=", "-=", "*=", "/=", "&=", "|=", "^=", "%=", "<<=", ">>="):
            op = self.next()[1]
            rhs = self.expr()
            self.expect(";")
            return ("assign", e, op, rhs)
        if self.at("++") or self.at("--"):
            raise Broken("++ / -- are not supported")
        self.expect(";")
        if e[0] != "call":
            raise Broken("expression statement without effect")
        return ("callstmt", e)

    def params(self):
        out = []
        if self.peek() == ("id", "void") and self.peek(1)[0] == "eof":
            return out
        while self.peek()[0] != "eof":
            ty = self.type_prefix()
            k, name = self.next()
            if k != "id":
                raise Broken("parameter name expected")
            if self.at("["):
                self.next()
                ty.dim = self.const_int(self.expr())
                self.expect("]")
            out.append((name, ty))
            if self.at(","):
                self.next()
        return out


def const_fold(e, consts):
    k = e[0]
    if k == "num":
        return e[1]
    if k == "id":
        return consts.get(e[1])
    if k == "cast":
        return const_fold(e[2], consts)
    if k == "un" and e[1] == "-":
        v = const_fold(e[2], consts)
        return None if v is None else -v
    if k == "bin":
        a, b = const_fold(e[2], consts), const_fold(e[3], consts)
        if a is None or b is None:
            return None
        op = e[1]
        try:
            return {"+": a + b, "-": a - b, "*": a * b, "/": a // b if b else None, "%": a % b if b else None,
                    "<<": a << b, ">>": a >> b, "|": a | b, "&": a & b, "^": a ^ b}.get(op)
        except Exception:
            return None
    return None


def contains_return(stmts):
    for st in stmts:
        if st[0] == "return":
            return True
        if st[0] == "if" and (contains_return(st[2]) or (st[3] and contains_return(st[3]))):
            return True
        if st[0] == "while" and contains_return(st[2]):
            raise Broken("`return` inside a loop is not supported")
    return False


def always_returns(stmts):
    if not stmts:
        return False
    st = stmts[-1]
    if st[0] == "return":
        return True
    if st[0] == "if" and st[3] is not None:
        return always_returns(st[2]) and always_returns(st[3])
    return False


# ------------------------------------------------------------------------------------------------
# types on the Lean side

# value types of the translator: 'u8' | 'u64' | 'bool' | ('int', lo, hi) | ('lit', v) | 'words' | ('bytes', n|None) | ('struct', S)


def lean_type_of_ctype(ty, structs):
    """Lean type of a variable / field / by-value parameter of C type ty"""
    if ty.dim is not None or ty.ptr:
        if ty.base == "u32" and ty.dim == 8:
            return "CV"
        if ty.base in ("u8", "void", "char"):
            return "List UInt8"
        if ty.base in structs and ty.ptr == 1 and ty.dim is None:
            return ty.base
        raise Broken(f"unsupported type {ty}")
    if ty.base == "u8":
        return "UInt8"
    if ty.base == "u64":
        return "Nat"
    if ty.base == "bool":
        return "Bool"
    if ty.base in structs:
        return ty.base
    raise Broken(f"unsupported type {ty}")


def vtype_of_ctype(ty, structs):
    if ty.dim is not None or ty.ptr:
        if ty.base == "u32" and ty.dim == 8:
            return "words"
        if ty.base in ("u8", "void", "char"):
            return ("bytes", ty.dim)
        if ty.base in structs and ty.ptr == 1 and ty.dim is None:
            return ("struct", ty.base)
        raise Broken(f"unsupported type {ty}")
    if ty.base in ("u8", "u64", "bool"):
        return ty.base
    if ty.base in structs:
        return ("struct", ty.base)
    raise Broken(f"unsupported type {ty}")


def lean_type_of_vtype(vt):
    if vt == "u8":
        return "UInt8"
    if vt == "u64":
        return "Nat"
    if vt == "bool":
        return "Bool"
    if vt == "words":
        return "CV"
    if isinstance(vt, tuple) and vt[0] == "bytes":
        return "List UInt8"
    if isinstance(vt, tuple) and vt[0] == "struct":
        return vt[1]
    raise Broken(f"no Lean type for {vt}")


def atom(t):
    t = str(t)
    if re.match(r"^[\w.]+$", t) or (t.startswith("(") and t.endswith(")") and X.match_brace(t, 0, "(", ")") == len(t)):
        return t
    return f"({t})"


class Var:
    def __init__(self, name, vt, kind="local", writable=True, alias=None):
        self.name, self.vt, self.kind, self.writable, self.alias = name, vt, kind, writable, alias
        self.dirty = False


class FnSig:
    """params: [(name, CType, mode)], mode: 'val' | 'in' | 'inout'; ret: value type or None; lean: how to call it"""

    def __init__(self, name, params, ret, kind):
        self.name, self.params, self.ret, self.kind = name, params, ret, kind   # kind: 'gen' | 'env'

    def inouts(self):
        return [p for p in self.params if p[2] == "inout"]


# ------------------------------------------------------------------------------------------------
# the translator of one function


class FnTr:
    def __init__(self, world, name, params, ret_ctype, body, fuels, force_inout=()):
        self.w = world
        self.name = name
        self.cparams = params
        self.ret = None if (ret_ctype.base == "void" and not ret_ctype.ptr) else vtype_of_ctype(ret_ctype, world.structs)
        self.body = body
        self.fuels = list(fuels)
        self.force_inout = set(force_inout)
        self.defs = []           # auxiliary definitions (loops, join points), in dependency order
        self.reset_state()

    def reset_state(self):
        self.tmp = 0
        self.nloops = 0
        self.njoins = 0
        self.scope = []          # list of Var, innermost last
        self.written = set()
        self.used = set()
        self.defs = []
        self.sites = 0

    # ---- helpers
    def fresh(self):
        self.tmp += 1
        return f"t{self.tmp}"

    def lookup(self, name):
        for v in reversed(self.scope):
            if v.name == name:
                return v
        return None

    def use(self, name):
        self.used.add(name)

    def write(self, name):
        v = self.lookup(name)
        if v is None:
            raise Broken(f"write to unknown variable {name}")
        if not v.writable:
            raise Broken(f"write through read-only parameter {name}")
        v.dirty = True
        self.written.add(name)
        self.used.add(name)

    def site(self):
        self.sites += 1
        return f"(E.junk {self.w.site_base(self.name) + self.sites})"

    # ---- places: (root variable name, [fields])
    def place(self, e):
        """struct / array / scalar location denoted by an lvalue expression; returns (root, fields, vtype) or None"""
        k = e[0]
        if k == "id":
            v = self.lookup(e[1])
            if v is None or v.alias is not None:
                return None
            return (v.name, [], v.vt)
        if k == "mem":
            p = self.place(e[1])
            if p is None:
                return None
            root, fields, vt = p
            if not (isinstance(vt, tuple) and vt[0] == "struct"):
                raise Broken(f"field access .{e[2]} on a non-struct")
            fs = dict(self.w.structs[vt[1]])
            if e[2] not in fs:
                raise Broken(f"struct {vt[1]} has no field {e[2]}")
            return (root, fields + [e[2]], vtype_of_ctype(fs[e[2]], self.w.structs))
        if k == "un" and e[1] in ("&", "*"):
            # &x / *x on a struct variable or pointer parameter: the same place
            p = self.place(e[2])
            if p is not None and isinstance(p[2], tuple) and p[2][0] == "struct":
                return p
            return None
        return None

    def place_read(self, p):
        self.use(p[0])
        return ".".join([p[0]] + p[1])

    def place_write(self, p, term, out, pad):
        root, fields, _ = p
        self.write(root)
        if not fields:
            out.append(f"{pad}let {root} := {term}")
            return
        # nested structure update
        def build(prefix, fs, value):
            if len(fs) == 1:
                return f"{{ {prefix} with {fs[0]} := {value} }}"
            inner = build(prefix + "." + fs[0], fs[1:], value)
            return f"{{ {prefix} with {fs[0]} := {inner} }}"
        out.append(f"{pad}let {root} := {build(root, fields, term)}")

    # ---- byte buffer references: (list term, offset term or None, place or None)
    def ref(self, e, out, pad):
        k = e[0]
        if k == "cast" and e[1].ptr:
            return self.ref(e[2], out, pad)
        if k == "id":
            v = self.lookup(e[1])
            if v is not None and v.alias is not None:
                pl, off = v.alias
                return (self.place_read(pl), off, pl)
        if k in ("id", "mem"):
            p = self.place(e)
            if p is not None and isinstance(p[2], tuple) and p[2][0] == "bytes":
                return (self.place_read(p), None, p)
            raise Broken(f"{show(e)} is not a byte buffer")
        if k == "un" and e[1] == "&" and e[2][0] == "idx":
            base = self.ref(e[2][1], out, pad)
            return self.ref_add(base, e[2][2], out, pad)
        if k == "bin" and e[1] == "+":
            base = self.ref(e[2], out, pad)
            return self.ref_add(base, e[3], out, pad)
        raise Broken(f"cannot resolve the pointer expression {show(e)}")

    def ref_add(self, base, e, out, pad):
        lst, off, pl = base
        t, vt = self.ex(e, out, pad)
        n = self.to_index(t, vt, out, pad)
        if off is not None:
            n = f"(Arith.w64add {atom(off)} {atom(n)})"
        return (lst, n, pl)

    def to_index(self, t, vt, out, pad):
        if isinstance(vt, tuple) and vt[0] == "lit":
            if vt[1] < 0:
                raise Broken("negative constant offset")
            return str(vt[1])
        if vt == "u64":
            return t
        if vt == "u8":
            return f"{atom(t)}.toNat"
        if isinstance(vt, tuple) and vt[0] == "int":
            v = self.fresh()
            out.append(f"{pad}let {v} ← CMem.idx {atom(t)}")
            return v
        raise Broken(f"offset of type {vt}")

    # ---- conversions
    def conv(self, t, vt, to):
        if vt == to:
            return t
        if isinstance(vt, tuple) and vt[0] == "lit":
            v = vt[1]
            if to == "u64":
                return str(v % W64)
            if to == "u8":
                if not 0 <= v <= 255:
                    raise Broken(f"constant {v} does not fit uint8_t")
                return str(v)
            if to == "int":
                return f"({v} : Int)"
            if to == "bool":
                return "true" if v else "false"
        if isinstance(vt, tuple) and vt[0] == "int":
            if to == "int":
                return t
            if to == "u64":
                return f"(CMem.sizeOfInt {atom(t)})"
        if vt == "u8" and to == "u64":
            return f"{atom(t)}.toNat"
        if vt == "u8" and to == "int":
            return f"({atom(t)}.toNat : Int)"
        if vt == "u64" and to == "u8":
            return f"(UInt8.ofNat {atom(t)})"
        if isinstance(vt, tuple) and isinstance(to, tuple) and vt[0] == "bytes" and to[0] == "bytes":
            return t
        raise Broken(f"conversion from {vt} to {to}")

    # ---- expressions: returns (term, vtype); may emit bindings
    def ex(self, e, out, pad):
        k = e[0]
        if k == "num":
            return str(e[1]), ("lit", e[1])
        if k == "id":
            n = e[1]
            if n in self.w.consts and self.lookup(n) is None:
                return str(self.w.consts[n]), ("lit", self.w.consts[n])
            if n in ("true", "false") and self.lookup(n) is None:
                return n, "bool"
            if n == "IV" and self.lookup(n) is None:
                return "Gen.C.IV", "words"
            v = self.lookup(n)
            if v is None:
                raise Broken(f"unknown identifier {n}")
            if v.alias is not None:
                raise Broken(f"pointer {n} used as a value")
            self.use(n)
            return n, v.vt
        if k == "mem":
            p = self.place(e)
            if p is None:
                raise Broken(f"cannot resolve {show(e)}")
            return self.place_read(p), p[2]
        if k == "call":
            r = self.call(e, out, pad, want_value=True)
            return r
        if k == "cast":
            ty = e[1]
            t, vt = self.ex(e[2], out, pad)
            if ty.ptr:
                return t, vt
            if ty.base == "u64":
                return self.conv(t, vt, "u64"), "u64"
            if ty.base == "u8":
                return self.conv(t, vt, "u8"), "u8"
            raise Broken(f"cast to {ty}")
        if k == "un":
            if e[1] == "-":
                t, vt = self.ex(e[2], out, pad)
                if isinstance(vt, tuple) and vt[0] == "lit":
                    return str(-vt[1]), ("lit", -vt[1])
            if e[1] in ("&", "*"):
                p = self.place(e)
                if p is not None:
                    return self.place_read(p), p[2]
            raise Broken(f"unary {e[1]} in {show(e)}")
        if k == "bin":
            return self.binop(e, out, pad)
        raise Broken(f"cannot translate {show(e)}")

    def binop(self, e, out, pad):
        op = e[1]
        if op in ("==", "!=", "<", ">", "<=", ">=", "&&", "||"):
            raise Broken(f"comparison {show(e)} used as a value")
        (a, ta), (b, tb) = self.ex(e[2], out, pad), self.ex(e[3], out, pad)
        la, lb = isinstance(ta, tuple) and ta[0] == "lit", isinstance(tb, tuple) and tb[0] == "lit"
        if la and lb:
            v = const_fold(("bin", op, ("num", ta[1]), ("num", tb[1])), {})
            if v is None:
                raise Broken(f"cannot fold {show(e)}")
            return str(v), ("lit", v)
        if ta == "u64" or tb == "u64":
            a, b = atom(self.conv(a, ta, "u64")), atom(self.conv(b, tb, "u64"))
            if op == "+":
                return f"(Arith.w64add {a} {b})", "u64"
            if op == "-":
                return f"(Arith.w64sub {a} {b})", "u64"
            if op == "*":
                return f"(Arith.w64mul {a} {b})", "u64"
            if op in ("/", "%"):
                if not lb or tb[1] == 0:
                    raise Broken(f"division by a non-constant in {show(e)}")
                return f"({a} {op} {b})", "u64"
            if op == "&":
                return f"({a} &&& {b})", "u64"
            if op == "|":
                return f"({a} ||| {b})", "u64"
            raise Broken(f"operator {op} on 64-bit operands")
        small = lambda t, lit: t == "u8" or (lit and 0 <= t[1] <= 255)
        if op in ("|", "&") and small(ta, la) and small(tb, lb):
            # C computes in int; for operands below 256 the result is below 256, so uint8_t arithmetic is exact
            a, b = atom(self.conv(a, ta, "u8")), atom(self.conv(b, tb, "u8"))
            return f"({a} {'|||' if op == '|' else '&&&'} {b})", "u8"
        # integer promotion: exact Int arithmetic with interval check
        def rng(t, lit):
            if lit:
                return t[1], t[1]
            if t == "u8":
                return 0, 255
            if isinstance(t, tuple) and t[0] == "int":
                return t[1], t[2]
            raise Broken(f"operand of type {t} in {show(e)}")
        (al, ah), (bl, bh) = rng(ta, la), rng(tb, lb)
        a, b = atom(self.conv(a, ta, "int")), atom(self.conv(b, tb, "int"))
        if op == "+":
            lo, hi, s = al + bl, ah + bh, "+"
        elif op == "-":
            lo, hi, s = al - bh, ah - bl, "-"
        elif op == "*":
            c = [al * bl, al * bh, ah * bl, ah * bh]
            lo, hi, s = min(c), max(c), "*"
        else:
            raise Broken(f"operator {op} on int operands")
        if lo < -(1 << 31) or hi >= (1 << 31):
            raise Broken(f"{show(e)} may overflow int")
        return f"({a} {s} {b})", ("int", lo, hi)

    def cond(self, e, out, pad):
        if e[0] == "bin" and e[1] in ("&&", "||"):
            return f"({self.cond(e[2], out, pad)} {'∧' if e[1] == '&&' else '∨'} {self.cond(e[3], out, pad)})"
        if e[0] == "un" and e[1] == "!":
            return f"(¬ {self.cond(e[2], out, pad)})"
        if e[0] == "bin" and e[1] in ("==", "!=", "<", ">", "<=", ">="):
            (a, ta), (b, tb) = self.ex(e[2], out, pad), self.ex(e[3], out, pad)
            la, lb = isinstance(ta, tuple) and ta[0] == "lit", isinstance(tb, tuple) and tb[0] == "lit"
            if ta == "u64" or tb == "u64":
                common = "u64"
            elif (ta == "u8" or la) and (tb == "u8" or lb) and not (la and lb) and all(
                    0 <= t[1] <= 255 for t, l in ((ta, la), (tb, lb)) if l):
                common = "u8"      # both below 256: comparing as uint8_t is the same as comparing as int
            else:
                common = "int"
            a, b = self.conv(a, ta, common), self.conv(b, tb, common)
            sym = {"==": "=", "!=": "≠", "<": "<", ">": ">", "<=": "≤", ">=": "≥"}[e[1]]
            return f"{a} {sym} {b}"
        t, vt = self.ex(e, out, pad)
        if vt == "bool":
            return f"{t} = true"
        if vt in ("u8", "u64"):
            return f"{t} ≠ 0"
        raise Broken(f"condition {show(e)}")

    # ---- calls
    def call(self, e, out, pad, want_value):
        name, args = e[1], e[2]
        # primitives
        if name == "popcnt":
            t, vt = self.ex(args[0], out, pad)
            return f"(Arith.popcnt {atom(self.conv(t, vt, 'u64'))})", "u64"
        if name == "round_down_to_power_of_2":
            t, vt = self.ex(args[0], out, pad)
            v = self.fresh()
            out.append(f"{pad}let {v} ← Gen.C.round_down_to_power_of_2 {atom(self.conv(t, vt, 'u64'))}")
            return v, "u64"
        if name == "strlen":
            lst, off, _ = self.ref(args[0], out, pad)
            if off is not None:
                raise Broken("strlen of an offset pointer")
            v = self.fresh()
            out.append(f"{pad}let {v} ← CMem.strlen {atom(lst)}")
            return v, "u64"
        if name == "memcpy":
            self.memcpy(args, out, pad)
            return None
        if name == "memset":
            lst, off, pl = self.ref(args[0], out, pad)
            if pl is None:
                raise Broken("memset through a read-only pointer")
            v, vt = self.ex(args[1], out, pad)
            n, nt = self.ex(args[2], out, pad)
            t = self.fresh()
            out.append(f"{pad}let {t} ← CMem.memset {atom(lst)} {atom(off or '0')} {atom(self.conv(v, vt, 'u8'))} {atom(self.conv(n, nt, 'u64'))}")
            self.place_write(pl, t, out, pad)
            return None
        if name == "load_key_words":
            lst, off, _ = self.ref(args[0], out, pad)
            pl = self.place(args[1])
            if pl is None or pl[2] != "words":
                raise Broken("load_key_words: second argument is not a uint32_t[8]")
            t = self.fresh()
            out.append(f"{pad}let {t} ← CMem.load_key_words {atom(lst)} {atom(off or '0')}")
            self.place_write(pl, t, out, pad)
            return None
        if name == "store_cv_words":
            lst, off, pl = self.ref(args[0], out, pad)
            if pl is None:
                raise Broken("store_cv_words through a read-only pointer")
            w, wt = self.ex(args[1], out, pad)
            if wt != "words":
                raise Broken("store_cv_words: second argument is not a uint32_t[8]")
            t = self.fresh()
            out.append(f"{pad}let {t} ← CMem.store_cv_words {atom(lst)} {atom(off or '0')} {atom(w)}")
            self.place_write(pl, t, out, pad)
            return None
        sig = self.w.sigs.get(name)
        if sig is None:
            raise Broken(f"call to {name}, which is not translated")
        if len(args) != len(sig.params):
            raise Broken(f"{name} called with {len(args)} arguments")
        terms, backs = [], []
        for (pn, pty, mode), a in zip(sig.params, args):
            pvt = vtype_of_ctype(pty, self.w.structs)
            if mode == "val":
                t, vt = self.ex(a, out, pad)
                terms.append(atom(self.conv(t, vt, pvt)))
                continue
            if isinstance(pvt, tuple) and pvt[0] == "struct" or pvt == "words":
                if pvt == "words" and mode == "in":
                    t, vt = self.ex(a, out, pad)
                    if vt != "words":
                        raise Broken(f"{name}: argument {pn} is not a uint32_t[8]")
                    terms.append(atom(t))
                    continue
                p = self.place(a)
                if p is None or p[2] != pvt:
                    raise Broken(f"{name}: argument {pn} = {show(a)} is not a {pvt}")
                terms.append(atom(self.place_read(p)))
                if mode == "inout":
                    backs.append(("place", p))
                continue
            # byte buffers
            lst, off, pl = self.ref(a, out, pad)
            n = pvt[1]
            if mode == "inout" and pl is None:
                raise Broken(f"{name}: argument {pn} must be writable")
            if n is None:
                if off is None:
                    terms.append(atom(lst))
                    if mode == "inout":
                        backs.append(("place", pl))
                else:
                    if mode == "inout":
                        raise Broken(f"{name}: writable unbounded buffer at an offset")
                    t = self.fresh()
                    out.append(f"{pad}let {t} ← CMem.ptr {atom(lst)} {atom(off)}")
                    terms.append(t)
            else:
                t = self.fresh()
                out.append(f"{pad}let {t} ← CMem.rd {atom(lst)} {atom(off or '0')} {n}")
                terms.append(t)
                if mode == "inout":
                    backs.append(("bytes", pl, off or "0"))
        res = []
        for b in backs:
            res.append(self.fresh())
        rv = None
        if sig.ret is not None:
            rv = self.fresh() if want_value else "_"
            res.append(rv)
        pat = res[0] if len(res) == 1 else "(" + ", ".join(res) + ")"
        if sig.kind == "env":
            if res:
                out.append(f"{pad}let {pat} := E.{name} " + " ".join(terms))
        else:
            if res:
                out.append(f"{pad}let {pat} ← {name} E " + " ".join(terms))
            else:
                out.append(f"{pad}let _ ← {name} E " + " ".join(terms))
        for b, r in zip(backs, res):
            if b[0] == "place":
                self.place_write(b[1], r, out, pad)
            else:
                _, pl, off = b
                t = self.fresh()
                out.append(f"{pad}let {t} ← CMem.wr {atom(self.place_read(pl))} {atom(off)} {r}")
                self.place_write(pl, t, out, pad)
        if want_value:
            if sig.ret is None:
                raise Broken(f"{name} returns no value")
            return rv, sig.ret
        return None

    def memcpy(self, args, out, pad):
        if len(args) != 3:
            raise Broken("memcpy with other than 3 arguments")
        n, nt = self.ex(args[2], out, pad)
        n = atom(self.conv(n, nt, "u64"))
        dp = self.place(args[0])
        if dp is not None and dp[2] == "words":
            s, st = self.ex(args[1], out, pad)
            if st != "words":
                raise Broken("memcpy from bytes into a uint32_t[8]")
            t = self.fresh()
            out.append(f"{pad}let {t} ← CMem.memcpyW {atom(self.place_read(dp))} {atom(s)} {n}")
            self.place_write(dp, t, out, pad)
            return
        lst, off, pl = self.ref(args[0], out, pad)
        if pl is None:
            raise Broken("memcpy through a read-only pointer")
        sl, so, _ = self.ref(args[1], out, pad)
        t = self.fresh()
        out.append(f"{pad}let {t} ← CMem.memcpy {atom(lst)} {atom(off or '0')} {atom(sl)} {atom(so or '0')} {n}")
        self.place_write(pl, t, out, pad)

    # ---- statements
    def result_tuple(self, value=None):
        parts = [p[0] for p in self.sig_params if p[2] == "inout"]
        for p in parts:
            self.use(p)
        if value is not None:
            parts.append(value)
        if not parts:
            return "()"
        return parts[0] if len(parts) == 1 else "(" + ", ".join(parts) + ")"

    def finish(self, k, out, pad):
        if k is None:
            return
        if k[0] == "fn":
            if self.ret is not None:
                raise Broken("control reaches the end of a non-void function")
            out.append(f"{pad}pure {self.result_tuple()}")
        elif k[0] == "vars":
            out.append(f"{pad}pure {k[1]}")
        elif k[0] == "call":
            out.append(f"{pad}{k[1]}")
            for v in k[2]:
                self.use(v)

    def declare(self, name, vt, **kw):
        v = Var(name, vt, **kw)
        self.scope.append(v)
        return v

    def uninit(self, vt, out, pad):
        s = self.site()
        if vt == "u8":
            return f"CMem.uninit8 {s} 0"
        if vt == "u64":
            return f"CMem.uninit64 {s} 0"
        if vt == "bool":
            return f"CMem.uninitBool {s} 0"
        if vt == "words":
            return f"CMem.uninitWords {s} 0"
        if isinstance(vt, tuple) and vt[0] == "bytes" and vt[1] is not None:
            return f"CMem.uninitBytes {s} 0 {vt[1]}"
        if isinstance(vt, tuple) and vt[0] == "struct":
            return f"{vt[1]}.uninit {s}"
        raise Broken(f"uninitialised local of type {vt}")

    def stmt(self, st, out, pad):
        k = st[0]
        if k == "decl":
            _, ty, name, init = st
            if ty.ptr and ty.dim is None and ty.base in ("u8", "void", "char"):
                # pointer variable: const -> a value (rest of the buffer); non-const -> alias of (array, offset)
                if init is None:
                    raise Broken(f"pointer {name} declared without initialiser")
                lst, off, pl = self.ref(init, out, pad)
                if ty.const:
                    if off is None:
                        out.append(f"{pad}let {name} := {lst}")
                    else:
                        out.append(f"{pad}let {name} ← CMem.ptr {atom(lst)} {atom(off)}")
                    self.declare(name, ("bytes", None), writable=False)
                else:
                    if pl is None:
                        raise Broken(f"non-const pointer {name} into a read-only buffer")
                    offv = None
                    if off is not None:
                        offv = f"{name}_off"
                        out.append(f"{pad}let {offv} := {off}")
                    self.declare(name, ("bytes", None), alias=(pl, offv))
                return
            vt = vtype_of_ctype(ty, self.w.structs)
            if init is None:
                out.append(f"{pad}let {name} : {lean_type_of_vtype(vt)} := {self.uninit(vt, out, pad)}")
                self.declare(name, vt)
                return
            if isinstance(vt, tuple) and vt[0] == "bytes" or vt == "words":
                raise Broken(f"array {name} declared with an initialiser")
            t, tt = self.ex(init, out, pad)
            out.append(f"{pad}let {name} : {lean_type_of_vtype(vt)} := {self.conv(t, tt, vt)}")
            self.declare(name, vt)
            return
        if k == "callstmt":
            self.call(st[1], out, pad, want_value=False)
            return
        if k == "assign":
            _, lhs, op, rhs = st
            # pointer variable arithmetic
            if lhs[0] == "id":
                v = self.lookup(lhs[1])
                if v is not None and isinstance(v.vt, tuple) and v.vt[0] == "bytes" and v.vt[1] is None and v.alias is None \
                        and v.kind != "buffer":
                    if op != "+=":
                        raise Broken(f"pointer assignment {show(lhs)} {op}")
                    t, tt = self.ex(rhs, out, pad)
                    n = self.to_index(t, tt, out, pad)
                    self.use(v.name)
                    self.written.add(v.name)
                    out.append(f"{pad}let {v.name} ← CMem.ptr {v.name} {atom(n)}")
                    return
            p = self.place(lhs)
            if p is None:
                raise Broken(f"cannot assign to {show(lhs)}")
            vt = p[2]
            if op == "=":
                t, tt = self.ex(rhs, out, pad)
                if isinstance(vt, tuple) and vt[0] == "struct":
                    if tt != vt:
                        raise Broken(f"assignment of {tt} to {vt}")
                    self.place_write(p, t, out, pad)
                    return
                if vt not in ("u8", "u64", "bool"):
                    raise Broken(f"assignment to {show(lhs)} of type {vt}")
                self.place_write(p, self.conv(t, tt, vt), out, pad)
                return
            cur = self.place_read(p)
            t, tt = self.ex(rhs, out, pad)
            if vt == "u8" and op in ("+=", "-="):
                # uint8_t compound assignment: computed in int, converted back = arithmetic mod 256
                r = self.conv(t, tt, "u8")
                self.place_write(p, f"{cur} {op[0]} {atom(r)}", out, pad)
                return
            if vt == "u64" and op in ("+=", "-=", "*="):
                f = {"+=": "Arith.w64add", "-=": "Arith.w64sub", "*=": "Arith.w64mul"}[op]
                self.place_write(p, f"{f} {cur} {atom(self.conv(t, tt, 'u64'))}", out, pad)
                return
            if vt == "u64" and op == "/=" and isinstance(tt, tuple) and tt[0] == "lit" and tt[1] > 0:
                self.place_write(p, f"{cur} / {tt[1]}", out, pad)
                return
            raise Broken(f"assignment {show(lhs)} {op} ...")
        raise Broken(f"statement {k}")

    def scoped(self, stmts, k, out, pad):
        """translate a nested block; returns the outer variables it wrote"""
        depth = len(self.scope)
        outer = [v.name for v in self.scope]
        saved_w = self.written
        self.written = set()
        self.block(stmts, k, out, pad)
        wr = [n for n in outer if n in self.written]
        del self.scope[depth:]
        self.written = saved_w | set(wr)
        return wr

    def block(self, stmts, k, out, pad):
        i = 0
        while i < len(stmts):
            st = stmts[i]
            rest = stmts[i + 1:]
            if st[0] == "return":
                if rest:
                    raise Broken("statements after return")
                if st[1] is None:
                    if self.ret is not None:
                        raise Broken("return without a value")
                    out.append(f"{pad}pure {self.result_tuple()}")
                else:
                    if self.ret is None:
                        raise Broken("return with a value in a void function")
                    t, tt = self.ex(st[1], out, pad)
                    out.append(f"{pad}pure {self.result_tuple(self.conv(t, tt, self.ret))}")
                self.returned = True
                return
            if st[0] == "if" and contains_return([st]):
                self.tail_if(st, rest, k, out, pad)
                return
            if st[0] == "if":
                self.plain_if(st, out, pad)
            elif st[0] == "while":
                self.loop(st, out, pad)
            else:
                self.stmt(st, out, pad)
            i += 1
        self.finish(k, out, pad)

    def plain_if(self, st, out, pad):
        _, c, th, el = st
        cs = self.cond(c, out, pad)
        tl, elz = [], []
        w1 = self.scoped(th, None, tl, pad + "    ")
        w2 = self.scoped(el or [], None, elz, pad + "    ")
        outer = [v.name for v in self.scope]
        ws = [n for n in outer if n in set(w1) | set(w2)]
        if not ws:
            raise Broken("`if` without effect")
        tup = ws[0] if len(ws) == 1 else "(" + ", ".join(ws) + ")"
        out.append(f"{pad}let {tup} ← (if {cs} then do")
        out += tl + [f"{pad}    pure {tup}", f"{pad}  else do"] + elz + [f"{pad}    pure {tup}", f"{pad}  )"]
        for n in ws:
            self.use(n)

    def tail_if(self, st, rest, k, out, pad):
        _, c, th, el = st
        el = el or []
        if k is None or k[0] == "vars":
            raise Broken("`return` inside a nested block whose continuation is not the end of the function")
        cs = self.cond(c, out, pad)
        depth = len(self.scope)
        if not rest:
            k1 = k2 = k
            a, b = th, el
        elif always_returns(th):
            k1, k2, a, b = None, k, th, el + rest
        elif always_returns(el):
            k1, k2, a, b = k, None, th + rest, el
        else:
            kk = self.join(rest, k)
            k1 = k2 = kk
            a, b = th, el
        out.append(f"{pad}if {cs} then do")
        self.block(a, k1, out, pad + "  ")
        del self.scope[depth:]
        out.append(f"{pad}else do")
        self.block(b, k2, out, pad + "  ")
        del self.scope[depth:]

    def var_lean_type(self, v):
        return lean_type_of_vtype(v.vt)

    def join(self, rest, k):
        if k[0] != "fn":
            raise Broken("join point whose continuation is not the end of the function")
        for v in self.scope:
            if v.alias is not None:
                raise Broken("a pointer alias is live across a join point")
        self.njoins += 1
        name = f"{self.name}_k{self.njoins}"
        depth = len(self.scope)
        saved_used, saved_written = self.used, self.written
        self.used, self.written = set(), set()
        lines = []
        self.block(rest, k, lines, "  ")
        del self.scope[depth:]
        params = [v for v in self.scope if v.name in self.used]
        self.used, self.written = saved_used | self.used, saved_written
        sig = " ".join(f"({v.name} : {self.var_lean_type(v)})" for v in params)
        self.defs.append("\n".join([f"def {name} (E : Env) {sig} : R {self.ret_lean} := do"] + lines) + "\n")
        return ("call", f"{name} E " + " ".join(v.name for v in params), [v.name for v in params])

    def loop(self, st, out, pad):
        _, c, body = st
        self.nloops += 1
        n = self.nloops
        if n > len(self.fuels):
            raise Broken(f"loop {n} has no fuel expression configured")
        name = f"{self.name}_loop" + (str(n) if n > 1 else "")
        saved_used = self.used
        self.used = set()
        cl, bl = [], []
        cs = self.cond(c, cl, "      ")
        ws = self.scoped(body, None, bl, "        ")
        outer = [v for v in self.scope]
        state = [v for v in outer if v.name in ws]
        if not state:
            raise Broken("loop without effect")
        for v in state:
            if v.alias is not None:
                raise Broken("pointer alias modified in a loop")
        ro = [v for v in outer if v.name in self.used and v.name not in ws]
        for v in ro:
            if v.alias is not None:
                raise Broken("pointer alias used in a loop")
        self.used = saved_used | self.used
        args = state + ro
        tup = state[0].name if len(state) == 1 else "(" + ", ".join(v.name for v in state) + ")"
        tty = " × ".join(self.var_lean_type(v) for v in state)
        d = [f"def {name} (E : Env) : Nat → " + " → ".join(self.var_lean_type(v) for v in args) + f" → R ({tty})",
             "  | 0, " + ", ".join("_" for _ in args) + " => .panic   -- out of fuel",
             "  | fuel + 1, " + ", ".join(v.name for v in args) + " => do"]
        d += cl + [f"      if {cs} then do"] + bl
        d += [f"        {name} E fuel " + " ".join(v.name for v in args), f"      else pure {tup}", ""]
        self.defs.append("\n".join(d))
        # fuel is evaluated in the caller's scope
        fuel = self.fuels[n - 1]
        for v in args:
            self.use(v.name)
        for v in state:
            self.written.add(v.name)
        out.append(f"{pad}let {tup} ← {name} E ({fuel}) " + " ".join(v.name for v in args))

    # ---- the function
    def translate(self):
        # pass 1 discovers which array parameters are written; pass 2 uses the final conventions
        modes = {}
        for name, ty in self.cparams:
            vt = vtype_of_ctype(ty, self.w.structs)
            if vt in ("u8", "u64", "bool"):
                modes[name] = "val"
            elif ty.const:
                modes[name] = "in"
            elif isinstance(vt, tuple) and vt[0] == "struct":
                modes[name] = "inout"
            else:
                modes[name] = "inout" if name in self.force_inout else "in?"
        for attempt in range(3):
            self.reset_state()
            self.sig_params = [(n, ty, "inout" if modes[n] == "inout" else ("val" if modes[n] == "val" else "in")) for n, ty in self.cparams]
            rets = [lean_type_of_ctype(ty, self.w.structs) for n, ty, m in self.sig_params if m == "inout"]
            if self.ret is not None:
                rets.append(lean_type_of_vtype(self.ret))
            self.ret_lean = "Unit" if not rets else (atom(rets[0]) if len(rets) == 1 else "(" + " × ".join(rets) + ")")
            for n, ty in self.cparams:
                vt = vtype_of_ctype(ty, self.w.structs)
                kind = "buffer" if (modes[n] in ("inout", "in?") and isinstance(vt, tuple) and vt[0] == "bytes") else "param"
                self.declare(n, vt, kind=kind, writable=(modes[n] != "in"))
            lines = []
            self.block(self.body, ("fn",), lines, "  ")
            changed = False
            for n, ty in self.cparams:
                if modes[n] == "in?":
                    v = next(x for x in self.scope if x.name == n)
                    if v.dirty:
                        modes[n] = "inout"
                        changed = True
            if not changed:
                break
        for n in modes:
            if modes[n] == "in?":
                modes[n] = "in"
        self.sig_params = [(n, ty, modes[n]) for n, ty in self.cparams]
        sig = " ".join(f"({n} : {lean_type_of_ctype(ty, self.w.structs)})" for n, ty in self.cparams)
        aux = "".join(d + "\n" for d in self.defs)
        text = f"def {self.name} (E : Env) {sig} : R {self.ret_lean} := do\n" + "\n".join(lines) + "\n"
        return aux, text, FnSig(self.name, self.sig_params, self.ret, "gen")


def show(e):
    k = e[0]
    if k == "num":
        return str(e[1])
    if k == "id":
        return e[1]
    if k == "mem":
        return f"{show(e[1])}.{e[2]}"
    if k == "idx":
        return f"{show(e[1])}[{show(e[2])}]"
    if k == "call":
        return f"{e[1]}(" + ", ".join(show(a) for a in e[2]) + ")"
    if k == "cast":
        return f"({e[1]}){show(e[2])}"
    if k == "un":
        return f"{e[1]}{show(e[2])}"
    if k == "bin":
        return f"({show(e[2])} {e[1]} {show(e[3])})"
    return str(e)


# ------------------------------------------------------------------------------------------------
# the world: constants, structs, signatures


class World:
    def __init__(self):
        self.consts = {}
        self.structs = {}
        self.sigs = {}
        self._sites = {}

    def site_base(self, fn):
        if fn not in self._sites:
            self._sites[fn] = 100 * (len(self._sites) + 1)
        return self._sites[fn]


def parse_struct(world, rel, name, text=None):
    text = X.strip_comments(X.src(rel))
    m = None
    for mm in re.finditer(r"typedef\s+struct\s*\{", text):
        b0 = mm.end() - 1
        b1 = X.match_brace(text, b0)
        m2 = re.match(r"\s*(\w+)\s*;", text[b1:])
        if m2 and m2.group(1) == name:
            m = (mm.start(), b0, b1, b1 + m2.end())
            break
    if not m:
        raise X.TranslationBroken(A, f"struct {name} not found in {rel}")
    X.record_span(A, rel, m[0], m[3])
    body = text[m[1] + 1:m[2] - 1]
    fields = []
    for decl in body.split(";"):
        decl = decl.strip()
        if not decl:
            continue
        try:
            p = Parser(tokenize(decl), world.consts)
            ty = p.type_prefix()
            k, fname = p.next()
            if k != "id":
                raise Broken("field name expected")
            if p.at("["):
                p.next()
                ty.dim = p.const_int(p.expr())
                p.expect("]")
            if p.peek()[0] != "eof":
                raise Broken("unexpected tokens after the field")
            lean_type_of_ctype(ty, world.structs)
        except Broken as ex:
            raise X.TranslationBroken(A, f"struct {name}: field {decl!r}: {ex}")
        fields.append((fname, ty))
    world.structs[name] = fields


def emit_struct(world, name):
    o = [f"/-- `{name}` -/", f"structure {name} where"]
    for f, ty in world.structs[name]:
        cdecl = f"{ty.base}{' [%d]' % ty.dim if ty.dim is not None else ''}"
        o.append(f"  {f} : {lean_type_of_ctype(ty, world.structs)}   -- {cdecl}")
    o.append("deriving DecidableEq")
    o.append("")
    # uninitialised value: the fields decoded from arbitrary bytes at their offsets (padding ignored)
    o.append(f"def {name}.uninit (junk : Nat → UInt8) : {name} where")
    off = 0
    for f, ty in world.structs[name]:
        vt = vtype_of_ctype(ty, world.structs)
        if vt == "u8":
            o.append(f"  {f} := CMem.uninit8 junk {off}")
            off += 1
        elif vt == "u64":
            o.append(f"  {f} := CMem.uninit64 junk {off}")
            off += 8
        elif vt == "words":
            o.append(f"  {f} := CMem.uninitWords junk {off}")
            off += 32
        elif isinstance(vt, tuple) and vt[0] == "bytes":
            o.append(f"  {f} := CMem.uninitBytes junk {off} {vt[1]}")
            off += vt[1]
        elif isinstance(vt, tuple) and vt[0] == "struct":
            o.append(f"  {f} := {vt[1]}.uninit (fun i => junk ({off} + i))")
            off += world.sizes[vt[1]]
        else:
            raise X.TranslationBroken(A, f"struct {name}: field {f} of type {ty}")
    world.sizes[name] = off
    o.append("")
    # the declared array sizes, as a predicate on values of the structure
    conj = []
    for f, ty in world.structs[name]:
        vt = vtype_of_ctype(ty, world.structs)
        if isinstance(vt, tuple) and vt[0] == "bytes":
            conj.append(f"s.{f}.length = {vt[1]}")
        elif isinstance(vt, tuple) and vt[0] == "struct":
            conj.append(f"s.{f}.sized")
    o.append(f"/-- the byte arrays of a `{name}` have their declared sizes -/")
    o.append(f"def {name}.sized (s : {name}) : Prop := " + (" ∧ ".join(conj) if conj else "True"))
    o.append("")
    return "\n".join(o)


HEADER_RE = r"(?m)^(?:INLINE\s+|static\s+)?(?:const\s+)?(?:void|size_t|uint8_t|uint64_t|output_t|bool)\s+{name}\s*\("


def fn_source(name, rel=SRC):
    text = X.src(rel)
    rx = HEADER_RE.replace("{name}", re.escape(name))
    m = re.search(rx, text)
    if not m:
        raise X.TranslationBroken(A, f"definition of {name} not found in {rel}")
    header = text[m.start():m.end() - 1]
    params, body = X.find_fn(A, rel, rx)
    rt = re.sub(r"\b(INLINE|static)\b", "", header)
    rt = rt[:rt.rindex(name)].strip()
    return rt, params, body


def proto_source(name, rel):
    """parameter list of a prototype `... name(...);`"""
    text = X.strip_comments(X.src(rel))
    m = re.search(r"\b(void|size_t|uint8_t)\s+%s\s*\(" % re.escape(name), text)
    if not m:
        raise X.TranslationBroken(A, f"prototype of {name} not found in {rel}")
    p0 = m.end() - 1
    p1 = X.match_brace(text, p0, "(", ")")
    X.record_span(A, rel, m.start(), p1)
    return m.group(1), text[p0 + 1:p1 - 1]


def check_word_loops(world):
    """load_key_words / store_cv_words are primitives of CMem; check that the source still has the shape they model"""
    for name, pat in (("load_key_words", r"key_words\[\s*%d\s*\]\s*=\s*load32\(\s*&key\[\s*%d\s*\*\s*4\s*\]\s*\)"),
                      ("store_cv_words", r"store32\(\s*&bytes_out\[\s*%d\s*\*\s*4\s*\]\s*,\s*cv_words\[\s*%d\s*\]\s*\)")):
        rt, params, body = fn_source(name, "c/blake3_impl.h")
        stmts = [s.strip() for s in body.split(";") if s.strip()]
        if len(stmts) != 8 or any(not re.fullmatch(pat % (i, i), s) for i, s in enumerate(stmts)):
            raise X.TranslationBroken(A, f"{name}: body is not the eight word transfers that CMem.{name} models")


# function name -> fuel expressions of its loops (in order of appearance; Lean terms over the variables in scope)
FUNCTIONS = [
    ("chunk_state_init", []),
    ("chunk_state_reset", []),
    ("chunk_state_len", []),
    ("chunk_state_fill_buf", []),
    ("chunk_state_maybe_start_flag", []),
    ("make_output", []),
    ("output_chaining_value", []),
    ("chunk_state_update", ["input_len + 1"]),
    ("chunk_state_output", []),
    ("parent_output", []),
    ("hasher_init_base", []),
    ("blake3_hasher_init", []),
    ("blake3_hasher_init_keyed", []),
    ("hasher_merge_cv_stack", ["self.cv_stack_len.toNat + 1"]),
    ("hasher_push_cv", []),
    ("blake3_hasher_update_base", ["input_len + 1", "64"]),
    ("blake3_hasher_update", []),
    ("blake3_hasher_finalize_seek", ["cvs_remaining + 1"]),
    ("blake3_hasher_finalize", []),
    ("blake3_hasher_init_derive_key_raw", []),
    ("blake3_hasher_init_derive_key", []),
    ("blake3_hasher_reset", []),
]

ENV_FUNCTIONS = [("blake3_compress_in_place", "c/blake3_impl.h", "proto", ["cv"]),
                 ("compress_subtree_to_parent_node", SRC, "def", ["out"]),
                 ("output_root_bytes", SRC, "def", ["out"])]


def gen_cstate():
    w = World()
    w.sizes = {}
    for n in ["BLAKE3_KEY_LEN", "BLAKE3_OUT_LEN", "BLAKE3_BLOCK_LEN", "BLAKE3_CHUNK_LEN", "BLAKE3_MAX_DEPTH"]:
        w.consts[n] = X.c_define_int(A, "c/blake3.h", n)
    for n in X.FLAG_NAMES:
        w.consts[n] = X.c_enum_int(A, "c/blake3_impl.h", n)
    parse_struct(w, "c/blake3.h", "blake3_chunk_state")
    parse_struct(w, "c/blake3.h", "blake3_hasher")
    parse_struct(w, SRC, "output_t")
    check_word_loops(w)
    o = ["/- GENERATED by gen/ext_cimp.py from /repo/c/blake3.c, c/blake3.h, c/blake3_impl.h -- do not edit",
         "",
         "The chunk-state and hasher layer of c/blake3.c, translated statement by statement with its data: structs from the",
         "struct declarations, byte arrays as lists, pointers as (array, offset), `uint8_t` arithmetic modulo 256, `size_t` /",
         "`uint64_t` arithmetic modulo 2^64 (Arith.w64add ...), every out-of-bounds access a panic (B3/CMem.lean).",
         "`blake3_compress_in_place`, `compress_subtree_to_parent_node` and `output_root_bytes` are fields of `Env`;",
         "`E.junk` supplies the contents of uninitialised locals.  No assertions were dropped: the translated functions",
         "contain none (the `assert`s of blake3.c are in functions that are parameters here). -/",
         "import B3.Prim", "import B3.Arith", "import B3.CMem", "import B3.Gen.Consts", "import B3.Gen.Arith",
         "set_option linter.unusedVariables false", "namespace B3.Gen.CState", "open B3", ""]
    for s in ["blake3_chunk_state", "blake3_hasher", "output_t"]:
        o.append(emit_struct(w, s))
    # Env
    env_fields = ["  junk : Nat → Nat → UInt8"]
    for name, rel, how, inouts in ENV_FUNCTIONS:
        try:
            if how == "proto":
                rt, ptxt = proto_source(name, rel)
            else:
                rt, ptxt, _ = fn_source(name, rel)
            params = Parser(tokenize(ptxt), w.consts).params()
            sp = []
            for pn, ty in params:
                vt = vtype_of_ctype(ty, w.structs)
                if vt in ("u8", "u64", "bool"):
                    mode = "val"
                elif pn in inouts:
                    if ty.const:
                        raise Broken(f"parameter {pn} is const but is an output")
                    mode = "inout"
                else:
                    mode = "in"
                sp.append((pn, ty, mode))
            if [p for p in inouts if p not in [x[0] for x in sp]]:
                raise Broken(f"expected output parameter(s) {inouts}")
            rett = Parser(tokenize(rt), w.consts).type_prefix()
            ret = None if rett.base == "void" and not rett.ptr else vtype_of_ctype(rett, w.structs)
            w.sigs[name] = FnSig(name, sp, ret, "env")
            rets = [lean_type_of_ctype(ty, w.structs) for pn, ty, m in sp if m == "inout"]
            if ret is not None:
                rets.append(lean_type_of_vtype(ret))
            env_fields.append(f"  {name} : " + " → ".join([lean_type_of_ctype(ty, w.structs) for pn, ty, m in sp] + [" × ".join(rets)])
                              + "   -- (" + ", ".join(f"{pn}{'*' if m == 'inout' else ''}" for pn, ty, m in sp) + ")")
        except Broken as ex:
            raise X.TranslationBroken(A, f"{name}: {ex}")
    o += ["/-- what the translated functions are parameterised by: the contents of uninitialised memory and the three functions",
          "that are translated elsewhere (arguments as in C; parameters marked * are written, their new value is the result) -/",
          "structure Env where"] + env_fields + [""]
    for name, fuels in FUNCTIONS:
        try:
            rt, ptxt, body = fn_source(name)
            params = Parser(tokenize(ptxt), w.consts).params()
            rett = Parser(tokenize(rt), w.consts).type_prefix()
            p = Parser(tokenize(body), w.consts)
            stmts = p.block_body()
            if p.peek()[0] != "eof":
                raise Broken("unbalanced braces")
            tr = FnTr(w, name, params, rett, stmts, fuels)
            aux, text, sig = tr.translate()
            if tr.nloops != len(fuels):
                raise Broken(f"{len(fuels)} loops expected, {tr.nloops} found")
        except Broken as ex:
            raise X.TranslationBroken(A, f"{name}: {ex}")
        w.sigs[name] = sig
        conv = ", ".join(f"{n}{'*' if m == 'inout' else ''}" for n, ty, m in sig.params)
        if aux:
            o.append(aux.rstrip("\n") + "\n")
        o.append(f"/-- `{name}({conv})` -/")
        o.append(text)
    o.append("end B3.Gen.CState")
    return "\n".join(o) + "\n"


ARTEFACTS = [("CState.lean", A, gen_cstate)]
