"""G21-c-avx512: c/blake3_avx512.c (C AVX-512 intrinsics kernels) -> lean/B3/Gen/CAvx512.lean

Statement-by-statement translation of every function of the file over the lane model of the intrinsics
(lean/B3/Simd/Prim.lean, lean/B3/Simd/Prim512.lean).  Own C front end (lexer, Pratt parser for the C expression
subset, statement parser, types); anything outside the understood subset raises TranslationBroken.
"""
import re

import extract as X

ART = "G21-c-avx512"
REL = "c/blake3_avx512.c"
IMPL_H = "c/blake3_impl.h"


def broken(fn, what):
    raise X.TranslationBroken(ART, f"{fn}: {what}")


# ------------------------------------------------------------------------------------------------
# lexer

TOK = re.compile(r"""
    (?P<num>0[xX][0-9a-fA-F]+|\d+)(?P<suf>[uUlL]*)
  | (?P<id>[A-Za-z_][A-Za-z0-9_]*)
  | (?P<op>>>=|<<=|\+\+|--|->|\^=|\|=|&=|\+=|-=|\*=|>>|<<|==|!=|<=|>=|&&|\|\||[-+*/%^|&~!<>=(){}\[\],;.:?])
  | (?P<ws>\s+)
""", re.X)


def lex(fn, s):
    out, i = [], 0
    while i < len(s):
        m = TOK.match(s, i)
        if not m:
            broken(fn, f"cannot tokenize {s[i:i+20]!r}")
        i = m.end()
        if m.group("ws"):
            continue
        if m.group("num"):
            out.append(("num", int(m.group("num"), 0)))
        elif m.group("id"):
            out.append(("id", m.group("id")))
        else:
            out.append(("op", m.group("op")))
    return out


# ------------------------------------------------------------------------------------------------
# AST:  expressions are tuples
#   ("num", n) ("id", name) ("call", name, [args]) ("index", e, i) ("un", op, e) ("cast", ctype, e)
#   ("bin", op, a, b) ("tern", c, a, b) ("sizeof", ctype) ("init", [e...])
# ctype (source level) = (base, nptr, const) e.g. ("uint8_t", 1, True)

BASE_TYPES = {"void", "uint8_t", "uint32_t", "uint64_t", "int32_t", "int64_t", "size_t", "bool", "int",
              "__m128i", "__m256i", "__m512i", "__mmask8"}
SIZEOF = {"__m128i": 16, "__m256i": 32, "__m512i": 64, "uint8_t": 1, "uint32_t": 4, "uint64_t": 8}

BINPREC = {"||": 1, "&&": 2, "|": 3, "^": 4, "&": 5, "==": 6, "!=": 6, "<": 7, ">": 7, "<=": 7, ">=": 7,
           "<<": 8, ">>": 8, "+": 9, "-": 9, "*": 10, "/": 10, "%": 10}
ASSIGN_OPS = {"=", "+=", "-=", "|=", "&=", "^=", "*=", "<<=", ">>="}


class Parser:
    def __init__(self, fn, toks, macros):
        self.fn, self.t, self.i, self.macros = fn, toks, 0, macros

    def peek(self, k=0):
        return self.t[self.i + k] if self.i + k < len(self.t) else ("eof", None)

    def next(self):
        tok = self.peek()
        self.i += 1
        return tok

    def at(self, v):
        return self.peek() == ("op", v)

    def at_id(self, v):
        return self.peek() == ("id", v)

    def expect(self, v):
        tok = self.next()
        if tok != ("op", v):
            broken(self.fn, f"expected {v!r}, found {tok[1]!r}")

    def eof(self):
        return self.i >= len(self.t)

    # ---- types
    def at_type(self, k=0):
        tok = self.peek(k)
        return tok[0] == "id" and (tok[1] in BASE_TYPES or tok[1] == "const")

    def parse_type(self):
        """[const] base [const] (* [const])*  -> (base, nptr, const_of_pointee)"""
        const = False
        base = None
        while self.peek()[0] == "id" and (self.peek()[1] in BASE_TYPES or self.peek()[1] == "const"):
            w = self.next()[1]
            if w == "const":
                const = True
            elif base is None:
                base = w
            else:
                broken(self.fn, f"two base types {base} {w}")
        if base is None:
            broken(self.fn, "type expected")
        nptr = 0
        while self.at("*"):
            self.next()
            nptr += 1
            while self.at_id("const"):
                self.next()
        return (base, nptr, const)

    # ---- expressions
    def expr(self, minp=0):
        lhs = self.unary()
        while True:
            tok = self.peek()
            if tok[0] == "op" and tok[1] in BINPREC and BINPREC[tok[1]] >= minp and minp <= 10:
                op = self.next()[1]
                rhs = self.expr(BINPREC[op] + 1)
                lhs = ("bin", op, lhs, rhs)
            elif tok == ("op", "?") and minp == 0:
                self.next()
                a = self.expr(0)
                self.expect(":")
                b = self.expr(0)
                lhs = ("tern", lhs, a, b)
            else:
                return lhs

    def unary(self):
        tok = self.peek()
        if tok[0] == "op" and tok[1] in ("-", "~", "!", "&", "*"):
            self.next()
            return ("un", tok[1], self.unary())
        if tok == ("op", "(") and self.at_type(1):
            self.next()
            ty = self.parse_type()
            self.expect(")")
            return ("cast", ty, self.unary())
        if tok == ("id", "sizeof"):
            self.next()
            self.expect("(")
            ty = self.parse_type()
            self.expect(")")
            return ("sizeof", ty)
        return self.postfix()

    def postfix(self):
        tok = self.next()
        if tok[0] == "num":
            e = ("num", tok[1])
        elif tok[0] == "id":
            if self.at("("):
                self.next()
                args = []
                if not self.at(")"):
                    while True:
                        args.append(self.expr(0))
                        if self.at(","):
                            self.next()
                            continue
                        break
                self.expect(")")
                e = self.call(tok[1], args)
            elif tok[1] in self.macros and self.macros[tok[1]][0] is None:
                e = self.macros[tok[1]][1]
            else:
                e = ("id", tok[1])
        elif tok == ("op", "("):
            e = self.expr(0)
            self.expect(")")
        else:
            broken(self.fn, f"unexpected token {tok[1]!r} in expression")
        while self.at("["):
            self.next()
            i = self.expr(0)
            self.expect("]")
            e = ("index", e, i)
        return e

    def call(self, name, args):
        if name in self.macros and self.macros[name][0] is not None:
            params, body = self.macros[name]
            if len(params) != len(args):
                broken(self.fn, f"macro {name}: {len(args)} arguments for {len(params)} parameters")
            return subst(body, dict(zip(params, args)))
        return ("call", name, args)

    # ---- statements
    #   ("decl", ctype, name, arrlen|None, init|None) ("assign", op, lhs, rhs) ("call", name, args)
    #   ("for", var, lo, hi, body) ("while", cond, body) ("if", cond, then, else) ("return", e)
    def block(self):
        self.expect("{")
        out = []
        while not self.at("}"):
            out += self.statement()
        self.expect("}")
        return out

    def statement(self):
        tok = self.peek()
        if tok == ("id", "for"):
            self.next()
            self.expect("(")
            ty = self.parse_type()
            if ty != ("size_t", 0, False):
                broken(self.fn, "for: the loop variable must be a size_t")
            var = self.next()
            self.expect("=")
            lo = self.expr(0)
            self.expect(";")
            v2 = self.next()
            self.expect("<")
            hi = self.expr(0)
            self.expect(";")
            toks = [self.next(), self.next()]
            if sorted(toks) != sorted([var, ("op", "++")]) or v2 != var or var[0] != "id":
                broken(self.fn, "for: not of the form for (size_t i = a; i < b; i++)")
            self.expect(")")
            return [("for", var[1], lo, hi, self.block())]
        if tok == ("id", "while"):
            self.next()
            self.expect("(")
            c = self.expr(0)
            self.expect(")")
            return [("while", c, self.block())]
        if tok == ("id", "if"):
            self.next()
            self.expect("(")
            c = self.expr(0)
            self.expect(")")
            th = self.block()
            el = []
            if self.at_id("else"):
                self.next()
                el = self.block()
            return [("if", c, th, el)]
        if tok == ("id", "return"):
            self.next()
            e = self.expr(0)
            self.expect(";")
            return [("return", e)]
        if self.at_type():
            ty = self.parse_type()
            out = []
            while True:
                name = self.next()
                if name[0] != "id":
                    broken(self.fn, "declarator expected")
                arr = None
                if self.at("["):
                    self.next()
                    arr = self.expr(0)
                    self.expect("]")
                init = None
                if self.at("="):
                    self.next()
                    if self.at("{"):
                        self.next()
                        items = []
                        while not self.at("}"):
                            items.append(self.expr(0))
                            if self.at(","):
                                self.next()
                        self.expect("}")
                        init = ("init", items)
                    else:
                        init = self.expr(0)
                out.append(("decl", ty, name[1], arr, init))
                if self.at(","):
                    self.next()
                    continue
                break
            self.expect(";")
            return out
        lhs = self.expr(0)
        tok = self.peek()
        if tok[0] == "op" and tok[1] in ASSIGN_OPS:
            self.next()
            rhs = self.expr(0)
            self.expect(";")
            return [("assign", tok[1], lhs, rhs)]
        self.expect(";")
        if lhs[0] == "call":
            return [("call", lhs[1], lhs[2])]
        broken(self.fn, f"expression statement without effect: {lhs[0]}")


def subst(e, env):
    """substitute identifiers in an expression / statement tree"""
    if isinstance(e, tuple):
        if len(e) == 2 and e[0] == "id" and e[1] in env:
            return env[e[1]]
        return tuple(subst(x, env) for x in e)
    if isinstance(e, list):
        return [subst(x, env) for x in e]
    return e


# ------------------------------------------------------------------------------------------------
# model types

VEC = {"__m128i": "v128", "__m256i": "v256", "__m512i": "v512"}
SCALAR = {"uint8_t": "u8", "uint32_t": "u32", "uint64_t": "u64", "size_t": "usize", "bool": "bool",
          "int32_t": "i32", "int64_t": "i64", "int": "i32", "__mmask8": "mask8"}
LEAN_TY = {"u8": "UInt8", "u32": "UInt32", "i32": "UInt32", "u64": "UInt64", "i64": "UInt64", "usize": "Nat",
           "bool": "Bool", "fin7": "Fin 7", "v128": "V4", "v256": "V8", "v512": "V16", "mem": "Mem",
           "memarr": "MemArr", "bptr": "BPtr", "mask8": "Nat"}
BITS = {"u8": 8, "u32": 32, "i32": 32, "u64": 64, "i64": 64, "mask8": 8}
ZERO = {"u8": "0", "u32": "0", "u64": "0", "usize": "0", "v128": "(Vector.replicate 4 0)",
        "v256": "(Vector.replicate 8 0)", "v512": "(Vector.replicate 16 0)"}
LEAN_KEYWORDS = {"from", "at", "end", "in", "open", "do", "then", "else", "fun", "let", "have", "show", "by", "if",
                 "match", "with", "where", "deriving", "instance", "structure", "class", "def", "theorem"}


def lean_ty(mt):
    if isinstance(mt, tuple):
        if mt[0] == "arr":
            if mt[1] == "u32" and mt[2] == 8:
                return "CV"
            if mt[1] == "u32" and mt[2] == 16:
                return "St"
            inner = lean_ty(mt[1])
            return f"Vector {inner} {mt[2]}" if " " not in inner else f"Vector ({inner}) {mt[2]}"
        if mt[0] == "bwords":
            return {8: "CV", 16: "St"}.get(mt[1], f"Vector UInt32 {mt[1]}")
    return LEAN_TY[mt]


def zero_of(fn, mt):
    if isinstance(mt, tuple) and mt[0] == "arr":
        return f"(Vector.replicate {mt[2]} {zero_of(fn, mt[1])})"
    if mt in ZERO:
        return ZERO[mt]
    broken(fn, f"no initial value for an uninitialised {mt}")


def lname(n):
    return n + "_" if n in LEAN_KEYWORDS else n


class Val:
    """a translated expression: Lean text + model type; `const` = python int for C integer constant expressions;
    `ite` = (cond text, Val, Val) for a conditional between constants (typed when it is converted)"""

    def __init__(self, lean, mt, const=None, ite=None):
        self.lean, self.mt, self.const, self.ite = lean, mt, const, ite


def cval(n):
    return Val(None, "int", const=n)


def tuple_proj(k, n):
    """projection of component k (0-based) of an n-tuple"""
    if n == 1:
        return ""
    return ".2" * k + (".1" if k < n - 1 else "")


class Sig:
    def __init__(self, name, params, ret, is_macro=False):
        self.name, self.params, self.ret = name, params, ret      # params: [name, mt, mode]  mode in|inout|out
        self.outs = []

    def finish(self):
        self.outs = [p for p in self.params if p[2] in ("inout", "out")]

    def results(self):
        """model types of the components of the result tuple"""
        return ([self.ret] if self.ret else []) + [p[1] for p in self.outs]

    def lean_ret(self):
        r = [lean_ty(t) for t in self.results()]
        return " × ".join(r) if r else "Unit"


# intrinsics: name -> ([parameter kinds], result).  kinds: a model type; "imm" = compile-time constant (Nat)
I = {
    "_mm_add_epi32": (["v128", "v128"], "v128"), "_mm_xor_si128": (["v128", "v128"], "v128"),
    "_mm_set1_epi32": (["i32"], "v128"), "_mm_setr_epi32": (["i32"] * 4, "v128"),
    "_mm_ror_epi32": (["v128", "imm"], "v128"), "_mm_shuffle_epi32": (["v128", "imm"], "v128"),
    "_mm_shuffle_ps": (["v128", "v128", "imm"], "v128"), "_mm_castsi128_ps": (["v128"], "v128"),
    "_mm_castps_si128": (["v128"], "v128"), "_mm_blend_epi16": (["v128", "v128", "imm"], "v128"),
    "_mm_unpacklo_epi32": (["v128", "v128"], "v128"), "_mm_unpackhi_epi32": (["v128", "v128"], "v128"),
    "_mm_unpacklo_epi64": (["v128", "v128"], "v128"), "_mm_unpackhi_epi64": (["v128", "v128"], "v128"),
    "_mm256_add_epi32": (["v256", "v256"], "v256"), "_mm256_xor_si256": (["v256", "v256"], "v256"),
    "_mm256_and_si256": (["v256", "v256"], "v256"), "_mm256_set1_epi32": (["i32"], "v256"),
    "_mm256_ror_epi32": (["v256", "imm"], "v256"), "_mm256_set1_epi64x": (["i64"], "v256"),
    "_mm256_setr_epi64x": (["i64"] * 4, "v256"), "_mm256_add_epi64": (["v256", "v256"], "v256"),
    "_mm256_srli_epi64": (["v256", "imm"], "v256"), "_mm256_cvtepi64_epi32": (["v256"], "v128"),
    "_mm256_unpacklo_epi32": (["v256", "v256"], "v256"), "_mm256_unpackhi_epi32": (["v256", "v256"], "v256"),
    "_mm256_unpacklo_epi64": (["v256", "v256"], "v256"), "_mm256_unpackhi_epi64": (["v256", "v256"], "v256"),
    "_mm256_permute2x128_si256": (["v256", "v256", "imm"], "v256"),
    "_mm512_add_epi32": (["v512", "v512"], "v512"), "_mm512_xor_si512": (["v512", "v512"], "v512"),
    "_mm512_and_si512": (["v512", "v512"], "v512"), "_mm512_andnot_si512": (["v512", "v512"], "v512"),
    "_mm512_set1_epi32": (["i32"], "v512"), "_mm512_set_epi32": (["i32"] * 16, "v512"),
    "_mm512_ror_epi32": (["v512", "imm"], "v512"), "_mm512_srli_epi32": (["v512", "imm"], "v512"),
    "_mm512_set1_epi64": (["i64"], "v512"), "_mm512_setr_epi64": (["i64"] * 8, "v512"),
    "_mm512_add_epi64": (["v512", "v512"], "v512"), "_mm512_srli_epi64": (["v512", "imm"], "v512"),
    "_mm512_cvtepi64_epi32": (["v512"], "v256"), "_mm512_castsi512_si256": (["v512"], "v256"),
    "_mm512_unpacklo_epi32": (["v512", "v512"], "v512"), "_mm512_unpackhi_epi32": (["v512", "v512"], "v512"),
    "_mm512_unpacklo_epi64": (["v512", "v512"], "v512"), "_mm512_unpackhi_epi64": (["v512", "v512"], "v512"),
    "_mm512_shuffle_i32x4": (["v512", "v512", "imm"], "v512"),
}
# memory intrinsics: (register type, Lean store op on BPtr / Lean load op on Mem)
LOADS = {"_mm_loadu_si128": ("v128", "loadu_mem"), "_mm256_loadu_si256": ("v256", "loadu_mem8"),
         "_mm512_loadu_si512": ("v512", "loadu_mem16")}
STORES = {"_mm_storeu_si128": "v128", "_mm256_storeu_si256": "v256", "_mm512_storeu_si512": "v512"}
# the wrappers of the file around them; their bodies are checked, calls are translated as the intrinsic
WRAP_LOAD = {"loadu_128": "_mm_loadu_si128", "loadu_256": "_mm256_loadu_si256", "loadu_512": "_mm512_loadu_si512"}
WRAP_STORE = {"storeu_128": "_mm_storeu_si128", "storeu_256": "_mm256_storeu_si256", "storeu_512": "_mm512_storeu_si512"}

# standard macro of <xmmintrin.h>
MM_SHUFFLE = (["fp3", "fp2", "fp1", "fp0"],
              ("bin", "|", ("bin", "|", ("bin", "|", ("bin", "<<", ("id", "fp3"), ("num", 6)),
                                          ("bin", "<<", ("id", "fp2"), ("num", 4))),
                            ("bin", "<<", ("id", "fp1"), ("num", 2))), ("id", "fp0")))


# ------------------------------------------------------------------------------------------------
# constant folding of C integer constant expressions (type int, mathematical integers: the values that
# occur are far from INT_MAX; `~` and unary `-` are two's complement on int, i.e. -x-1 and -x)

def const_eval(e):
    k = e[0]
    if k == "num":
        return e[1]
    if k == "sizeof":
        if e[1][1] == 0 and e[1][0] in SIZEOF:
            return SIZEOF[e[1][0]]
        return None
    if k == "un" and e[1] in ("-", "~"):
        v = const_eval(e[2])
        return None if v is None else (-v if e[1] == "-" else ~v)
    if k == "bin":
        a, b = const_eval(e[2]), const_eval(e[3])
        if a is None or b is None:
            return None
        op = e[1]
        if op == "+":
            return a + b
        if op == "-":
            return a - b
        if op == "*":
            return a * b
        if op == "/" and b > 0 and a >= 0:
            return a // b
        if op == "%" and b > 0 and a >= 0:
            return a % b
        if op == "<<" and 0 <= b < 31:
            return a << b
        if op == ">>" and 0 <= b < 31 and a >= 0:
            return a >> b
        if op == "|":
            return a | b
        if op == "&":
            return a & b
        if op == "^":
            return a ^ b
    return None


def ids_of(e, acc):
    """identifiers occurring in an expression / statement tree"""
    if isinstance(e, tuple):
        if len(e) == 2 and e[0] == "id":
            acc.append(e[1])
        elif e and e[0] == "call":
            for x in e[2]:
                ids_of(x, acc)
        elif e and e[0] == "decl":
            ids_of(e[3], acc)
            ids_of(e[4], acc)
        elif e and e[0] == "for":
            ids_of(e[2], acc)
            ids_of(e[3], acc)
            inner = []
            ids_of(e[4], inner)
            acc += [x for x in inner if x != e[1]]
        else:
            for x in e[1:]:
                ids_of(x, acc)
    elif isinstance(e, list):
        for x in e:
            ids_of(x, acc)
    return acc


def base_var(e):
    """the variable an lvalue / pointer expression is rooted at"""
    while True:
        if e[0] == "id":
            return e[1]
        if e[0] in ("index",):
            e = e[1]
        elif e[0] == "un" and e[1] in ("&", "*"):
            e = e[2]
        elif e[0] == "cast":
            e = e[2]
        else:
            return None


class Tr:
    """translation of one function body"""

    def __init__(self, G, fn, sig):
        self.G, self.fn, self.sig = G, fn, sig
        self.env = {}          # variable -> model type (insertion order = declaration order)
        self.undef = set()     # declared, not yet assigned scalars
        self.refs = set()      # parameters of type T* (read / written through *p)
        self.counter = 0
        self.aux = []          # lifted definitions (text)
        self.nloop = 0
        for name, mt, mode in sig.params:
            self.env[name] = mt
            if mode == "out":
                self.undef.add(name)

    def fresh(self):
        self.counter += 1
        return f"r{self.counter}"

    def bad(self, what):
        broken(self.fn, what)

    # ---- conversions
    def lit(self, n, mt):
        if mt == "usize" or mt == "imm":
            if n < 0:
                self.bad(f"negative constant {n} for a size")
            return str(n)
        if mt in BITS:
            return str(n % (1 << BITS[mt]))
        if mt == "fin7":
            if not 0 <= n < 7:
                self.bad(f"round index {n} out of range")
            return str(n)
        if mt == "bool":
            return "true" if n else "false"
        self.bad(f"constant {n} where a {mt} is expected")

    def coerce(self, v, mt):
        """Lean text of `v` converted to model type `mt` (C implicit conversion)"""
        if v.const is not None:
            return self.lit(v.const, mt)
        if v.ite is not None:
            c, a, b = v.ite
            return f"(if {c} then {self.coerce(a, mt)} else {self.coerce(b, mt)})"
        s = v.mt
        if s == mt or {s, mt} <= {"u32", "i32"} or {s, mt} <= {"u64", "i64"}:
            return v.lean
        if s == "u8" and mt in ("u32", "i32"):
            return f"{self.atom(v.lean)}.toUInt32"
        if s == "i32" and mt in ("u64", "i64"):
            return f"(sext64 {v.lean})"
        if s == "u32" and mt in ("u64", "i64"):
            return f"{self.atom(v.lean)}.toUInt64"
        if s == "fin16" and mt == "usize":
            return v.lean
        if isinstance(s, tuple) and isinstance(mt, tuple) and s[0] in ("arr", "bwords") and mt[0] in ("arr", "bwords"):
            if lean_ty(s) == lean_ty(mt):
                return v.lean
        if s == "mem" and isinstance(mt, tuple) and mt[0] == "bwords":
            return f"(Mem.words {v.lean} {mt[1]})"
        self.bad(f"no conversion from {s} to {mt}")

    @staticmethod
    def atom(s):
        return s if re.fullmatch(r"[A-Za-z_][A-Za-z0-9_.]*|\d+|\(.*\)", s) and (not s.startswith("(") or X.match_brace(s, 0, "(", ")") == len(s)) else f"({s})"

    # ---- expressions
    def ex(self, e):
        k = e[0]
        c = const_eval(e)
        if c is not None:
            return cval(c)
        if k == "id":
            n = e[1]
            if n in self.env:
                if n in self.undef:
                    self.bad(f"{n} is read before it is assigned")
                return Val(lname(n), self.env[n])
            if n in ("true", "false"):
                return Val(n, "bool")
            self.bad(f"unknown identifier {n}")
        if k == "un":
            op, a = e[1], e[2]
            if op == "*":
                if a[0] == "id" and a[1] in self.refs:
                    return self.ex(a)
                self.bad("dereference of something that is not a T* parameter")
            if op == "&":
                self.bad("address-of outside a call argument / load / store")
            v = self.ex(a)
            if op == "-" and v.mt == "i32":
                return Val(f"(0 - {v.lean})", "i32")
            if op == "~" and v.mt in ("u32", "u64", "u8"):
                return Val(f"(~~~ {v.lean})", v.mt)
            if op == "!" and v.mt == "bool":
                return Val(f"(! {v.lean})", "bool")
            self.bad(f"unary {op} on {v.mt}")
        if k == "cast":
            (base, nptr, _), a = e[1], e[2]
            if nptr:
                self.bad("pointer cast outside a call argument / load / store")
            v = self.ex(a)
            mt = SCALAR.get(base) or self.bad(f"cast to {base}")
            if v.const is not None:
                if mt in BITS:
                    return cval(v.const % (1 << BITS[mt])) if mt != "i32" and mt != "i64" else cval(v.const)
                return v
            if v.mt == "fin16" and mt == "usize":
                return v
            if v.mt == "bool" and mt in ("i32", "u32"):
                return Val(f"(if {v.lean} then 1 else 0)", mt)
            if v.mt == "u64" and mt in ("u32", "i32"):
                return Val(f"{self.atom(v.lean)}.toUInt32", mt)
            return Val(self.coerce(v, mt), mt)
        if k == "tern":
            c = self.cond(e[1])
            a, b = self.ex(e[2]), self.ex(e[3])
            if (a.const is not None or a.ite) and (b.const is not None or b.ite):
                return Val(None, "int", ite=(c, a, b))
            if a.mt != b.mt:
                self.bad("conditional between different types")
            return Val(f"(if {c} then {a.lean} else {b.lean})", a.mt)
        if k == "bin":
            return self.binop(e)
        if k == "index":
            return self.index(e)
        if k == "call":
            return self.call_value(e[1], e[2])
        self.bad(f"expression {k}")

    def binop(self, e):
        op, a, b = e[1], self.ex(e[2]), self.ex(e[3])
        if op in ("==", "!=", "<", ">", "<=", ">=", "&&", "||"):
            self.bad("comparison outside a condition")
        mt = a.mt if a.const is None and not a.ite else b.mt
        if mt == "int" or mt not in ("u8", "u32", "u64", "usize", "i32"):
            self.bad(f"binary {op} on {a.mt}, {b.mt}")
        if a.const is None and b.const is None and a.mt != b.mt:
            self.bad(f"binary {op} on different types {a.mt}, {b.mt}")
        x, y = self.coerce(a, mt), self.coerce(b, mt)
        if mt == "u8" and op not in ("|", "&", "^"):
            self.bad(f"{op} on uint8_t (integer promotion would matter)")
        if op in ("<<", ">>") and mt == "usize":
            self.bad("shift of a size_t")
        lop = {"+": "+", "-": "-", "*": "*", "/": "/", "%": "%", "|": "|||", "&": "&&&", "^": "^^^", "<<": "<<<",
               ">>": ">>>"}[op]
        if mt == "i32" and op not in ("|", "&", "^"):
            self.bad(f"{op} on int (overflow is undefined)")
        return Val(f"({x} {lop} {y})", mt)

    def cond(self, e):
        """a C condition as a decidable Lean proposition"""
        if e[0] == "bin" and e[1] in ("==", "!=", "<", ">", "<=", ">="):
            a, b = self.ex(e[2]), self.ex(e[3])
            mt = a.mt if a.const is None else b.mt
            if mt not in ("usize", "u8", "u32", "u64"):
                self.bad(f"comparison of {a.mt}, {b.mt}")
            if a.const is None and b.const is None and a.mt != b.mt:
                self.bad("comparison of different types")
            lop = {"==": "=", "!=": "≠", "<": "<", ">": ">", "<=": "≤", ">=": "≥"}[e[1]]
            return f"({self.coerce(a, mt)} {lop} {self.coerce(b, mt)})"
        if e[0] == "bin" and e[1] in ("&&", "||"):
            return f"({self.cond(e[2])} {'∧' if e[1] == '&&' else '∨'} {self.cond(e[3])})"
        v = self.ex(e)
        if v.mt == "bool":
            return f"({v.lean} = true)"
        self.bad("condition that is neither a comparison nor a bool")

    def const_index(self, e, n, what):
        c = const_eval(e)
        if c is None:
            self.bad(f"{what}: index is not a constant")
        if not 0 <= c < n:
            self.bad(f"{what}: index {c} out of range (size {n})")
        return c

    def index(self, e):
        base, i = e[1], e[2]
        # MSG_SCHEDULE[r][j]
        if base[0] == "index" and base[1] == ("id", "MSG_SCHEDULE"):
            r = self.ex(base[2])
            j = self.const_index(i, 16, "MSG_SCHEDULE[r][j]")
            if r.mt != "fin7":
                self.bad("MSG_SCHEDULE indexed by something that is not the round parameter")
            return Val(f"(MSG_SCHEDULE[{r.lean}][{j}]'(by decide))", "fin16")
        if base == ("id", "IV"):
            j = self.const_index(i, 8, "IV")
            return Val(f"(IV[{j}]'(by decide))", "u32")
        if base[0] == "id" and base[1] in self.env:
            mt = self.env[base[1]]
            if isinstance(mt, tuple) and mt[0] == "arr":
                iv = self.ex(i)
                if iv.mt == "fin16" and mt[2] == 16:
                    return Val(f"({lname(base[1])}[{iv.lean}])", mt[1])
                j = self.const_index(i, mt[2], base[1])
                return Val(f"({lname(base[1])}[{j}]'(by decide))", mt[1])
            if mt == "memarr":
                iv = self.ex(i)
                return Val(f"({lname(base[1])} {self.coerce(iv, 'usize')})", "mem")
        self.bad(f"indexing of {base}")

    def call_value(self, name, args):
        if name in I:
            kinds, ret = I[name]
            if len(kinds) != len(args):
                self.bad(f"{name}: {len(args)} arguments")
            out = []
            for kd, a in zip(kinds, args):
                if kd == "imm":
                    c = const_eval(a)
                    if c is None:
                        self.bad(f"{name}: immediate is not a constant")
                    out.append(str(c % 256))
                else:
                    out.append(self.atom(self.coerce(self.ex(a), kd)))
            return Val(f"({name} {' '.join(out)})", ret)
        if name in WRAP_LOAD or name in LOADS:
            intr = WRAP_LOAD.get(name, name)
            if len(args) != 1:
                self.bad(f"{name}: {len(args)} arguments")
            return self.load(intr, args[0])
        if name in self.G.sigs:
            sig = self.G.sigs[name]
            if sig.outs or sig.ret is None:
                self.bad(f"{name} called for its value but it writes through its parameters")
            return Val(f"({name} {' '.join(self.atom(self.coerce(self.ex(a), p[1])) for a, p in zip(args, sig.params))})", sig.ret)
        self.bad(f"unknown function {name}")

    # ---- pointers
    def ptr(self, e):
        """(variable or None, model type of the object, Lean text of the base, offset Val in elements)"""
        while e[0] == "cast" and e[1][1] > 0:
            e = e[2]
        if e[0] == "id" and e[1] in self.env:
            return e[1], self.env[e[1]], lname(e[1]), cval(0)
        if e[0] == "un" and e[1] == "&" and e[2][0] == "index":
            base, i = e[2][1], e[2][2]
            if base[0] == "id" and base[1] in self.env:
                return base[1], self.env[base[1]], lname(base[1]), self.ex(i)
            if base[0] == "index":
                v = self.index(base)
                if v.mt == "mem":
                    return None, "mem", v.lean, self.ex(i)
        if e[0] == "un" and e[1] == "&" and e[2][0] == "id" and e[2][1] in self.env:
            return e[2][1], ("scalar", self.env[e[2][1]]), lname(e[2][1]), cval(0)
        if e[0] == "index":
            v = self.index(e)
            if v.mt == "mem":
                return None, "mem", v.lean, cval(0)
        self.bad("pointer expression not understood")

    def word_offset(self, mt, off, what):
        if off.const is None:
            self.bad(f"{what}: offset into a word array is not a constant")
        c = off.const
        if mt[0] == "bwords":
            if c % 4:
                self.bad(f"{what}: byte offset {c} is not a multiple of 4")
            c //= 4
        return c

    def load(self, intr, p):
        reg, op = LOADS[intr]
        var, mt, base, off = self.ptr(p)
        if mt == "mem":
            return Val(f"({op} {base} {self.atom(self.coerce(off, 'usize'))})", reg)
        if isinstance(mt, tuple) and (mt[0] == "bwords" or (mt[0] == "arr" and mt[1] == "u32")):
            if reg != "v128":
                self.bad(f"{intr} from a word array")
            k = self.word_offset(mt, off, intr)
            n = mt[1] if mt[0] == "bwords" else mt[2]
            if k + 4 > n:
                self.bad(f"{intr}: reads past the end of {var}")
            return Val(f"(loadu_words {base} {k})", reg)
        self.bad(f"{intr} from a {mt}")

    # ---- statements
    def store(self, intr, p, val, lines, pad, mask=None):
        reg = STORES.get(intr, "v256")
        var, mt, base, off = self.ptr(p)
        x = self.atom(self.coerce(self.ex(val), reg))
        if var is None:
            self.bad(f"{intr}: store through something that is not a variable")
        if mt == "bptr":
            o = self.coerce(off, "usize")
            dst = base if off.const == 0 else f"(BPtr.add {base} {self.atom(o)})"
            m = "" if mask is None else f" {mask}"
            lines.append(f"{pad}let {base} := BPtr.merge {base} ({intr} {dst}{m} {x})")
            return
        if isinstance(mt, tuple) and mt[0] == "arr" and mt[1] == "u32" and reg == "v128" and mask is None:
            k = self.word_offset(mt, off, intr)
            if k + 4 > mt[2]:
                self.bad(f"{intr}: writes past the end of {var}")
            lines.append(f"{pad}let {base} := storeu_words {x} {base} {k}")
            return
        self.bad(f"{intr} to a {mt}")

    def assign_var(self, name, text, lines, pad):
        lines.append(f"{pad}let {lname(name)} := {text}")
        self.undef.discard(name)

    def arg_in(self, a, mt):
        """an argument for an input parameter"""
        if isinstance(mt, tuple) or mt in ("mem", "memarr", "bptr"):
            var, amt, base, off = self.ptr(a) if not (a[0] == "id") else (a[1], self.env.get(a[1]) or self.bad(f"unknown {a[1]}"), lname(a[1]), cval(0))
            if var in self.undef:
                self.bad(f"{var} is read before it is assigned")
            if amt == "mem" and mt == "mem":
                return base if off.const == 0 else f"(Mem.add {base} {self.atom(self.coerce(off, 'usize'))})"
            if amt == "mem" and isinstance(mt, tuple) and mt[0] == "bwords":
                b = base if off.const == 0 else f"(Mem.add {base} {self.atom(self.coerce(off, 'usize'))})"
                return f"(Mem.words {b} {mt[1]})"
            if amt == "memarr" and mt == "memarr" and off.const == 0:
                return base
            if isinstance(amt, tuple) and isinstance(mt, tuple) and amt[0] in ("arr", "bwords") and mt[0] in ("arr", "bwords"):
                return self.slice_read(base, amt, mt, off)
            self.bad(f"argument of type {amt} for a parameter of type {mt}")
        return self.atom(self.coerce(self.ex(a), mt))

    def slice_read(self, base, amt, mt, off):
        n_a = amt[2] if amt[0] == "arr" else amt[1]
        n_p = mt[2] if mt[0] == "arr" else mt[1]
        e_a = amt[1] if amt[0] == "arr" else "u32"
        e_p = mt[1] if mt[0] == "arr" else "u32"
        if e_a != e_p or off.const is None or (amt[0] == "bwords") != (mt[0] == "bwords") and off.const != 0:
            self.bad(f"array argument {amt} for a parameter {mt}")
        k = off.const
        if k == 0 and n_a == n_p:
            return base
        if k + n_p > n_a:
            self.bad(f"sub-array [{k}, {k + n_p}) of an array of {n_a}")
        if n_p not in (4, 8):
            self.bad(f"sub-array of length {n_p}")
        return f"(slice{n_p} {base} {k})"

    def call_stmt(self, name, args, lines, pad):
        if name == "_mm_prefetch":
            lines.append(f"{pad}-- _mm_prefetch(…): prefetch hints have no architectural effect")
            return
        if name in WRAP_STORE or name in STORES:
            if len(args) != 2:
                self.bad(f"{name}: {len(args)} arguments")
            if name in WRAP_STORE:
                return self.store(WRAP_STORE[name], args[1], args[0], lines, pad)
            return self.store(name, args[0], args[1], lines, pad)
        if name == "_mm256_mask_storeu_epi32":
            if len(args) != 3:
                self.bad(f"{name}: {len(args)} arguments")
            k = const_eval(args[1])
            if k is None:
                kv = self.ex(args[1])
                k = kv.const
            if k is None:
                self.bad(f"{name}: mask is not a constant")
            return self.store(name, args[0], args[2], lines, pad, mask=str(k % 256))
        if name == "memcpy":
            return self.memcpy(args, lines, pad)
        if name not in self.G.sigs:
            self.bad(f"unknown function {name}")
        sig = self.G.sigs[name]
        if len(args) != len(sig.params):
            self.bad(f"{name}: {len(args)} arguments for {len(sig.params)} parameters")
        texts, backs, targets = [], [], []
        for a, (pn, mt, mode) in zip(args, sig.params):
            if mode == "in":
                texts.append(self.arg_in(a, mt))
                continue
            var, amt, base, off = self.ptr(a)
            if var is None:
                self.bad(f"{name}: output argument is not rooted at a variable")
            if isinstance(amt, tuple) and amt[0] == "scalar":          # &x
                if amt[1] != mt:
                    self.bad(f"{name}: &{var} has type {amt[1]}, parameter {pn} is {mt}")
                if mode == "inout":
                    if var in self.undef:
                        self.bad(f"{var} is read before it is assigned")
                    texts.append(base)
                backs.append(("var", var))
                targets.append(("var", var))
            elif amt == "bptr" and mt == "bptr":
                o = self.coerce(off, "usize")
                texts.append(base if off.const == 0 else f"(BPtr.add {base} {self.atom(o)})")
                backs.append(("bptr", var))
                targets.append(("var", var))
            elif isinstance(amt, tuple) and amt[0] == "arr" and not isinstance(mt, tuple):   # &arr[k] for T*
                if amt[1] != mt:
                    self.bad(f"{name}: element type {amt[1]} for parameter {pn} of type {mt}")
                k = off.const
                if k is None or not 0 <= k < amt[2]:
                    self.bad(f"{name}: &{var}[…] with a non-constant or out-of-range index")
                if mode == "inout":
                    texts.append(f"({base}[{k}]'(by decide))")
                backs.append(("elem", var, k))
                targets.append(("elem", var, k))
            elif isinstance(amt, tuple) and amt[0] == "arr" and isinstance(mt, tuple) and mt[0] == "arr":
                texts.append(self.slice_read(base, amt, mt, off))
                k = off.const
                if k == 0 and amt[2] == mt[2]:
                    backs.append(("var", var))
                    targets.append(("var", var))
                else:
                    backs.append(("slice", var, k, mt[2]))
                    targets += [("elem", var, k + j) for j in range(mt[2])]
            else:
                self.bad(f"{name}: argument of type {amt} for the output parameter {pn} of type {mt}")
        for i, t in enumerate(targets):
            for u in targets[i + 1:]:
                if t == u or (t[0] == "var" and u[1] == t[1]) or (u[0] == "var" and t[1] == u[1]):
                    self.bad(f"{name}: two output arguments alias ({t[1]})")
        r = self.fresh()
        lines.append(f"{pad}let {r} := {name} {' '.join(texts)}".rstrip())
        n = len(sig.results())
        k0 = 1 if sig.ret else 0
        for i, b in enumerate(backs):
            proj = f"{r}{tuple_proj(k0 + i, n)}"
            if b[0] == "var":
                self.assign_var(b[1], proj, lines, pad)
            elif b[0] == "bptr":
                lines.append(f"{pad}let {lname(b[1])} := BPtr.merge {lname(b[1])} {proj}")
            elif b[0] == "elem":
                lines.append(f"{pad}let {lname(b[1])} := {lname(b[1])}.set {b[2]} {proj} (by decide)")
            else:
                lines.append(f"{pad}let {lname(b[1])} := setSlice{b[3]} {lname(b[1])} {b[2]} {proj}")

    def memcpy(self, args, lines, pad):
        if len(args) != 3:
            self.bad("memcpy: 3 arguments expected")
        n = const_eval(args[2])
        dv, dmt, dbase, doff = self.ptr(args[0])
        sv, smt, sbase, soff = self.ptr(args[1])
        if n is None or doff.const != 0 or soff.const != 0 or dv is None:
            self.bad("memcpy: only whole objects with a constant size")
        if sv in self.undef:
            self.bad(f"{sv} is read before it is assigned")
        words = lambda t: isinstance(t, tuple) and (t[0] == "bwords" or (t[0] == "arr" and t[1] == "u32"))
        nw = lambda t: t[1] if t[0] == "bwords" else t[2]
        if words(dmt) and words(smt) and nw(dmt) * 4 == n and nw(smt) * 4 == n and dmt[0] == "arr":
            lines.append(f"{pad}let {dbase} := {sbase}")
            return
        if dmt == "bptr" and words(smt) and nw(smt) * 4 == n:
            lines.append(f"{pad}let {dbase} := BPtr.writeWords {dbase} {sbase}")
            return
        self.bad(f"memcpy from {smt} to {dmt} of {n} bytes")

    def decl(self, st, lines, pad):
        _, (base, nptr, const), name, arr, init = st
        if nptr:
            self.bad(f"local pointer {name}")
        if name in self.env:
            self.bad(f"{name} declared twice (shadowing is not supported)")
        el = VEC.get(base) or SCALAR.get(base) or self.bad(f"local of type {base}")
        if arr is not None:
            n = const_eval(arr)
            if n is None or n <= 0:
                self.bad(f"{name}: array size is not a positive constant")
            mt = ("arr", el, n)
            self.env[name] = mt
            if init is None:
                lines.append(f"{pad}let {lname(name)} : {lean_ty(mt)} := {zero_of(self.fn, mt)}  -- uninitialised")
            elif init[0] == "init":
                if len(init[1]) != n:
                    self.bad(f"{name}: {len(init[1])} initialisers for {n} elements")
                items = ", ".join(self.coerce(self.ex(x), el) for x in init[1])
                lines.append(f"{pad}let {lname(name)} : {lean_ty(mt)} := #v[{items}]")
            else:
                self.bad(f"{name}: array initialised by an expression")
            return
        self.env[name] = el
        if init is None:
            self.undef.add(name)
            return
        lines.append(f"{pad}let {lname(name)} : {lean_ty(el)} := {self.coerce(self.ex(init), el)}")

    def assign(self, st, lines, pad):
        _, op, lhs, rhs = st
        # *p = e
        if lhs[0] == "un" and lhs[1] == "*" and lhs[2][0] == "id" and lhs[2][1] in self.refs:
            name = lhs[2][1]
            if op != "=":
                self.bad("compound assignment through a pointer")
            return self.assign_var(name, self.coerce(self.ex(rhs), self.env[name]), lines, pad)
        if lhs[0] == "id":
            name = lhs[1]
            mt = self.env.get(name) or self.bad(f"assignment to unknown {name}")
            if name in self.refs:
                self.bad(f"assignment to the pointer parameter {name} itself")
            if mt in ("mem", "memarr", "bptr"):
                add = {"mem": "Mem.add", "memarr": "MemArr.add", "bptr": "BPtr.add"}[mt]
                if op == "+=":
                    off = self.ex(rhs)
                elif op == "=":
                    var, pmt, base, off = self.ptr(rhs)
                    if var != name:
                        self.bad(f"{name} = pointer into another object")
                else:
                    self.bad(f"{op} on a pointer")
                return self.assign_var(name, f"{add} {lname(name)} {self.atom(self.coerce(off, 'usize'))}", lines, pad)
            if isinstance(mt, tuple):
                self.bad(f"assignment to the array {name}")
            if op == "=":
                return self.assign_var(name, self.coerce(self.ex(rhs), mt), lines, pad)
            v = self.binop(("bin", op[:-1], lhs, rhs))
            return self.assign_var(name, self.coerce(v, mt), lines, pad)
        if lhs[0] == "index" and lhs[1][0] == "id" and lhs[1][1] in self.env:
            name = lhs[1][1]
            mt = self.env[name]
            if not (isinstance(mt, tuple) and mt[0] == "arr"):
                self.bad(f"element assignment to {name} of type {mt}")
            if op != "=":
                self.bad("compound assignment to an array element")
            k = self.const_index(lhs[2], mt[2], name)
            lines.append(f"{pad}let {lname(name)} := {lname(name)}.set {k} {self.atom(self.coerce(self.ex(rhs), mt[1]))} (by decide)")
            return
        self.bad("assignment target not understood")

    # variables a statement list may assign (syntactically), excluding its own declarations
    def writes(self, stmts, acc=None, local=None):
        acc = [] if acc is None else acc
        local = set() if local is None else local
        for st in stmts:
            k = st[0]
            if k == "decl":
                local.add(st[2])
            elif k == "assign":
                b = base_var(st[2])
                if b and b not in local and b not in acc:
                    acc.append(b)
            elif k == "call":
                name, args = st[1], st[2]
                outs = []
                if name in WRAP_STORE:
                    outs = [args[1]]
                elif name in STORES or name in ("_mm256_mask_storeu_epi32", "memcpy"):
                    outs = [args[0]]
                elif name in self.G.sigs:
                    outs = [a for a, p in zip(args, self.G.sigs[name].params) if p[2] != "in"]
                for a in outs:
                    b = base_var(a)
                    if b and b not in local and b not in acc:
                        acc.append(b)
            elif k == "for":
                self.writes(st[4], acc, set(local) | {st[1]})
            elif k == "while":
                self.writes(st[2], acc, set(local))
            elif k == "if":
                self.writes(st[2], acc, set(local))
                self.writes(st[3], acc, set(local))
        return acc

    def tup(self, names):
        return "(" + ", ".join(lname(n) for n in names) + ")" if len(names) != 1 else lname(names[0])

    def tupty(self, names):
        return " × ".join(lean_ty(self.env[n]) for n in names)

    def unpack(self, src, names, lines, pad):
        for i, n in enumerate(names):
            lines.append(f"{pad}let {lname(n)} := {src}{tuple_proj(i, len(names))}")

    def lift(self, kind, stmts, state, extra_param=None, cond=None):
        """lambda-lift a loop body (or a loop condition) into its own definition; returns its name applied to the free
        variables.  `state` = the variables the loop assigns (tuple `st`); the body may read any other variable."""
        self.nloop += 1
        name = f"{self.fn}_{kind}{self.nloop}"
        used = ids_of(stmts if cond is None else cond, [])
        free = [v for v in self.env if v in used and v not in state and v != extra_param and v not in self.undef]
        sub = Tr(self.G, self.fn, self.sig)
        sub.env = dict(self.env)
        sub.undef = set(self.undef)
        sub.refs = set(self.refs)
        sub.counter, sub.nloop, sub.aux = 0, self.nloop, self.aux
        lines = []
        sub.unpack("st", state, lines, "  ")
        params = "".join(f" ({lname(v)} : {lean_ty(self.env[v])})" for v in free)
        params += f" (st : {self.tupty(state)})"
        if extra_param:
            sub.env[extra_param] = "usize"
            params += f" ({lname(extra_param)} : Nat)"
        if cond is not None:
            lines.append(f"  decide {sub.cond(cond)}")
            ret = "Bool"
        else:
            sub.block(stmts, lines, "  ")
            lines.append(f"  {self.tup(state)}")
            ret = self.tupty(state)
        self.nloop = sub.nloop
        self.aux.append(f"def {name}{params} : {ret} :=\n" + "\n".join(lines) + "\n")
        return name + "".join(f" {lname(v)}" for v in free)

    def block(self, stmts, lines, pad):
        for st in stmts:
            k = st[0]
            if k == "decl":
                self.decl(st, lines, pad)
            elif k == "assign":
                self.assign(st, lines, pad)
            elif k == "call":
                self.call_stmt(st[1], st[2], lines, pad)
            elif k == "for":
                self.for_loop(st, lines, pad)
            elif k == "while":
                self.while_loop(st, lines, pad)
            elif k == "if":
                self.if_stmt(st, lines, pad)
            elif k == "return":
                self.bad("return in the middle of a function")
            else:
                self.bad(f"statement {k}")

    def for_loop(self, st, lines, pad):
        _, var, lo, hi, body = st
        if var in self.env:
            self.bad(f"loop variable {var} shadows a variable")
        if var in self.writes(body):
            self.bad(f"the loop body assigns its loop variable {var}")
        l, h = const_eval(lo), const_eval(hi)
        if l is not None and h is not None:
            if h - l > 64:
                self.bad("constant-bound loop with more than 64 iterations")
            for i in range(l, h):          # a loop with constant bounds is unrolled
                before = set(self.env)
                self.block(subst(body, {var: ("num", i)}), lines, pad)
                for v in set(self.env) - before:   # the body's locals go out of scope
                    del self.env[v]
                    self.undef.discard(v)
            return
        if l != 0:
            self.bad("loop that does not start at 0")
        hv = self.coerce(self.ex(hi), "usize")
        state = [v for v in self.env if v in self.writes(body)]
        if not state:
            self.bad("loop without effect")
        for v in state:
            if v in self.undef:
                self.bad(f"{v} is assigned in a loop before it is initialised")
        f = self.lift("loop", body, state, extra_param=var)
        r = f"loop{self.nloop}"
        lines.append(f"{pad}let {r} := (List.range {self.atom(hv)}).foldl ({f}) {self.tup(state)}")
        self.unpack(r, state, lines, pad)

    def while_loop(self, st, lines, pad):
        _, c, body = st
        state = [v for v in self.env if v in self.writes(body)]
        # the bound on the number of iterations: the size_t variable tested by the condition
        if not (c[0] == "bin" and c[1] in (">=", ">") and c[2][0] == "id" and self.env.get(c[2][1]) == "usize"
                and const_eval(c[3]) is not None and c[2][1] in state):
            self.bad("while: the condition must be `n >= k` or `n > k` for a size_t n that the body assigns")
        for v in state:
            if v in self.undef:
                self.bad(f"{v} is assigned in a loop before it is initialised")
        fuel = f"({lname(c[2][1])} + 1)"
        cf = self.lift("cond", None, state, cond=c)
        bf = self.lift("loop", body, state)
        r = f"loop{self.nloop}"
        lines.append(f"{pad}let {r} := whileFuel {fuel} ({cf}) ({bf}) {self.tup(state)}")
        self.unpack(r, state, lines, pad)

    def if_stmt(self, st, lines, pad):
        _, c, th, el = st
        ws = [v for v in self.env if v in self.writes(th) or v in self.writes(el)]
        for b in (th, el):
            for s in b:
                if s[0] != "assign" or s[2][0] != "id":
                    self.bad("if: only assignments to scalar variables are supported in the branches")
        for v in ws:
            if v in self.undef:
                self.bad(f"{v} is conditionally assigned before it is initialised")
        cl = self.cond(c)
        if len(ws) == 1 and len(th) == 1 and not el:
            v = ws[0]
            tmp = []
            self.assign(th[0], tmp, "")
            rhs = tmp[0].split(" := ", 1)[1]
            lines.append(f"{pad}let {lname(v)} := if {cl} then {rhs} else {lname(v)}")
            return
        branches = []
        for b in (th, el):
            tmp = []
            self.block(b, tmp, "")
            branches.append("; ".join(tmp) + ("; " if tmp else "") + self.tup(ws))
        r = self.fresh()
        lines.append(f"{pad}let {r} := if {cl} then ({branches[0]}) else ({branches[1]})")
        self.unpack(r, ws, lines, pad)


# ------------------------------------------------------------------------------------------------
# the file

FN_HEAD = re.compile(r"((?:\b(?:INLINE|static)\s+)*)\b(void|__m128i|__m256i|__m512i|uint32_t|uint64_t)\s+(\w+)\s*\(")

# long straight-line functions are cut into pieces (a definition with hundreds of `let`s takes minutes to elaborate):
#   ("runs", x): a new piece starts at every maximal run of assignments `x = …`;  ("chunks", n): n statements per piece
SPLIT = {"compress_pre": ("runs", "t0")}
AUTO_CHUNK = 56
AUTO_CHUNK_FROM = 80

HEADER = '''/- GENERATED by gen/ext_simd_avx512.py from /repo/c/blake3_avx512.c (and `load_block_words` of c/blake3_impl.h) -- do not edit -/
/-
Statement-by-statement translation of the C AVX-512 kernels.  Conventions:
  __m128i / __m256i / __m512i -> V4 / V8 / V16 (32-bit lanes, lane 0 = bits 31:0); uint8_t/uint32_t/uint64_t -> UInt8/UInt32/UInt64
  (unsigned arithmetic wraps, as in C); int / int32_t / int64_t values -> their two's complement bit patterns (UInt32 / UInt64),
  integer constant expressions are folded and converted to the type they are used at (`~0` assigned to a uint64_t is 2^64-1);
  size_t -> Nat (no wrap-around: sizes are bounded by real memory; `-` is truncated subtraction, every one in this file is
  guarded by the loop condition); bool -> Bool; the round parameter `size_t r` (used only as MSG_SCHEDULE[r]) -> Fin 7.
  A function returns the tuple of the objects it writes through pointer / array parameters (parameter order); a `T *p`
  parameter that is assigned unconditionally and never read is a pure result.  `const uint32_t x[n]`, `uint32_t x[n]`,
  `const uint8_t x[4n]` -> Vector UInt32 n (little-endian words; loads / stores at constant offsets, multiples of 4 bytes);
  `const uint8_t *` -> Mem; `const uint8_t *const *` -> MemArr; `uint8_t *`, `uint8_t x[n]` (written) -> BPtr (see
  Simd/Prim512.lean).  `&a[k]` passed for an array parameter of n elements is the sub-array a[k .. k+n] (slice4/8, setSlice4/8).
  loadu_128/256/512 and storeu_128/256/512 are checked to be the plain wrappers of the unaligned load / store intrinsics and
  their calls are translated as the memory operation itself.  `for` loops with constant bounds are unrolled; other `for`
  loops are folds over `List.range`; `while (n >= k)` is `whileFuel (n + 1)` (bounded; the theorems prove the condition false
  at exit); a loop body / condition is lifted into `<fn>_loopK` / `<fn>_condK` taking the variables it reads and the tuple
  `st` of the variables the loop assigns.  Uninitialised local arrays start as zeros (they are written before they are read;
  uninitialised scalars are checked by the translator to be assigned before use).  `_mm_prefetch` has no effect.
  Long straight-line functions are cut into `<fn>_partK` (liveness at the cut = parameters / results).
  Memory safety (that loads and stores stay inside their objects) is NOT modelled.
-/
import B3.Prim
import B3.Gen.Consts
import B3.Gen.CPortable
import B3.Simd.Prim512
set_option linter.unusedVariables false
namespace B3.Gen.CAvx512
open B3 B3.Simd B3.Simd.C512
open B3.Gen.C (IV MSG_SCHEDULE counter_low counter_high)
'''


class Generator:
    def __init__(self):
        self.sigs = {}
        self.consts = {}
        self.macros = {"_MM_SHUFFLE": MM_SHUFFLE}
        self.out = []
        self.order = []

    # ---- preprocessing
    def preprocess(self, rel, text, want_macros=True):
        text = X.strip_comments(text)
        text = re.sub(r"\\\n", " ", text)
        keep = []
        for line in text.split("\n"):
            s = line.strip()
            if s.startswith("#"):
                m = re.match(r"#\s*define\s+(\w+)(\(([^)]*)\))?\s*(.*)$", s)
                if m and want_macros:
                    name, params, body = m.group(1), m.group(3), m.group(4).strip()
                    if body:
                        ps = None if m.group(2) is None else [p.strip() for p in params.split(",") if p.strip()]
                        p = Parser(f"#define {name}", lex(f"#define {name}", body), self.macros)
                        e = p.expr(0)
                        if not p.eof():
                            broken(f"#define {name}", "replacement text is not one expression")
                        self.macros[name] = (ps, e)
                elif not re.match(r"#\s*(include|define|if|ifdef|ifndef|else|elif|endif|pragma|undef)\b", s):
                    broken(rel, f"preprocessor line {s!r}")
                keep.append("")
            else:
                keep.append(line)
        return "\n".join(keep)

    def functions(self, rel, text):
        """[(name, return type, params text, body text, start, end)] of every top-level function definition"""
        out, i = [], 0
        while True:
            m = FN_HEAD.search(text, i)
            between = text[i:m.start() if m else len(text)]
            if between.strip():
                broken(rel, f"top-level text that is not a function definition: {between.strip()[:40]!r}")
            if not m:
                return out
            p0 = m.end() - 1
            p1 = X.match_brace(text, p0, "(", ")")
            j = p1
            while j < len(text) and text[j].isspace():
                j += 1
            if j >= len(text) or text[j] != "{":
                broken(m.group(3), "declaration without a body")
            b1 = X.match_brace(text, j)
            out.append((m.group(3), m.group(2), text[p0 + 1:p1 - 1], text[j:b1], m.start(), b1))
            i = b1

    # ---- signatures
    def parse_params(self, fn, text):
        p = Parser(fn, lex(fn, text), self.macros)
        out = []
        if p.eof() or (p.at_id("void") and len(p.t) == 1):
            return out
        while True:
            ty = p.parse_type()
            name = p.next()
            if name[0] != "id":
                broken(fn, "parameter name expected")
            arr = None
            if p.at("["):
                p.next()
                arr = const_eval(p.expr(0))
                if arr is None:
                    broken(fn, f"parameter {name[1]}: array size is not a constant")
                p.expect("]")
            out.append((ty, name[1], arr))
            if p.at(","):
                p.next()
                continue
            break
        if not p.eof():
            broken(fn, "parameter list not understood")
        return out

    def param_mt(self, fn, ty, name, arr, body):
        base, nptr, const = ty
        if base in VEC:
            v = VEC[base]
            if nptr == 1 and arr is None:
                return v, True
            if nptr == 0 and arr is not None:
                return ("arr", v, arr), False
            if nptr == 0:
                return v, False
        elif base == "uint32_t":
            if nptr == 0 and arr is not None:
                return ("arr", "u32", arr), False
            if nptr == 0:
                return "u32", False
        elif base == "uint8_t":
            if nptr == 0 and arr is None:
                return "u8", False
            if const and nptr == 0 and arr % 4 == 0:
                return ("bwords", arr // 4), False
            if const and nptr == 1 and arr is None:
                return "mem", False
            if const and nptr == 2 and arr is None:
                return "memarr", False
            if not const and (nptr == 1) != (arr is not None):
                return "bptr", False
        elif base == "size_t" and nptr == 0 and arr is None:
            uses = ids_of(body, []).count(name)
            sched = count_sched(body, name)
            if uses and uses == sched:
                return "fin7", False
            return "usize", False
        elif base in ("uint64_t", "bool") and nptr == 0 and arr is None:
            return SCALAR[base], False
        broken(fn, f"parameter {name}: type not understood")

    def make_sig(self, fn, ret, ptext, stmts):
        params, refs = [], set()
        helper = Tr(self, fn, Sig(fn, [], None))
        written = helper.writes(stmts)
        for ty, name, arr in self.parse_params(fn, ptext):
            mt, is_ref = self.param_mt(fn, ty, name, arr, stmts)
            mode = "in"
            if name in written:
                if is_ref:
                    derefs = count_pat(stmts, ("un", "*", ("id", name)))
                    plain = sum(1 for s in stmts if s[0] == "assign" and s[1] == "=" and s[2] == ("un", "*", ("id", name)))
                    nested = count_pat([s for s in stmts if s[0] in ("for", "while", "if")], ("un", "*", ("id", name)))
                    bare = ids_of(stmts, []).count(name) - derefs
                    mode = "out" if derefs == plain and plain >= 1 and nested == 0 and bare == 0 else "inout"
                elif isinstance(mt, tuple) and mt[0] == "arr" or mt == "bptr":
                    mode = "inout"
                elif mt in ("mem", "memarr") or not isinstance(mt, tuple):
                    mode = "in"          # a by-value parameter (or a local pointer) that the body updates
                else:
                    broken(fn, f"parameter {name} of type {mt} is written")
            elif is_ref:
                broken(fn, f"pointer parameter {name} is never written")
            if is_ref:
                refs.add(name)
            params.append([name, mt, mode])
        rmt = None if ret == "void" else (VEC.get(ret) or SCALAR.get(ret) or broken(fn, f"return type {ret}"))
        sig = Sig(fn, params, rmt)
        sig.finish()
        return sig, refs


def count_pat(t, pat):
    if t == pat:
        return 1
    if isinstance(t, (tuple, list)):
        return sum(count_pat(x, pat) for x in t)
    return 0


def count_sched(t, name):
    if isinstance(t, tuple) and len(t) == 3 and t[0] == "index" and t[1] == ("id", "MSG_SCHEDULE") and t[2] == ("id", name):
        return 1
    if isinstance(t, (tuple, list)):
        return sum(count_sched(x, name) for x in t)
    return 0


# ---- straight-line liveness (for the pieces of a split function)

def stmt_rw(G, st, fn):
    """(upward-exposed reads, whole writes, partial writes) of one straight-line statement"""
    k = st[0]
    if k == "decl":
        return set(ids_of(st[4], [])) if st[4] is not None else set(), ({st[2]} if (st[4] is not None or st[3] is not None) else set()), set()
    if k == "assign":
        _, op, lhs, rhs = st
        reads = set(ids_of(rhs, []))
        if lhs[0] == "id":
            if op != "=":
                reads.add(lhs[1])
            return reads, {lhs[1]}, set()
        if lhs[0] == "un" and lhs[1] == "*" and lhs[2][0] == "id":
            return reads, {lhs[2][1]}, set()
        if lhs[0] == "index":
            b = base_var(lhs)
            return reads | set(ids_of(lhs[2], [])) | {b}, set(), {b}
        broken(fn, "split function: assignment target")
    if k == "call":
        name, args = st[1], st[2]
        reads, whole, part = set(), set(), set()
        modes = None
        if name in G.sigs:
            modes = [p[2] for p in G.sigs[name].params]
        for i, a in enumerate(args):
            mode = modes[i] if modes else ("inout" if (name in WRAP_STORE and i == 1) or (name in STORES and i == 0) else "in")
            if mode == "in":
                reads |= set(ids_of(a, []))
            elif mode == "out" and a[0] == "un" and a[1] == "&" and a[2][0] == "id":
                whole.add(a[2][1])
            else:
                b = base_var(a)
                reads |= set(ids_of(a, []))
                part.add(b)
        return reads, whole, part
    broken(fn, f"split function: statement {k} (only straight-line code can be cut)")


def pieces_of(fn, stmts, rule):
    if rule[0] == "chunks":
        n = rule[1]
        return [stmts[i:i + n] for i in range(0, len(stmts), n)]
    var = rule[1]
    is_run = lambda s: s[0] == "assign" and s[1] == "=" and s[2] == ("id", var)
    out, cur = [], []
    for i, s in enumerate(stmts):
        if is_run(s) and not (i > 0 and is_run(stmts[i - 1])) and cur:
            out.append(cur)
            cur = []
        cur.append(s)
    out.append(cur)
    return out


def emit_function(G, fn, ret, ptext, body_text):
    p = Parser(fn, lex(fn, body_text), G.macros)
    stmts = p.block()
    if not p.eof():
        broken(fn, "text after the function body")
    sig, refs = G.make_sig(fn, ret, ptext, stmts)
    G.sigs[fn] = sig
    tr = Tr(G, fn, sig)
    tr.refs = refs
    final = None
    if stmts and stmts[-1][0] == "return":
        final = stmts[-1][1]
        stmts = stmts[:-1]
    if (sig.ret is None) != (final is None):
        broken(fn, "return value and return type do not agree")
    outs = [p[0] for p in sig.outs]
    head_params = "".join(f" ({lname(n)} : {lean_ty(mt)})" for n, mt, mode in sig.params if mode != "out")
    lines = []
    rule = SPLIT.get(fn) or (("chunks", AUTO_CHUNK) if len(stmts) >= AUTO_CHUNK_FROM else None)
    defs = []
    if rule is None:
        tr.block(stmts, lines, "  ")
    else:
        pcs = pieces_of(fn, stmts, rule)
        rws = [[stmt_rw(G, s, fn) for s in pc] for pc in pcs]
        exposed, whole, touched = [], [], []
        for rw in rws:
            ex, wh, to = set(), set(), set()
            for r, w, pt in rw:
                ex |= (r | pt) - wh
                wh |= w
                to |= w | pt
            exposed.append(ex)
            whole.append(wh)
            touched.append(to)
        for i, pc in enumerate(pcs):
            later = set(outs)
            for j in range(len(pcs) - 1, i, -1):
                later = (later - whole[j]) | exposed[j]
            if final is not None:
                broken(fn, "split function with a return value")
            sub_lines = []
            before_undef = set(tr.undef)
            params = [v for v in tr.env if v in exposed[i] and v not in tr.undef]
            ptxt = "".join(f" ({lname(v)} : {lean_ty(tr.env[v])})" for v in params)
            tr.block(pc, sub_lines, "  ")
            live = [v for v in tr.env if v in later and v in touched[i] and v not in tr.undef]
            name = f"{fn}_part{i + 1}"
            sub_lines.append(f"  {tr.tup(live)}")
            defs.append(f"def {name}{ptxt} : {tr.tupty(live)} :=\n" + "\n".join(sub_lines) + "\n")
            r = f"p{i + 1}"
            lines.append(f"  let {r} := {name}" + "".join(f" {lname(v)}" for v in params))
            tr.unpack(r, live, lines, "  ")
    for o in outs:
        if o in tr.undef:
            broken(fn, f"the result *{o} is not assigned")
    if final is not None:
        res = tr.coerce(tr.ex(final), sig.ret)
        if outs:
            res = "(" + ", ".join([res] + [lname(o) for o in outs]) + ")"
    else:
        if not outs:
            broken(fn, "function without any effect")
        res = tr.tup(outs)
    lines.append(f"  {res}")
    text = "".join(d + "\n" for d in tr.aux) + "".join(d + "\n" for d in defs)
    text += f"def {fn}{head_params} : {sig.lean_ret()} :=\n" + "\n".join(lines) + "\n"
    return text


def check_wrapper(G, fn, ptext, body_text):
    """loadu_N / storeu_N must be the plain wrappers"""
    p = Parser(fn, lex(fn, body_text), G.macros)
    stmts = p.block()
    params = G.parse_params(fn, ptext)
    if fn in WRAP_LOAD:
        want = [("return", ("call", WRAP_LOAD[fn], [("cast", ("void", 1, False), ("id", params[0][1]))]))] if len(params) == 1 else None
        ok = len(params) == 1 and params[0][0] == ("uint8_t", 0, True) and params[0][2] is not None
    else:
        want = [("call", WRAP_STORE[fn], [("cast", ("void", 1, False), ("id", params[1][1])), ("id", params[0][1])])] if len(params) == 2 else None
        ok = len(params) == 2 and params[0][0][0] == {"_mm_storeu_si128": "__m128i", "_mm256_storeu_si256": "__m256i", "_mm512_storeu_si512": "__m512i"}[WRAP_STORE[fn]] and params[1][0] == ("uint8_t", 0, False)
    if not ok or stmts != want:
        broken(fn, "is not the plain wrapper of its load / store intrinsic any more")


def gen_c_avx512():
    G = Generator()
    for name in ("BLAKE3_BLOCK_LEN", "BLAKE3_OUT_LEN", "BLAKE3_KEY_LEN"):
        G.macros[name] = (None, ("num", X.c_define_int(ART, "c/blake3.h", name)))
    # from c/blake3_impl.h: counter_low / counter_high (translated by G3 into B3.Gen.C) and load_block_words (here)
    G.sigs["counter_low"] = Sig("counter_low", [["counter", "u64", "in"]], "u32")
    G.sigs["counter_high"] = Sig("counter_high", [["counter", "u64", "in"]], "u32")
    G.sigs["load32"] = None
    out = [HEADER]
    ptext, body = X.find_fn(ART, IMPL_H, r"INLINE\s+void\s+load_block_words\s*\(")
    out.append("/-- c/blake3_impl.h; `load32(&block[4i])` of a byte array viewed as little-endian words is word `i` -/")
    out.append(emit_load_block_words(G, ptext, body))
    raw = X.src(REL)
    text = G.preprocess(REL, raw)
    seen = set()
    for fn, ret, ptext, body, s, e in G.functions(REL, text):
        if fn in seen:
            broken(fn, "defined twice")
        seen.add(fn)
        X.record_span(ART, REL, s, e)
        if fn in WRAP_LOAD or fn in WRAP_STORE:
            check_wrapper(G, fn, ptext, body)
            continue
        out.append(emit_function(G, fn, ret, ptext, body))
    missing = [w for w in list(WRAP_LOAD) + list(WRAP_STORE) if w not in seen]
    for need in ("blake3_compress_in_place_avx512", "blake3_compress_xof_avx512", "blake3_hash_many_avx512",
                 "blake3_xof_many_avx512"):
        if need not in seen:
            broken(need, f"function not found in {REL}")
    out.append("end B3.Gen.CAvx512\n")
    return "\n".join(out)


def emit_load_block_words(G, ptext, body):
    """`block_words[i] = load32(&block[i * 4])`: with `block` viewed as words this is `block_words[i] = block[i]`"""
    fn = "load_block_words"
    p = Parser(fn, lex(fn, "{" + body + "}"), G.macros)
    stmts = p.block()

    def rewrite(t):
        if isinstance(t, tuple):
            if t[0] == "call" and t[1] == "load32":
                a = t[2][0] if len(t[2]) == 1 else None
                if a and a[0] == "un" and a[1] == "&" and a[2][0] == "index":
                    return ("load32w", a[2][1], a[2][2])
                broken(fn, "load32 of something that is not &array[offset]")
            return tuple(rewrite(x) for x in t)
        if isinstance(t, list):
            return [rewrite(x) for x in t]
        return t

    stmts = rewrite(stmts)
    sig, refs = G.make_sig(fn, "void", ptext, stmts)
    G.sigs[fn] = sig
    tr = Tr(G, fn, sig)
    base_ex = tr.ex

    def ex(e):
        if e[0] == "load32w":
            arr, off = e[1], const_eval(e[2])
            mt = tr.env.get(arr[1]) if arr[0] == "id" else None
            if not (isinstance(mt, tuple) and mt[0] == "bwords") or off is None or off % 4 or not 0 <= off // 4 < mt[1]:
                broken(fn, "load32: not a constant word-aligned offset into a const byte array")
            return Val(f"({lname(arr[1])}[{off // 4}]'(by decide))", "u32")
        return base_ex(e)

    tr.ex = ex
    lines = []
    tr.block(stmts, lines, "  ")
    outs = [p[0] for p in sig.outs]
    lines.append(f"  {tr.tup(outs)}")
    head = "".join(f" ({lname(n)} : {lean_ty(mt)})" for n, mt, mode in sig.params if mode != "out")
    return f"def {fn}{head} : {sig.lean_ret()} :=\n" + "\n".join(lines) + "\n"


# ------------------------------------------------------------------------------------------------
# second view of round_fn4/8/16: the list of their statements as data (see lean/B3/Simd/RProg.lean); the proofs
# check (kernel) that the translated function is the interpretation of this list

ART_PROG = "G21-c-avx512-prog"
ROP_PREFIX = [("add_", "add"), ("xor_", "xor"), ("rot16_", "rot16"), ("rot12_", "rot12"), ("rot8_", "rot8"), ("rot7_", "rot7")]


def gen_c_avx512_prog():
    def bad(fn, what):
        raise X.TranslationBroken(ART_PROG, f"{fn}: {what}")

    G = Generator()
    text = G.preprocess(REL, X.src(REL))
    out = ["/- GENERATED by gen/ext_simd_avx512.py from /repo/c/blake3_avx512.c -- do not edit -/",
           "/- the statements `v[d] = op(x, y)` of round_fn4 / round_fn8 / round_fn16 as data: `.v k` = v[k],",
           "   `.m j` = m[(size_t)MSG_SCHEDULE[r][j]]; the operation is named after the prefix of the function called",
           "   (add_ xor_ rot16_ rot12_ rot8_ rot7_); B3/Simd/CAvx512Rounds.lean checks each list against the translated function -/",
           "import B3.Simd.RProg", "namespace B3.Gen.CAvx512", "open B3.Simd B3.Simd.C512", ""]
    found = 0
    for fn, ret, ptext, body, s, e in G.functions(REL, text):
        if not re.fullmatch(r"round_fn\d+", fn):
            continue
        found += 1
        params = G.parse_params(fn, ptext)
        if len(params) != 3 or ret != "void":
            bad(fn, "signature is not (v[16], m[16], r)")
        va, ma, ra = params[0][1], params[1][1], params[2][1]
        stmts = Parser(fn, lex(fn, body), G.macros).block()

        def arg(a):
            if a[0] == "index" and a[1] == ("id", va):
                k = const_eval(a[2])
                if k is None or not 0 <= k < 16:
                    bad(fn, "state index is not a constant below 16")
                return f".v {k}"
            if a[0] == "index" and a[1] == ("id", ma):
                i = a[2]
                if i[0] == "cast" and i[1] == ("size_t", 0, False):
                    i = i[2]
                if i[0] == "index" and i[1] == ("index", ("id", "MSG_SCHEDULE"), ("id", ra)):
                    j = const_eval(i[2])
                    if j is None or not 0 <= j < 16:
                        bad(fn, "schedule index is not a constant below 16")
                    return f".m {j}"
            bad(fn, "operand that is neither v[k] nor m[MSG_SCHEDULE[r][j]]")

        items = []
        for st in stmts:
            if not (st[0] == "assign" and st[1] == "=" and st[2][0] == "index" and st[2][1] == ("id", va) and st[3][0] == "call"):
                bad(fn, "statement that is not v[d] = f(…)")
            d = const_eval(st[2][2])
            if d is None or not 0 <= d < 16:
                bad(fn, "destination index is not a constant below 16")
            name, args = st[3][1], st[3][2]
            op = next((o for pre, o in ROP_PREFIX if name.startswith(pre)), None)
            if op is None:
                bad(fn, f"unknown operation {name}")
            if len(args) != (2 if op in ("add", "xor") else 1):
                bad(fn, f"{name}: {len(args)} arguments")
            a = arg(args[0])
            b = arg(args[1]) if len(args) == 2 else a
            items.append(f"⟨{d}, .{op}, {a}, {b}⟩")
        out.append(f"def {fn}_prog : List RStmt := [")
        for i in range(0, len(items), 4):
            out.append("  " + ", ".join(items[i:i + 4]) + ("," if i + 4 < len(items) else "]"))
        out.append("")
    if found != 3:
        bad("round_fn", f"{found} round functions found, 3 expected")
    out.append("end B3.Gen.CAvx512\n")
    return "\n".join(out)


ARTEFACTS = [("CAvx512.lean", ART, gen_c_avx512), ("CAvx512Prog.lean", ART_PROG, gen_c_avx512_prog)]
