"""
G35-build-rs   build.rs                              ->  lean/B3/Gen/BuildRs.lean   (namespace B3.Gen.BuildRs)
G36-cfg-gates  src/lib.rs, src/platform.rs,          ->  lean/B3/Gen/CfgGates.lean  (namespace B3.Gen.CfgGates)
               src/ffi_*.rs, the kernel module files

G35  Every `fn` of build.rs is translated statement by statement from the source text, except the two that probe the
     machine the script runs on (`c_compiler_support`, `use_msvc_asm`: their results are fields of the generated `Env`)
     and `warn` / `is_ci` (only reachable from `c_compiler_support`).  A function that only reads is code in `P`
     (`none` = panic), one that prints `cargo::rustc-cfg=` lines / compiles files / `panic!`s is code in the writer `B`
     (vocabulary: lean/B3/BuildCfgPrim.lean).  The top-level statements of `main` become `main_s1 .. main_sN` and
     `main` runs them in order.  `enum CCompilerSupport` is translated from its declaration.  For every file handed to
     `cc::Build::file(..)` the symbols that file defines (assembly: `.global`/`public` + label / `PROC`; C: non-static
     function definitions) and the functions it declares without defining are listed (`fileSymbols`).
G36  `mod` declarations of src/lib.rs, `enum Platform`, every `match self` of `impl Platform`, `Platform::detect`, the
     `*_detected` functions, the constructors, the `cfg_if!` constants of src/platform.rs, the functions of every kernel
     module file (`#[path]` files of lib.rs + portable.rs) with the `crate::<module>::f` / `ffi::sym` references they
     make, the `extern "C"` imports and `no_mangle` exports of src/ffi_*.rs -- each with the `#[cfg(..)]` predicates
     in force, parsed into `Cfg` terms.

Everything is derived from the text (comments stripped, whitespace irrelevant).  A shape that is not understood raises
TranslationBroken(<artefact>, "<function>: <what>").
"""
import json
import re

import extract as X

A35 = "G35-build-rs"
A36 = "G36-cfg-gates"
BUILD_RS = "build.rs"
LIB = "src/lib.rs"
PLAT = "src/platform.rs"

# functions of build.rs whose result is a field of `Env` (they probe the host: C compiler, $CC, cross compilation)
PARAM_FNS = {"c_compiler_support", "use_msvc_asm"}
# functions only reachable from PARAM_FNS
UNREACHED_FNS = {"warn", "is_ci"}


class Ctx:
    art = A35


def broken(fn, what):
    raise X.TranslationBroken(Ctx.art, f"{fn}: {what}")


def q(s):
    return json.dumps(s, ensure_ascii=False)


def nows(s):
    return re.sub(r"\s+", "", s)


def read(rel):
    try:
        return X.src(rel)
    except OSError as ex:
        raise X.TranslationBroken(Ctx.art, f"cannot read {rel}: {ex}")


def strip_comments_rs(text):
    """remove // and /* */ comments, respecting string and char literals; newlines are kept"""
    out = []
    i, n = 0, len(text)
    while i < n:
        c = text[i]
        if c == '"':
            j = i + 1
            while j < n and text[j] != '"':
                j += 2 if text[j] == "\\" else 1
            out.append(text[i:j + 1])
            i = j + 1
        elif c == "'" and re.match(r"'(\\.|[^\\'])'", text[i:]):
            m = re.match(r"'(\\.|[^\\'])'", text[i:])
            out.append(m.group(0))
            i += m.end()
        elif text.startswith("//", i):
            j = text.find("\n", i)
            i = n if j < 0 else j
        elif text.startswith("/*", i):
            j = text.find("*/", i + 2)
            j = n if j < 0 else j + 2
            out.append(re.sub(r"[^\n]", " ", text[i:j]))
            i = j
        else:
            out.append(c)
            i += 1
    return "".join(out)


_stripped = {}


def stripped(rel):
    if rel not in _stripped:
        _stripped[rel] = strip_comments_rs(read(rel))
    return _stripped[rel]


def record(rel, S, start, end):
    """record a span given by offsets in the stripped text (line structure is that of the original)"""
    import hashlib
    l0 = S.count("\n", 0, start) + 1
    l1 = S.count("\n", 0, end) + 1
    lines = read(rel).split("\n")[l0 - 1:l1]
    X.SPANS.append((Ctx.art, rel, l0, l1, hashlib.sha256("\n".join(lines).encode()).hexdigest()[:16]))


# ================================================================================================
# a small Rust front end (tokens, expressions, statements) -- enough for build.rs
# ================================================================================================

TOK = re.compile(r"""
    (?P<ws>\s+)
  | (?P<str>"(?:\\.|[^"\\])*")
  | (?P<num>\d+)
  | (?P<id>[A-Za-z_]\w*)
  | (?P<op>::|&&|\|\||==|!=|->|=>|[-!&|=.,;()\[\]{}?<>:*\#+/%])
""", re.X)


def tokenize(text, fn):
    toks = []
    i = 0
    while i < len(text):
        m = TOK.match(text, i)
        if not m:
            broken(fn, f"cannot tokenize at {text[i:i + 30]!r}")
        i = m.end()
        if m.lastgroup == "ws":
            continue
        toks.append((m.lastgroup, m.group(m.lastgroup)))
    return toks


def unescape(lit, fn):
    """value of a Rust string literal (with its quotes)"""
    body = lit[1:-1]
    out = []
    i = 0
    while i < len(body):
        c = body[i]
        if c == "\\":
            d = body[i + 1:i + 2]
            if d in ('"', "\\", "'"):
                out.append(d)
            elif d == "n":
                out.append("\n")
            elif d == "t":
                out.append("\t")
            else:
                broken(fn, f"escape \\{d} in string literal {lit} not understood")
            i += 2
        else:
            out.append(c)
            i += 1
    return "".join(out)


class Parser:
    def __init__(self, toks, fn):
        self.t, self.i, self.fn = toks, 0, fn

    def peek(self, k=0):
        return self.t[self.i + k] if self.i + k < len(self.t) else (None, None)

    def at(self, v, k=0):
        return self.peek(k)[1] == v

    def next(self):
        tok = self.peek()
        self.i += 1
        return tok

    def expect(self, v):
        kind, val = self.next()
        if val != v:
            broken(self.fn, f"`{v}` expected, found `{val}`")

    def done(self):
        return self.i >= len(self.t)

    # ---- expressions: || < && < ==,!= < unary < postfix
    def expr(self):
        return self.p_or()

    def p_or(self):
        l = self.p_and()
        while self.at("||"):
            self.next()
            l = ("bin", "||", l, self.p_and())
        return l

    def p_and(self):
        l = self.p_cmp()
        while self.at("&&"):
            self.next()
            l = ("bin", "&&", l, self.p_cmp())
        return l

    def p_cmp(self):
        l = self.p_unary()
        if self.at("==") or self.at("!="):
            op = self.next()[1]
            l = ("bin", op, l, self.p_unary())
            if self.at("==") or self.at("!="):
                broken(self.fn, "chained comparison")
        elif self.peek()[1] in ("<", ">", "+", "-", "/", "%") or (self.at("*")):
            broken(self.fn, f"operator `{self.peek()[1]}` not understood")
        return l

    def p_unary(self):
        if self.at("!"):
            self.next()
            return ("not", self.p_unary())
        if self.at("&"):
            self.next()
            if self.at("mut"):
                self.next()
            return ("ref", self.p_unary())
        if self.at("&&"):
            self.next()
            return ("ref", ("ref", self.p_unary()))
        if self.at("*"):
            self.next()
            return ("deref", self.p_unary())
        if self.at("|"):  # closure |a, b| body
            self.next()
            params = []
            while not self.at("|"):
                k, v = self.next()
                if k != "id":
                    broken(self.fn, "closure parameter not understood")
                params.append(v)
                if self.at(","):
                    self.next()
            self.next()
            return ("closure", params, self.expr())
        return self.p_postfix()

    def args(self, close):
        out = []
        while not self.at(close):
            if self.done():
                broken(self.fn, f"`{close}` expected")
            out.append(self.expr())
            if self.at(","):
                self.next()
            elif not self.at(close):
                broken(self.fn, f"`,` or `{close}` expected, found `{self.peek()[1]}`")
        self.next()
        return out

    def p_postfix(self):
        e = self.p_primary()
        while True:
            if self.at("("):
                self.next()
                e = ("call", e, self.args(")"))
            elif self.at("["):
                self.next()
                idx = self.expr()
                self.expect("]")
                e = ("index", e, idx)
            elif self.at("."):
                self.next()
                k, name = self.next()
                if k != "id":
                    broken(self.fn, f"method or field name expected after `.`, found `{name}`")
                if self.at("("):
                    self.next()
                    e = ("method", e, name, self.args(")"))
                else:
                    e = ("field", e, name)
            elif self.at("?"):
                self.next()
                e = ("try", e)
            else:
                return e

    def p_primary(self):
        k, v = self.peek()
        if k == "str":
            self.next()
            return ("str", unescape(v, self.fn))
        if k == "num":
            self.next()
            return ("int", int(v))
        if v == "(":
            self.next()
            if self.at(")"):
                self.next()
                return ("unit",)
            e = self.expr()
            self.expect(")")
            return ("paren", e)
        if v == "[":
            self.next()
            return ("array", self.args("]"))
        if v == "if":
            return self.p_if()
        if v == "unsafe" and self.at("{", 1):
            self.next()
            return ("block", self.block())
        if v == "{":
            return ("block", self.block())
        if k == "id":
            if v in ("match", "while", "loop", "return", "break", "continue", "let", "for", "move", "as"):
                broken(self.fn, f"`{v}` expression not understood")
            segs = [self.next()[1]]
            while self.at("::"):
                self.next()
                k2, v2 = self.next()
                if k2 != "id":
                    broken(self.fn, f"path segment expected after `::`, found `{v2}`")
                segs.append(v2)
            if self.at("!"):
                if self.at("=", 1) or self.peek(1)[1] == "!=":
                    pass
                elif self.peek(1)[1] in ("(", "[", "{"):
                    self.next()
                    opener = self.next()[1]
                    closer = {"(": ")", "[": "]", "{": "}"}[opener]
                    return ("macro", "::".join(segs), self.args(closer))
            if segs == ["true"]:
                return ("bool", True)
            if segs == ["false"]:
                return ("bool", False)
            return ("path", segs)
        broken(self.fn, f"expression expected, found `{v}`")

    def p_if(self):
        self.expect("if")
        if self.at("let"):
            self.next()
            pat = []
            while not self.at("="):
                if self.done():
                    broken(self.fn, "`=` expected in `if let`")
                pat.append(self.next()[1])
            self.next()
            scrut = self.expr()
            then = self.block()
            els = self.p_else()
            return ("iflet", pat, scrut, then, els)
        cond = self.expr()
        then = self.block()
        return ("if", cond, then, self.p_else())

    def p_else(self):
        if not self.at("else"):
            return None
        self.next()
        if self.at("if"):
            return [("tail", self.p_if())]
        return self.block()

    # ---- statements
    def block(self):
        self.expect("{")
        stmts = []
        while not self.at("}"):
            if self.done():
                broken(self.fn, "`}` expected")
            stmts.append(self.stmt())
        self.next()
        return stmts

    def stmt(self):
        k, v = self.peek()
        if v == "let":
            self.next()
            mut = False
            if self.at("mut"):
                self.next()
                mut = True
            k2, name = self.next()
            if k2 != "id":
                broken(self.fn, f"`let` pattern `{name}` not understood")
            if self.at(":"):
                broken(self.fn, f"`let {name}: <type>` not understood")
            if self.at(";"):
                self.next()
                return ("let", name, mut, None)
            self.expect("=")
            e = self.expr()
            self.expect(";")
            return ("let", name, mut, e)
        if v == "for":
            self.next()
            k2, name = self.next()
            if k2 != "id":
                broken(self.fn, f"`for` pattern `{name}` not understood")
            self.expect("in")
            it = self.expr()
            body = self.block()
            return ("for", name, it, body)
        if v in ("const", "static", "fn", "use", "struct", "enum", "impl", "mod", "#"):
            broken(self.fn, f"item or attribute `{v} ..` inside a function body not understood")
        e = self.expr()
        if self.at("="):
            self.next()
            rhs = self.expr()
            self.expect(";")
            if e[0] != "path" or len(e[1]) != 1:
                broken(self.fn, "assignment to something that is not a variable")
            return ("assign", e[1][0], rhs)
        if self.at(";"):
            self.next()
            return ("expr", e)
        if self.at("}"):
            return ("tail", e)
        if e[0] in ("if", "iflet", "block"):
            return ("expr", e)
        broken(self.fn, f"`;` expected, found `{self.peek()[1]}`")


def show(e):
    """an expression as compact source text (for messages and docstrings)"""
    k = e[0]
    if k == "str":
        return json.dumps(e[1])
    if k == "int":
        return str(e[1])
    if k == "bool":
        return "true" if e[1] else "false"
    if k == "unit":
        return "()"
    if k == "path":
        return "::".join(e[1])
    if k == "paren":
        return "(" + show(e[1]) + ")"
    if k == "call":
        return show(e[1]) + "(" + ", ".join(show(a) for a in e[2]) + ")"
    if k == "method":
        return show(e[1]) + "." + e[2] + "(" + ", ".join(show(a) for a in e[3]) + ")"
    if k == "field":
        return show(e[1]) + "." + e[2]
    if k == "index":
        return show(e[1]) + "[" + show(e[2]) + "]"
    if k == "not":
        return "!" + show(e[1])
    if k == "ref":
        return "&" + show(e[1])
    if k == "deref":
        return "*" + show(e[1])
    if k == "bin":
        return show(e[2]) + " " + e[1] + " " + show(e[3])
    if k == "macro":
        return e[1] + "!(" + ", ".join(show(a) for a in e[2]) + ")"
    if k == "try":
        return show(e[1]) + "?"
    if k == "array":
        return "[" + ", ".join(show(a) for a in e[1]) + "]"
    if k == "closure":
        return "|" + ", ".join(e[1]) + "| " + show(e[2])
    if k == "if":
        return "if " + show(e[1]) + " {..}"
    if k == "iflet":
        return "if let " + " ".join(e[1]) + " = " + show(e[2]) + " {..}"
    if k == "block":
        return "{..}"
    return "?"


# ================================================================================================
# G35: build.rs
# ================================================================================================

LEAN_KEYWORDS = {"end", "from", "at", "do", "then", "in", "fun", "let", "have", "show", "open", "def", "theorem", "if",
                 "else", "match", "with", "where", "namespace", "section", "variable", "import", "instance", "class",
                 "structure", "inductive", "by", "using", "calc", "for", "return", "mut", "local", "private", "file"}

RET_TYPES = {"": "Unit", "bool": "Bool", "String": "String", "Vec<String>": "List String", "cc::Build": "CcBuild",
             "Result<(),Box<dynstd::error::Error>>": "Unit"}

DROPPED_PRINT_PREFIXES = ("cargo::rerun-if-env-changed=", "cargo::rerun-if-changed=")


def lname(n):
    return n + "_" if n in LEAN_KEYWORDS else n


class Fn:
    def __init__(self, name, params, ret, body_toks, span):
        self.name, self.params, self.ret, self.body_toks, self.span = name, params, ret, body_toks, span
        self.body = None
        self.kind = None  # "P" | "B"


def parse_build_rs():
    """top-level items of build.rs: ({fn name: Fn}, order, enums {name: [variants]}, glob-imported enums)"""
    S = stripped(BUILD_RS)
    fns, order, enums, globs = {}, [], {}, set()
    i, n = 0, len(S)
    while True:
        while i < n and S[i].isspace():
            i += 1
        if i >= n:
            break
        m = re.compile(r"use\s+([\w:]+(?:::\*)?)\s*;").match(S, i)
        if m:
            p = m.group(1)
            if p.endswith("::*"):
                globs.add(p[:-3])
            elif p != "std::env":
                broken("build.rs", f"`use {p};` not understood")
            i = m.end()
            continue
        start = i
        attrs = []
        while S.startswith("#[", i):
            j = X.match_brace(S, i + 1, "[", "]")
            attrs.append(nows(S[i + 2:j - 1]))
            i = j
            while i < n and S[i].isspace():
                i += 1
        m = re.compile(r"enum\s+(\w+)\s*\{").match(S, i)
        if m:
            j = X.match_brace(S, m.end() - 1)
            body = S[m.end():j - 1]
            vs = [v.strip() for v in body.split(",") if v.strip()]
            for v in vs:
                if not re.match(r"^\w+$", v):
                    broken(f"enum {m.group(1)}", f"variant `{v}` not understood")
            if any(a not in ("derive(PartialEq)",) for a in attrs):
                broken(f"enum {m.group(1)}", f"attributes {attrs} not understood")
            if "derive(PartialEq)" not in attrs:
                broken(f"enum {m.group(1)}", "no #[derive(PartialEq)]: `==` on it would not compile")
            enums[m.group(1)] = vs
            record(BUILD_RS, S, start, j)
            i = j
            continue
        m = re.compile(r"fn\s+(\w+)\s*\(").match(S, i)
        if m:
            if attrs:
                broken(f"fn {m.group(1)}", f"attributes {attrs} not understood")
            p1 = X.match_brace(S, m.end() - 1, "(", ")")
            b0 = S.index("{", p1)
            b1 = X.match_brace(S, b0)
            ret = nows(S[p1:b0])
            if ret.startswith("->"):
                ret = ret[2:]
            elif ret:
                broken(f"fn {m.group(1)}", f"signature tail `{ret}` not understood")
            params = []
            ptxt = S[m.end():p1 - 1].strip()
            if ptxt:
                for p in ptxt.split(","):
                    mp = re.match(r"^\s*(\w+)\s*:\s*(.+?)\s*$", p, re.S)
                    if not mp:
                        broken(f"fn {m.group(1)}", f"parameter `{p}` not understood")
                    params.append((mp.group(1), nows(mp.group(2))))
            name = m.group(1)
            if name in fns:
                broken(f"fn {name}", "defined twice")
            fns[name] = Fn(name, params, ret, S[b0:b1], (start, b1))
            order.append(name)
            i = b1
            continue
        broken("build.rs", f"top-level item not understood: {S[i:i + 50]!r}")
    return S, fns, order, enums, globs


class BuildTr:
    """translation of the function bodies of build.rs"""

    def __init__(self, fns, enums, globs):
        self.fns, self.enums = fns, enums
        self.enum_of_variant = {}
        for en, vs in enums.items():
            for v in vs:
                if en in globs:
                    if v in self.enum_of_variant:
                        broken(f"enum {en}", f"variant {v} is ambiguous")
                    self.enum_of_variant[v] = en
        self.consulted = []   # environment variables read, in order of first appearance
        self.files = []       # files handed to build.file(..)
        self.dropped = []     # statements dropped, as text
        self.consts = []      # (lean name, type, value, doc) hoisted out of main

    # ---- classification P / B
    def classify(self):
        translated = [f for f in self.fns.values() if f.name not in PARAM_FNS and f.name not in UNREACHED_FNS]
        for f in translated:
            p = Parser(tokenize(f.body_toks, f"fn {f.name}"), f"fn {f.name}")
            f.body = p.block()
            if not p.done():
                broken(f"fn {f.name}", "text after the function body")
        writes = {}
        calls = {}

        def scan(node, acc_w, acc_c):
            if isinstance(node, tuple):
                if node and node[0] == "macro":
                    if node[1] == "println" and node[2] and node[2][0][0] == "str":
                        if not node[2][0][1].startswith(DROPPED_PRINT_PREFIXES):
                            acc_w.append("println")
                    elif node[1] == "panic":
                        acc_w.append("panic")
                if node and node[0] == "method" and node[2] == "compile":
                    acc_w.append("compile")
                if node and node[0] == "call" and node[1][0] == "path":
                    pth = node[1][1]
                    if len(pth) == 1:
                        acc_c.append(pth[0])
                    if pth in (["env", "set_var"], ["std", "fs", "remove_file"], ["std", "fs", "read_dir"]):
                        acc_w.append("::".join(pth))
                for x in node:
                    scan(x, acc_w, acc_c)
            elif isinstance(node, list):
                for x in node:
                    scan(x, acc_w, acc_c)

        for f in translated:
            w, c = [], []
            scan(f.body, w, c)
            writes[f.name], calls[f.name] = bool(w), c
        changed = True
        kind = {f.name: ("B" if writes[f.name] else "P") for f in translated}
        while changed:
            changed = False
            for f in translated:
                if kind[f.name] == "P" and any(kind.get(c) == "B" for c in calls[f.name]):
                    kind[f.name] = "B"
                    changed = True
        for f in translated:
            f.kind = kind[f.name]
        self.calls = calls
        for f in self.fns.values():
            if f.name in UNREACHED_FNS or f.name in PARAM_FNS:
                continue
            for c in calls[f.name]:
                if c in UNREACHED_FNS:
                    broken(f"fn {f.name}", f"calls `{c}`, which is not translated")
        return translated

    def note_var(self, e, fn):
        if e[0] == "str":
            if e[1] not in self.consulted:
                self.consulted.append(e[1])

    # ---- expressions
    # pure(e): a Lean term of the value's type; monadic parts appear as `(← ..)` (hoisted by `do`, left to right: Rust's order)
    # inP(e):  a Lean term of type `P τ`
    def pure(self, e, cx):
        fn = cx["fn"]
        k = e[0]
        if k == "str":
            return q(e[1])
        if k == "int":
            return str(e[1])
        if k == "bool":
            return "true" if e[1] else "false"
        if k == "paren":
            return "(" + self.pure(e[1], cx) + ")"
        if k == "ref" or k == "deref":
            return self.pure(e[1], cx)
        if k == "path":
            if len(e[1]) == 1:
                v = e[1][0]
                if v in cx["locals"]:
                    return lname(v)
                if v in self.enum_of_variant:
                    return f"{self.enum_of_variant[v]}.{v}"
                broken(fn, f"name `{v}` not understood")
            if len(e[1]) == 2 and e[1][0] in self.enums and e[1][1] in self.enums[e[1][0]]:
                return f"{e[1][0]}.{e[1][1]}"
            broken(fn, f"path `{show(e)}` not understood")
        if k == "not":
            return "!" + self.atom(e[1], cx)
        if k == "bin":
            op = e[1]
            if op in ("==", "!=") or not self.monadic(e):
                return f"{self.atom(e[2], cx)} {op} {self.atom(e[3], cx)}"
            return f"(← {self.inP(e, cx)})"
        if k == "index":
            if e[2][0] != "int":
                broken(fn, f"index `{show(e[2])}` is not a literal")
            return f"(← Rt.index {self.atom(e[1], cx)} {e[2][1]})"
        if k == "call":
            callee, args = e[1], e[2]
            if callee[0] == "path":
                pth = callee[1]
                if pth in (["env", "var"], ["env", "var_os"]):
                    if len(args) != 1:
                        broken(fn, f"`{show(e)}`: one argument expected")
                    self.note_var(args[0], fn)
                    return f"e.var {self.atom(args[0], cx)}"
                if len(pth) == 1 and pth[0] in PARAM_FNS and pth[0] in self.fns:
                    if args:
                        broken(fn, f"`{show(e)}`: arguments to a host-probing function")
                    return f"e.{pth[0]}"
                if pth == ["cc", "Build", "new"] and not args:
                    return "CcBuild.new"
            return f"(← {self.inP(e, cx)})"
        if k == "method":
            recv, name, args = e[1], e[2], e[3]
            # env::var("X").unwrap()  /  env::var_os(v).is_some()
            if name == "unwrap" and not args:
                return f"(← Rt.unwrap {self.atom(recv, cx)})"
            if name == "is_some" and not args:
                return f"({self.pure(recv, cx)}).isSome"
            if name == "is_none" and not args:
                return f"({self.pure(recv, cx)}).isNone"
            if name == "to_string" and not args:
                return self.pure(recv, cx)
            if name == "collect" and not args:
                # x.split("c").map(|s| s.to_string()).collect()
                if recv[0] == "method" and recv[2] == "map" and len(recv[3]) == 1:
                    clo = recv[3][0]
                    inner = recv[1]
                    if (clo[0] == "closure" and len(clo[1]) == 1 and clo[2] == ("method", ("path", [clo[1][0]]), "to_string", [])
                            and inner[0] == "method" and inner[2] == "split" and len(inner[3]) == 1 and inner[3][0][0] == "str"
                            and len(inner[3][0][1]) == 1):
                        return f"Rt.split {self.atom(inner[1], cx)} {self.char(inner[3][0][1])}"
                broken(fn, f"`{show(e)}`: only `x.split(\"c\").map(|s| s.to_string()).collect()` is understood")
            broken(fn, f"method call `{show(e)}` not understood")
        if k == "macro":
            broken(fn, f"macro `{show(e)}` in expression position not understood")
        broken(fn, f"expression `{show(e)}` not understood")

    def char(self, c):
        return "'" + ("\\'" if c == "'" else "\\\\" if c == "\\" else c) + "'"

    def atom(self, e, cx):
        s = self.pure(e, cx)
        if re.match(r'^[\w.]+$', s) or s.startswith('"') or (s.startswith("(") and s.endswith(")") and self.balanced(s)):
            return s
        return "(" + s + ")"

    @staticmethod
    def balanced(s):
        d = 0
        for i, c in enumerate(s):
            if c == "(":
                d += 1
            elif c == ")":
                d -= 1
                if d == 0 and i != len(s) - 1:
                    return False
        return d == 0

    def inP(self, e, cx):
        fn = cx["fn"]
        k = e[0]
        if k == "paren":
            return self.inP(e[1], cx)
        if not self.monadic(e):
            return f"some ({self.pure(e, cx)})"
        if k == "bin" and e[1] in ("&&", "||"):
            op = "Rt.and" if e[1] == "&&" else "Rt.or"
            return f"{op} ({self.inP(e[2], cx)}) ({self.inP(e[3], cx)})"
        if k == "call":
            callee, args = e[1], e[2]
            if callee[0] != "path":
                broken(fn, f"call `{show(e)}` not understood")
            pth = callee[1]
            if len(pth) == 1 and pth[0] in self.fns:
                g = self.fns[pth[0]]
                if g.name in UNREACHED_FNS:
                    broken(fn, f"calls `{g.name}`, which is not translated")
                if g.kind != "P":
                    broken(fn, f"`{show(e)}`: a function that writes is used as a value")
                if len(args) != len(g.params):
                    broken(fn, f"`{show(e)}`: wrong number of arguments")
                for a in args:
                    if g.name == "defined":
                        self.note_var(a, fn)
                if any(self.monadic(a) for a in args):
                    return "do " + " ".join([g.name, "e"] + [self.atom(a, cx) for a in args])
                return " ".join([g.name, "e"] + [self.atom(a, cx) for a in args])
            broken(fn, f"call `{show(e)}` not understood")
        if k == "not":
            return f"(fun x => !x) <$> ({self.inP(e[1], cx)})"
        return f"do pure ({self.pure(e, cx)})"

    def monadic(self, e):
        k = e[0]
        if k in ("str", "int", "bool", "path", "unit"):
            return False
        if k in ("paren", "ref", "deref", "not"):
            return self.monadic(e[1])
        if k == "bin":
            return self.monadic(e[2]) or self.monadic(e[3])
        if k == "method" and e[2] in ("is_some", "is_none", "to_string"):
            return self.monadic(e[1])
        if k == "method" and e[2] == "collect" and e[1][0] == "method" and e[1][1][0] == "method":
            return self.monadic(e[1][1][1])
        if k == "call" and e[1][0] == "path":
            pth = e[1][1]
            if pth in (["env", "var"], ["env", "var_os"]) or pth == ["cc", "Build", "new"]:
                return any(self.monadic(a) for a in e[2])
            if len(pth) == 1 and pth[0] in PARAM_FNS:
                return False
        return True

    # ---- statements
    def block(self, stmts, cx, ind, tail_value):
        """lines of a do-block; tail_value: the last statement is the block's value"""
        out = []
        cx = dict(cx, locals=dict(cx["locals"]))
        for idx, s in enumerate(stmts):
            last = idx == len(stmts) - 1
            out += self.stmt(s, cx, ind, last and tail_value)
        if not out or (not tail_value and False):
            out.append(ind + "pure ()")
        return out

    def value(self, e, cx):
        """`<bind op> <term>` for `let x = e`: ("←", P-or-B term) or (":=", pure term)"""
        if cx["kind"] == "P":
            t = self.pure(e, cx)
            if t.startswith("(← ") and t.endswith(")") and self.balanced(t):
                return "←", t[3:-1]
            return ":=", t
        if self.monadic(e):
            return "←", f"B.ofP {q(show(e))} ({self.inP(e, cx)})"
        return ":=", self.pure(e, cx)

    def cond(self, e, cx):
        if cx["kind"] == "P":
            return f"(← {self.inP(e, cx)})" if self.monadic(e) else self.pure(e, cx)
        if self.monadic(e):
            return f"(← B.ofP {q(show(e))} ({self.inP(e, cx)}))"
        return self.pure(e, cx)

    def if_lines(self, e, cx, ind, tail_value, first="if"):
        out = []
        if e[0] == "if":
            out.append(f"{ind}{first} {self.cond(e[1], cx)} then")
            out += self.block(e[2], cx, ind + "  ", tail_value)
            els = e[3]
        else:  # iflet
            pat, scrut, then, els = e[1], e[2], e[3], e[4]
            mut = "mut" in pat
            names = [p for p in pat if re.match(r"^\w+$", p) and p not in ("Some", "mut")]
            if pat[:2] != ["Some", "("] or pat[-1] != ")" or len(names) != 1:
                broken(cx["fn"], f"`if let {' '.join(pat)}` not understood")
            if self.monadic(scrut) and not (scrut[0] == "call" and scrut[1] == ("path", ["env", "var_os"])):
                broken(cx["fn"], f"`if let .. = {show(scrut)}`: scrutinee not understood")
            self.note_var(scrut[2][0], cx["fn"]) if scrut[0] == "call" else None
            sc = f"e.var {self.atom(scrut[2][0], cx)}" if scrut[0] == "call" else self.pure(scrut, cx)
            v = lname(names[0])
            out.append(f"{ind}{first} let some {v}0 := {sc} then")
            cx2 = dict(cx, locals=dict(cx["locals"]))
            cx2["locals"][names[0]] = "string"
            out.append(f"{ind}  let {'mut ' if mut else ''}{v} := {v}0")
            out += self.block(then, cx2, ind + "  ", tail_value)
        if els is None:
            if tail_value:
                broken(cx["fn"], "`if` without `else` used as a value")
            return out
        if len(els) == 1 and els[0][0] == "tail" and els[0][1][0] in ("if", "iflet"):
            out += self.if_lines(els[0][1], cx, ind, tail_value, first="else if")
        else:
            out.append(f"{ind}else")
            out += self.block(els, cx, ind + "  ", tail_value)
        return out

    def println(self, e, cx, ind):
        fn = cx["fn"]
        args = e[2]
        if not args or args[0][0] != "str":
            broken(fn, f"`{show(e)}`: format string expected")
        fmt = args[0][1]
        if fmt.startswith(DROPPED_PRINT_PREFIXES):
            self.dropped.append(f"{fn}: {show(e)}")
            return []
        for prefix, ctor in (("cargo::rustc-cfg=", "rustcCfg"), ("cargo::rustc-check-cfg=", "rustcCheckCfg")):
            if fmt.startswith(prefix):
                rest = fmt[len(prefix):]
                parts = re.split(r"(\{\w*\})", rest)
                pos = 1
                terms = []
                for p in parts:
                    if p == "":
                        continue
                    m = re.match(r"^\{(\w*)\}$", p)
                    if m:
                        if m.group(1):
                            if m.group(1) not in cx["locals"]:
                                broken(fn, f"`{show(e)}`: `{{{m.group(1)}}}` is not a local")
                            terms.append(lname(m.group(1)))
                        else:
                            if pos >= len(args):
                                broken(fn, f"`{show(e)}`: missing format argument")
                            terms.append(self.atom(args[pos], cx))
                            pos += 1
                    else:
                        if "{" in p or "}" in p:
                            broken(fn, f"`{show(e)}`: format string not understood")
                        terms.append(q(p))
                if pos != len(args):
                    broken(fn, f"`{show(e)}`: unused format arguments")
                if cx["kind"] != "B":
                    broken(fn, "internal: println in a read-only function")
                return [f"{ind}emit (.{ctor} ({' ++ '.join(terms) if terms else q('')}))"]
        broken(fn, f"`{show(e)}`: only cargo::rustc-cfg= / cargo::rustc-check-cfg= / cargo::rerun-if-* lines are understood")

    def stmt(self, s, cx, ind, is_value):
        fn = cx["fn"]
        k = s[0]
        if k == "let":
            name, mut, e = s[1], s[2], s[3]
            if self.is_remove_file(s):
                if cx["kind"] != "B":
                    broken(fn, "internal: remove_file in a read-only function")
                return [f"{ind}emit (.removeFile {q(e[2][0][1])})"]
            if name == "_":
                broken(fn, f"`let _ = {show(e) if e else ''}` not understood")
            if e is None:
                broken(fn, f"`let {name};` without initialiser not understood")
            if e[0] in ("if", "iflet", "block"):
                broken(fn, f"`let {name} = {show(e)}` not understood")
            if e[0] == "array":
                if not all(x[0] == "str" for x in e[1]):
                    broken(fn, f"`let {name} = [..]`: only string literals are understood")
                cx["locals"][name] = "strlist"
                return [f"{ind}let {'mut ' if mut else ''}{lname(name)} : List String := [{', '.join(q(x[1]) for x in e[1])}]"]
            op, term = self.value(e, cx)
            cx["locals"][name] = self.guess_type(e, cx)
            return [f"{ind}let {'mut ' if mut else ''}{lname(name)} {op} {term}"]
        if k == "assign":
            name, e = s[1], s[2]
            if name not in cx["locals"]:
                broken(fn, f"assignment to unknown variable `{name}`")
            op, term = self.value(e, cx)
            if op == "←":
                return [f"{ind}{lname(name)} ← {term}"]
            return [f"{ind}{lname(name)} := {term}"]
        if k == "for":
            name, it, body = s[1], s[2], s[3]
            if it[0] == "try" and it[1][0] == "call" and it[1][1] == ("path", ["std", "fs", "read_dir"]):
                arg = it[1][2]
                if len(arg) != 1 or arg[0][0] != "str":
                    broken(fn, f"`{show(it)}`: literal path expected")
                for b in body:
                    if not (b[0] == "expr" and b[1][0] == "macro" and b[1][1] == "println" and b[1][2] and b[1][2][0][0] == "str"
                            and b[1][2][0][1].startswith(DROPPED_PRINT_PREFIXES)):
                        broken(fn, f"`for {name} in {show(it)}`: the body does more than print rerun-if lines")
                    self.dropped.append(f"{fn}: for {name} in {show(it)} {{ {show(b[1])} }}")
                if cx["kind"] != "B":
                    broken(fn, "internal: read_dir in a read-only function")
                return [f"{ind}emit (.readDir {q(arg[0][1])})"]
            if it[0] == "path" and len(it[1]) == 1 and cx["locals"].get(it[1][0]) == "strlist":
                cx2 = dict(cx, locals=dict(cx["locals"]))
                cx2["locals"][name] = "string"
                out = [f"{ind}for {lname(name)} in {lname(it[1][0])} do"]
                out += self.block(body, cx2, ind + "  ", False)
                return out
            broken(fn, f"`for {name} in {show(it)}` not understood")
        if k in ("expr", "tail"):
            e = s[1]
            if e[0] in ("if", "iflet"):
                return self.if_lines(e, cx, ind, is_value and k == "tail")
            if e[0] == "block":
                return self.block(e[1], cx, ind, is_value and k == "tail")
            if e[0] == "macro":
                if e[1] == "println":
                    return self.println(e, cx, ind)
                if e[1] == "panic":
                    if len(e[2]) != 1 or e[2][0][0] != "str" or "{" in e[2][0][1]:
                        broken(fn, f"`{show(e)}`: a literal message is expected")
                    if cx["kind"] == "P":
                        return [f"{ind}none"]
                    return [f"{ind}B.panic {q(e[2][0][1])}"]
                if e[1] == "assert":
                    if len(e[2]) != 1:
                        broken(fn, f"`{show(e)}`: assert! with a message not understood")
                    c = e[2][0]
                    if cx["kind"] == "P":
                        return [f"{ind}Rt.assert {self.atom_cond(c, cx)}"]
                    return [f"{ind}B.assert {q(show(c))} ({self.inP(c, cx)})"]
                broken(fn, f"macro `{show(e)}` not understood")
            if k == "tail" and is_value:
                if e == ("call", ("path", ["Ok"]), [("unit",)]):
                    return [f"{ind}pure ()"]
                if cx["kind"] == "P":
                    if self.monadic(e):
                        t = self.inP(e, cx)
                        return [f"{ind}{t[3:] if t.startswith('do ') else t}"]
                    return [f"{ind}pure {self.atom(e, cx)}"]
                broken(fn, f"value `{show(e)}` at the end of a writing function not understood")
            # calls with effects
            if e[0] == "method" and e[1][0] == "path" and len(e[1][1]) == 1:
                var, name, args = e[1][1][0], e[2], e[3]
                ty = cx["locals"].get(var)
                if ty == "ccbuild":
                    if name in ("file", "flag") and len(args) == 1 and args[0][0] == "str":
                        if name == "file" and args[0][1] not in self.files:
                            self.files.append(args[0][1])
                        return [f"{ind}{lname(var)} := {lname(var)}.{name} {q(args[0][1])}"]
                    if name == "emit_rerun_if_env_changed" and len(args) == 1 and args[0][0] == "bool":
                        return [f"{ind}{lname(var)} := {lname(var)}.emit_rerun_if_env_changed {self.pure(args[0], cx)}"]
                    if name == "compile" and len(args) == 1 and args[0][0] == "str":
                        if cx["kind"] != "B":
                            broken(fn, "internal: compile in a read-only function")
                        return [f"{ind}emit (.compile {q(args[0][1])} {lname(var)})"]
                    broken(fn, f"`{show(e)}`: cc::Build method not understood")
                if ty == "string" and name == "push" and len(args) == 1 and args[0][0] == "str":
                    return [f"{ind}{lname(var)} := {lname(var)} ++ {q(args[0][1])}"]
                broken(fn, f"`{show(e)}` not understood (`{var}` is {ty or 'unknown'})")
            if e[0] == "call" and e[1][0] == "path":
                pth, args = e[1][1], e[2]
                if pth == ["env", "set_var"] and len(args) == 2 and args[0][0] == "str":
                    return [f"{ind}emit (.setEnv {q(args[0][1])} {self.atom(args[1], cx)})"]
                if len(pth) == 1 and pth[0] in self.fns and self.fns[pth[0]].kind == "B":
                    g = self.fns[pth[0]]
                    if cx["kind"] != "B":
                        broken(fn, "internal: call of a writing function from a read-only one")
                    if len(args) != len(g.params):
                        broken(fn, f"`{show(e)}`: wrong number of arguments")
                    return [ind + " ".join([g.name, "e"] + [self.atom(a, cx) for a in args])]
            broken(fn, f"statement `{show(e)}` not understood")
        broken(fn, f"statement kind {k} not understood")

    def atom_cond(self, c, cx):
        if self.monadic(c):
            return f"(← {self.inP(c, cx)})"
        return "(" + self.pure(c, cx) + ")"

    def guess_type(self, e, cx):
        if e[0] == "call" and e[1][0] == "path":
            pth = e[1][1]
            if len(pth) == 1 and pth[0] in self.fns:
                r = self.fns[pth[0]].ret
                return {"cc::Build": "ccbuild", "String": "string", "bool": "bool"}.get(r, "other")
            if pth == ["cc", "Build", "new"]:
                return "ccbuild"
        if e[0] == "bool":
            return "bool"
        if e[0] == "method" and e[2] == "unwrap" and e[1][0] == "call" and e[1][1] == ("path", ["env", "var"]):
            return "string"
        return "other"

    # `let _ = std::fs::remove_file("..");`
    def is_remove_file(self, s):
        return (s[0] == "let" and s[1] == "_" and s[3] is not None and s[3][0] == "call" and s[3][1] == ("path", ["std", "fs", "remove_file"])
                and len(s[3][2]) == 1 and s[3][2][0][0] == "str")


def lean_ret(f):
    if f.ret in RET_TYPES:
        return RET_TYPES[f.ret]
    if re.match(r"^\w+$", f.ret):
        return f.ret
    broken(f"fn {f.name}", f"return type `{f.ret}` not understood")


PARAM_TYPES = {"&str": "String", "bool": "Bool", "String": "String"}


def first_line(text):
    t = " ".join(text.split())
    return t if len(t) <= 110 else t[:107] + "..."


# ---- symbols defined by the files handed to the C compiler


def asm_symbols(rel):
    fn = rel
    text = read(rel)
    masm = rel.endswith(".asm")
    lines = text.split("\n")
    depth = 0
    globs, labels = [], []
    for ln in lines:
        code = ln
        if masm:
            code = code.split(";", 1)[0]
        else:
            code = re.sub(r"/\*.*?\*/", "", code)
            code = code.split("//", 1)[0]
        s = code.strip()
        if not s:
            continue
        if not masm and s.startswith("#"):
            d = s[1:].strip()
            if re.match(r"^(if|ifdef|ifndef)\b", d):
                depth += 1
            elif re.match(r"^endif\b", d):
                depth -= 1
            continue
        if masm:
            m = re.match(r"^(?:public|PUBLIC)\s+(\w+)\s*$", s)
            if m:
                globs.append(m.group(1))
                continue
            m = re.match(r"^(\w+)\s+(?:PROC|proc)\b", s)
            if m:
                labels.append(m.group(1))
                continue
            if re.match(r"^(if|ifdef|ifndef|IF|IFDEF|IFNDEF)\b", s):
                depth += 1
            elif re.match(r"^(endif|ENDIF)\b", s):
                depth -= 1
        else:
            m = re.match(r"^\.(?:global|globl)\s+(\w+)\s*$", s)
            if m:
                if depth:
                    broken(fn, f"`.global {m.group(1)}` inside a preprocessor conditional")
                globs.append(m.group(1))
                continue
            m = re.match(r"^([A-Za-z_]\w*):", s)
            if m:
                if depth and m.group(1) in globs:
                    broken(fn, f"label `{m.group(1)}` inside a preprocessor conditional")
                labels.append(m.group(1))
    for g in globs:
        if globs.count(g) > 1:
            broken(fn, f"symbol `{g}` declared global twice")
    for l in set(labels):
        if labels.count(l) > 1 and l in globs:
            broken(fn, f"global label `{l}` defined twice")
    defined = [g for g in globs if g in labels]
    missing = [g for g in globs if g not in labels]
    if missing:
        broken(fn, f"declared global but never defined: {missing}")
    return defined, []


def c_symbols(rel):
    """(non-static functions defined, functions declared but not defined) of a C file; a definition under #if is refused"""
    fn = rel
    text = read(rel)
    text = re.sub(r"/\*.*?\*/", lambda m: re.sub(r"[^\n]", " ", m.group(0)), text, flags=re.S)
    text = re.sub(r"//[^\n]*", "", text)
    # join continued lines of macro definitions, then blank preprocessor lines (tracking conditionals by line)
    lines = text.split("\n")
    cond_depth = []
    depth = 0
    cont = False
    for idx, ln in enumerate(lines):
        s = ln.strip()
        is_pp = cont or s.startswith("#")
        if is_pp:
            d = s[1:].strip() if s.startswith("#") and not cont else ""
            if re.match(r"^(if|ifdef|ifndef)\b", d):
                depth += 1
            elif re.match(r"^endif\b", d):
                depth -= 1
            cont = ln.rstrip().endswith("\\")
            lines[idx] = ""
        cond_depth.append(depth)
    text = "\n".join(lines)
    defined, declared = [], []
    i, n = 0, len(text)
    brace = 0
    stmt_start = 0
    while i < n:
        c = text[i]
        if c == '"':
            j = i + 1
            while j < n and text[j] != '"':
                j += 2 if text[j] == "\\" else 1
            i = j + 1
            continue
        if c == "{":
            if brace == 0:
                head = text[stmt_start:i]
                m = re.search(r"(\w+)\s*\(", head)
                if m and not re.search(r"\b(struct|union|enum)\b[^()]*$", head) and "=" not in head:
                    name = m.group(1)
                    quals = head[:m.start()]
                    line = text.count("\n", 0, i)
                    if not re.search(r"\b(static|INLINE)\b", quals):
                        if cond_depth[line]:
                            broken(fn, f"function `{name}` is defined inside a preprocessor conditional")
                        defined.append(name)
            brace += 1
        elif c == "}":
            brace -= 1
            if brace == 0:
                stmt_start = i + 1
        elif c == ";" and brace == 0:
            head = text[stmt_start:i]
            m = re.search(r"(\w+)\s*\(", head)
            if m and "=" not in head and not re.search(r"\b(static|INLINE|typedef)\b", head[:m.start()]) and head.strip():
                declared.append(m.group(1))
            stmt_start = i + 1
        i += 1
    for d in defined:
        if defined.count(d) > 1:
            broken(fn, f"function `{d}` defined twice")
    return defined, [d for d in dict.fromkeys(declared) if d not in defined]


def cargo_features():
    """the [features] table of Cargo.toml: [(name, [enabled items])]"""
    rel = "Cargo.toml"
    text = read(rel)
    lines = text.split("\n")
    start = None
    for i, ln in enumerate(lines):
        if ln.strip() == "[features]":
            if start is not None:
                broken(rel, "two [features] tables")
            start = i
    if start is None:
        broken(rel, "no [features] table")
    out = []
    end = start
    for j in range(start + 1, len(lines)):
        ln = lines[j].split("#", 1)[0].strip() if '"#' not in lines[j] else lines[j].strip()
        if ln.startswith("["):
            break
        end = j
        if not ln:
            continue
        m = re.match(r'^([A-Za-z0-9_-]+)\s*=\s*\[(.*)\]$', ln)
        if not m:
            broken(rel, f"[features]: line not understood: {ln!r}")
        items = [x.strip() for x in m.group(2).split(",") if x.strip()]
        vals = []
        for it in items:
            mm = re.match(r'^"([^"]*)"$', it)
            if not mm:
                broken(rel, f"[features]: value not understood: {it!r}")
            vals.append(mm.group(1))
        if any(n == m.group(1) for n, _ in out):
            broken(rel, f"[features]: {m.group(1)} defined twice")
        out.append((m.group(1), vals))
    import hashlib
    X.SPANS.append((A35, rel, start + 1, end + 1, hashlib.sha256("\n".join(lines[start:end + 1]).encode()).hexdigest()[:16]))
    return out


def gen_build_rs():
    Ctx.art = A35
    S, fns, order, enums, globs = parse_build_rs()
    for need in ("main",) + tuple(PARAM_FNS):
        if need not in fns:
            broken("build.rs", f"fn {need} not found")
    tr = BuildTr(fns, enums, globs)
    translated = tr.classify()
    o = []
    o.append("/- GENERATED by gen/ext_buildcfg.py from build.rs, Cargo.toml ([features]) and the files build.rs hands to the C compiler -- do not edit -/")
    o.append("import B3.BuildCfgPrim")
    o.append("set_option linter.unusedVariables false")
    o.append("namespace B3.Gen.BuildRs")
    o.append("open B3 B3.Dispatch B3.BuildCfg")
    o.append("")
    for en, vs in enums.items():
        o.append(f"/-- `enum {en}` (build.rs) -/")
        o.append(f"inductive {en} where")
        for v in vs:
            o.append(f"  | {v}")
        o.append("deriving DecidableEq, Repr")
        o.append("")
    o.append("/-- what the build script reads.  `var` is the process environment (`env::var` / `env::var_os`; values are assumed")
    o.append("to be Unicode); the other fields are the results of the functions that probe the host and are not translated:")
    for p in sorted(PARAM_FNS):
        f = fns[p]
        if f.params:
            broken(f"fn {p}", "a host-probing function with parameters")
        o.append(f"`{p}() -> {f.ret}`,")
    o.append("(`warn`, `is_ci` are only reachable from `c_compiler_support`; in CI `warn` ends the script with exit code 1). -/")
    o.append("structure Env where")
    o.append("  var : String → Option String")
    for p in sorted(PARAM_FNS):
        f = fns[p]
        rt = lean_ret(f)
        if rt not in ("Bool",) and rt not in enums:
            broken(f"fn {p}", f"return type `{f.ret}` of a host-probing function not understood")
        o.append(f"  {p} : {rt}")
        record(BUILD_RS, S, f.span[0], f.span[0] + S[f.span[0]:].index("{"))
    o.append("")

    defs = []
    for f in translated:
        if f.name == "main":
            continue
        record(BUILD_RS, S, f.span[0], f.span[1])
        cx = {"fn": f"fn {f.name}", "kind": f.kind, "locals": {}}
        params = ["(e : Env)"]
        for pn, pt in f.params:
            if pt not in PARAM_TYPES:
                broken(f"fn {f.name}", f"parameter type `{pt}` not understood")
            params.append(f"({lname(pn)} : {PARAM_TYPES[pt]})")
            cx["locals"][pn] = "string" if PARAM_TYPES[pt] == "String" else "bool"
        rt = lean_ret(f)
        is_value = rt != "Unit"
        body = tr.block(f.body, cx, "  ", is_value)
        sig = f"fn {f.name}({', '.join(a + ': ' + b for a, b in f.params)})" + (f" -> {f.ret}" if f.ret else "")
        rts = f"({rt})" if " " in rt else rt
        defs.append((f, f"/-- `{sig}` -/", f"def {f.name} {' '.join(params)} : {f.kind} {rts} := do", body))
    # main: one definition per top-level statement
    mainf = fns["main"]
    if mainf.params:
        broken("fn main", "parameters")
    record(BUILD_RS, S, mainf.span[0], mainf.span[1])
    cx = {"fn": "fn main", "kind": "B", "locals": {}}
    main_defs = []
    body = list(mainf.body)
    if not body or body[-1] != ("tail", ("call", ("path", ["Ok"]), [("unit",)])):
        broken("fn main", "`Ok(())` expected as the last expression")
    body = body[:-1]
    hoisted = {}
    k = 0
    for s in body:
        if s[0] == "let" and s[3] is not None and s[3][0] == "array":
            if s[2]:
                broken("fn main", f"`let mut {s[1]} = [..]` at the top level of main")
            if not all(x[0] == "str" for x in s[3][1]):
                broken("fn main", f"`let {s[1]} = [..]`: only string literals are understood")
            hoisted[s[1]] = "strlist"
            o.append(f"/-- `let {s[1]} = [..];` in `main` -/")
            o.append(f"def main_{s[1]} : List String := [{', '.join(q(x[1]) for x in s[3][1])}]")
            o.append("")
            continue
        if s[0] == "let" and not tr.is_remove_file(s):
            broken("fn main", f"`let {s[1]} = {show(s[3]) if s[3] else ''}` at the top level of main not understood (only literal arrays are)")
        k += 1
        cxk = dict(cx, locals={h: t for h, t in hoisted.items()})
        pre = [f"  let {lname(h)} := main_{h}" for h in hoisted if uses(s, h)]
        lines = pre + tr.stmt(s, cxk, "  ", False)
        doc = first_line(show(s[1]) if s[0] in ("expr", "tail") else f"for {s[1]} in {show(s[2])} {{..}}" if s[0] == "for" else f"let {s[1]} = {show(s[3])}")
        if not lines:
            lines = ["  pure ()"]
        main_defs.append((k, doc, lines))
    by_name = {f.name: (f, doc, head, bl) for f, doc, head, bl in defs}
    emitted, ordered = set(), []

    def visit(name, stack):
        if name in emitted or name not in by_name:
            return
        if name in stack:
            broken(f"fn {name}", "recursive")
        for c in tr.calls[name]:
            visit(c, stack + [name])
        emitted.add(name)
        ordered.append(by_name[name])

    for f, _, _, _ in defs:
        visit(f.name, [])
    for f, doc, head, body_lines in ordered:
        o.append(doc)
        o.append(head)
        o += body_lines
        o.append("")
    for k, doc, lines in main_defs:
        o.append(f"/-- statement {k} of `main`: `{doc}` -/")
        o.append(f"def main_s{k} (e : Env) : B Unit := do")
        o += lines
        o.append("")
    o.append("/-- the statements of `main`, in order -/")
    o.append("def mainStmts (e : Env) : List (B Unit) := [" + ", ".join(f"main_s{k} e" for k, _, _ in main_defs) + "]")
    o.append("")
    o.append("/-- `fn main()`: its statements in order (`Ok(())` at the end) -/")
    o.append("def main (e : Env) : B Unit := do")
    for k, _, _ in main_defs:
        o.append(f"  main_s{k} e")
    o.append("")
    o.append("/-- environment variables the translated functions read, in order of first appearance -/")
    o.append(f"def consultedVars : List String := [{', '.join(q(v) for v in tr.consulted)}]")
    o.append("")
    feats = cargo_features()
    o.append("/-- the `[features]` table of Cargo.toml: feature, what it enables -/")
    o.append("def cargoFeatures : List (String × List String) := [")
    o.append(",\n".join(f"  ({q(n)}, [{', '.join(q(x) for x in vs)}])" for n, vs in feats) + "]")
    o.append("")
    o.append("/-- the files handed to `cc::Build::file`, in order of first appearance -/")
    o.append(f"def sourceFiles : List String := [{', '.join(q(v) for v in tr.files)}]")
    o.append("")
    rows = []
    for rel in tr.files:
        if rel.endswith((".S", ".asm")):
            d, u = asm_symbols(rel)
        elif rel.endswith(".c"):
            d, u = c_symbols(rel)
        else:
            broken("build.rs", f"file `{rel}`: unknown kind")
        import hashlib
        X.SPANS.append((A35, rel, 1, read(rel).count("\n") + 1, hashlib.sha256(read(rel).encode()).hexdigest()[:16]))
        rows.append(f"  ({q(rel)}, [{', '.join(q(x) for x in d)}], [{', '.join(q(x) for x in u)}])")
    o.append("/-- per file handed to the C compiler: the global symbols it defines (assembly: declared `.global` / `public` and")
    o.append("labelled; C: functions defined without `static` / `INLINE`) and the functions it declares without defining -/")
    o.append("def fileSymbols : List (String × List String × List String) := [")
    o.append(",\n".join(rows) + "]")
    o.append("")
    o.append("/-! dropped (no effect on what is compiled):")
    for d in tr.dropped:
        o.append(f"  * {d}")
    o.append("-/")
    o.append("")
    o.append("end B3.Gen.BuildRs")
    return "\n".join(o) + "\n"


def uses(node, name):
    if isinstance(node, tuple):
        if node and node[0] == "path" and node[1] == [name]:
            return True
        if node and node[0] == "macro":
            for a in node[2]:
                if a[0] == "str" and ("{" + name + "}") in a[1]:
                    return True
        return any(uses(x, name) for x in node)
    if isinstance(node, list):
        return any(uses(x, name) for x in node)
    return False


# ================================================================================================
# G36: the #[cfg] gates of the crate
# ================================================================================================

IGNORED_ATTRS = re.compile(r"^(allow|inline|derive|doc|deprecated|must_use|target_feature|test|cfg_attr)\b|^unsafe\s*\(\s*no_mangle\s*\)$")


def parse_cfg(text, fn):
    """a cfg predicate as a Lean `Cfg` term"""
    toks = re.findall(r'"[^"]*"|\w+|[(),=]', text)
    if "".join(toks) != nows(text):
        broken(fn, f"cfg predicate `{text}` not understood")
    pos = [0]

    def peek():
        return toks[pos[0]] if pos[0] < len(toks) else None

    def nxt():
        t = peek()
        pos[0] += 1
        return t

    def pred():
        name = nxt()
        if name is None or not re.match(r"^[A-Za-z_]\w*$", name):
            broken(fn, f"cfg predicate `{text}` not understood")
        if peek() == "(":
            if name not in ("any", "all", "not"):
                broken(fn, f"cfg predicate `{text}`: `{name}(..)` not understood")
            nxt()
            items = []
            while peek() != ")":
                if peek() is None:
                    broken(fn, f"cfg predicate `{text}`: unbalanced")
                items.append(pred())
                if peek() == ",":
                    nxt()
                elif peek() != ")":
                    broken(fn, f"cfg predicate `{text}`: `,` expected")
            nxt()
            if name == "not":
                if len(items) != 1:
                    broken(fn, f"cfg predicate `{text}`: not() takes one argument")
                return f"(.not {items[0]})"
            op, unit = (".or", ".ff") if name == "any" else (".and", ".tt")
            if not items:
                return unit
            acc = items[-1]
            for it in reversed(items[:-1]):
                acc = f"({op} {it} {acc})"
            return acc
        if peek() == "=":
            nxt()
            v = nxt()
            if v is None or not v.startswith('"'):
                broken(fn, f"cfg predicate `{text}`: string expected after `=`")
            return f"(.kv {q(name)} {v})"
        return f"(.flag {q(name)})"

    r = pred()
    if peek() is not None:
        broken(fn, f"cfg predicate `{text}`: trailing tokens")
    return r


def skip_ws(t, i):
    while i < len(t) and t[i].isspace():
        i += 1
    return i


def take_attrs(t, i, fn):
    """attributes at t[i:] -> (gate terms, other attribute texts, index after)"""
    gate, other = [], []
    while True:
        i = skip_ws(t, i)
        if t.startswith("#![", i):
            j = X.match_brace(t, i + 2, "[", "]")
            a = t[i + 3:j - 1].strip()
            if not IGNORED_ATTRS.match(a):
                broken(fn, f"inner attribute #![{a}] not understood")
            i = j
            continue
        if t.startswith("#[", i):
            j = X.match_brace(t, i + 1, "[", "]")
            a = t[i + 2:j - 1].strip()
            m = re.match(r"^cfg\s*\((.*)\)$", a, re.S)
            if m:
                gate.append(parse_cfg(m.group(1), fn))
            elif IGNORED_ATTRS.match(a) or re.match(r'^path\s*=', a):
                other.append(a)
            else:
                broken(fn, f"attribute #[{a}] not understood")
            i = j
            continue
        return gate, other, i


def skip_literal(t, i):
    """if a string / char literal starts at t[i], the index after it, else None"""
    if t[i] == '"':
        j = i + 1
        while j < len(t) and t[j] != '"':
            j += 2 if t[j] == "\\" else 1
        return j + 1
    if t[i] == "'":
        m = re.match(r"'(\\.|[^\\'])'", t[i:])
        if m:
            return i + m.end()
    return None


def close_of(t, i, fn):
    """index after the bracket closing the one at t[i] (string literals skipped)"""
    pairs = {"{": "}", "(": ")", "[": "]"}
    stack = [pairs[t[i]]]
    i += 1
    while i < len(t):
        j = skip_literal(t, i)
        if j is not None:
            i = j
            continue
        c = t[i]
        if c in pairs:
            stack.append(pairs[c])
        elif c in ")]}":
            if c != stack[-1]:
                broken(fn, "unbalanced brackets")
            stack.pop()
            if not stack:
                return i + 1
        i += 1
    broken(fn, "unbalanced brackets")


ITEM_FN = re.compile(r'(?:pub(?:\s*\([^)]*\))?\s+)?(?:const\s+)?(?:unsafe\s+)?(?:extern\s+"C"\s+)?fn\s+(\w+)\s*(?:<[^>(]*>)?\s*\(')
ITEM_SIMPLE = re.compile(r'(?:pub(?:\s*\([^)]*\))?\s+)?(use|const|static|type)\b')
ITEM_MOD = re.compile(r'(?:pub(?:\s*\([^)]*\))?\s+)?mod\s+(\w+)\s*(;|\{)')
ITEM_BLOCK = re.compile(r'(?:pub(?:\s*\([^)]*\))?\s+)?(enum|struct|union|trait)\s+(\w+)[^;{]*\{')
ITEM_IMPL = re.compile(r'(?:unsafe\s+)?impl\b([^;{]*)\{')
ITEM_MACRO = re.compile(r'(macro_rules!\s*\w+|cfg_if::cfg_if!|std::thread_local!|thread_local!)\s*([\{\(])')
ITEM_EXTERN = re.compile(r'(?:unsafe\s+)?extern\s+"C"\s*\{')


def scan_items(t, fn):
    """items of a module body: dicts(kind, name, gate, attrs, body (text inside braces or None), head, start, end)"""
    out = []
    i = 0
    while True:
        i = skip_ws(t, i)
        if i >= len(t):
            return out
        start = i
        gate, other, i = take_attrs(t, i, fn)
        i = skip_ws(t, i)
        if i >= len(t):
            if gate or other:
                broken(fn, "attributes at the end of a block")
            return out
        m = ITEM_FN.match(t, i)
        if m:
            p1 = close_of(t, m.end() - 1, f"{fn}: fn {m.group(1)}")
            k = p1
            depth = 0
            while k < len(t):
                c = t[k]
                if c in "([":
                    depth += 1
                elif c in ")]":
                    depth -= 1
                elif c == "{" and depth == 0:
                    break
                elif c == ";" and depth == 0:
                    break
                k += 1
            if k >= len(t):
                broken(fn, f"fn {m.group(1)}: body not found")
            if t[k] == ";":
                out.append(dict(kind="fndecl", name=m.group(1), gate=gate, attrs=other, body=None, head=t[i:k], start=start, end=k + 1))
                i = k + 1
                continue
            e = close_of(t, k, f"{fn}: fn {m.group(1)}")
            out.append(dict(kind="fn", name=m.group(1), gate=gate, attrs=other, body=t[k + 1:e - 1], head=t[i:k], start=start, end=e,
                            params=t[m.end():p1 - 1]))
            i = e
            continue
        m = ITEM_MOD.match(t, i)
        if m:
            if m.group(2) == ";":
                out.append(dict(kind="moddecl", name=m.group(1), gate=gate, attrs=other, body=None, head=t[i:m.end()], start=start, end=m.end()))
                i = m.end()
            else:
                e = close_of(t, m.end() - 1, f"{fn}: mod {m.group(1)}")
                out.append(dict(kind="mod", name=m.group(1), gate=gate, attrs=other, body=t[m.end():e - 1], head=t[i:m.end()], start=start, end=e))
                i = e
            continue
        m = ITEM_MACRO.match(t, i)
        if m:
            e = close_of(t, m.end() - 1, fn)
            kind = "cfg_if" if m.group(1).startswith("cfg_if") else "macro"
            j = skip_ws(t, e)
            if t[j:j + 1] == ";":
                e = j + 1
            out.append(dict(kind=kind, name=nows(m.group(1)), gate=gate, attrs=other, body=t[m.end():close_of(t, m.end() - 1, fn) - 1], head="", start=start, end=e))
            i = e
            continue
        m = ITEM_EXTERN.match(t, i)
        if m:
            e = close_of(t, m.end() - 1, fn)
            out.append(dict(kind="extern", name="", gate=gate, attrs=other, body=t[m.end():e - 1], head="", start=start, end=e))
            i = e
            continue
        m = ITEM_IMPL.match(t, i)
        if m:
            e = close_of(t, m.end() - 1, fn)
            out.append(dict(kind="impl", name=nows(m.group(1)), gate=gate, attrs=other, body=t[m.end():e - 1], head="", start=start, end=e))
            i = e
            continue
        m = ITEM_BLOCK.match(t, i)
        if m:
            e = close_of(t, m.end() - 1, fn)
            out.append(dict(kind=m.group(1), name=m.group(2), gate=gate, attrs=other, body=t[m.end():e - 1], head="", start=start, end=e))
            i = e
            continue
        m = ITEM_SIMPLE.match(t, i)
        if m:
            k = i
            depth = 0
            while k < len(t):
                j = skip_literal(t, k)
                if j is not None:
                    k = j
                    continue
                c = t[k]
                if c in "([{":
                    depth += 1
                elif c in ")]}":
                    depth -= 1
                elif c == ";" and depth == 0:
                    break
                k += 1
            text = t[i:k]
            name = ""
            mm = re.match(r'(?:pub(?:\s*\([^)]*\))?\s+)?(?:const|static)\s+(?:mut\s+)?(\w+)\s*:', text)
            if mm:
                name = mm.group(1)
            out.append(dict(kind=m.group(1), name=name, gate=gate, attrs=other, body=None, head=text, start=start, end=k + 1))
            i = k + 1
            continue
        broken(fn, f"item not understood: {t[i:i + 60]!r}")


def lgate(g):
    return "[" + ", ".join(g) + "]"


def lstrs(xs):
    return "[" + ", ".join(q(x) for x in xs) + "]"


def cfg_if_branches(body, fn):
    """`if #[cfg(P)] { A } else if #[cfg(Q)] { B } else { C }` -> [(gate terms, text)]"""
    out = []
    negs = []
    i = skip_ws(body, 0)
    first = True
    while True:
        m = re.compile(r"if\s*#\[").match(body, i)
        if m:
            j = X.match_brace(body, m.end() - 1, "[", "]")
            a = body[m.end():j - 1].strip()
            mm = re.match(r"^cfg\s*\((.*)\)$", a, re.S)
            if not mm:
                broken(fn, f"cfg_if!: `#[{a}]` not understood")
            c = parse_cfg(mm.group(1), fn)
            k = skip_ws(body, j)
            if body[k:k + 1] != "{":
                broken(fn, "cfg_if!: `{` expected")
            e = close_of(body, k, fn)
            out.append((negs + [c], body[k + 1:e - 1]))
            negs = negs + [f"(.not {c})"]
            i = skip_ws(body, e)
            if i >= len(body):
                return out
            m2 = re.compile(r"else\b").match(body, i)
            if not m2:
                broken(fn, f"cfg_if!: `else` expected at {body[i:i + 30]!r}")
            i = skip_ws(body, m2.end())
            if body[i:i + 1] == "{":
                e = close_of(body, i, fn)
                out.append((negs, body[i + 1:e - 1]))
                if skip_ws(body, e) < len(body):
                    broken(fn, "cfg_if!: text after the final else block")
                return out
            continue
        broken(fn, f"cfg_if!: `if #[cfg(..)]` expected at {body[i:i + 30]!r}")


def flatten_items(t, fn, gate):
    """items with cfg_if! expanded; every item carries the full gate (outermost first)"""
    out = []
    for it in scan_items(t, fn):
        g = gate + it["gate"]
        if it["kind"] == "cfg_if":
            for bg, text in cfg_if_branches(it["body"], fn):
                out += flatten_items(text, fn, g + bg)
        else:
            out.append(dict(it, gate=g))
    return out


def body_refs(body, fn):
    """(segments) of `crate::m::f(`, `portable::f(`, `ffi::sym(` calls in a function body, in order"""
    refs = []
    for m in re.finditer(r"(?<![\w:])((?:crate|super|self)::)?((?:\w+::)+)(\w+)\s*\(", body):
        segs = ([m.group(1)[:-2]] if m.group(1) else []) + [x for x in m.group(2).split("::") if x] + [m.group(3)]
        refs.append(segs)
    return refs


def parse_arms(t, fn, variants):
    arms = []
    i = 0
    while True:
        i = skip_ws(t, i)
        if i >= len(t):
            break
        gate, other, i = take_attrs(t, i, fn)
        if other:
            broken(fn, f"attributes {other} on a match arm not understood")
        i = skip_ws(t, i)
        j = t.find("=>", i)
        if j < 0:
            broken(fn, f"match arm without `=>`: {t[i:i + 60]!r}")
        pat = t[i:j].strip()
        pats = []
        if pat != "_":
            for p in pat.split("|"):
                m = re.match(r"^\s*Platform::(\w+)\s*$", p)
                if not m:
                    broken(fn, f"match pattern `{pat}` not understood")
                if m.group(1) not in variants:
                    broken(fn, f"match pattern `{pat}`: `{m.group(1)}` is not a variant of Platform")
                pats.append(m.group(1))
        i = skip_ws(t, j + 2)
        m = re.compile(r"unsafe\s*\{").match(t, i)
        if m:
            e = close_of(t, m.end() - 1, fn)
            body, i = t[m.end():e - 1], e
        elif t[i:i + 1] == "{":
            e = close_of(t, i, fn)
            body, i = t[i + 1:e - 1], e
        else:
            depth, k = 0, i
            while k < len(t):
                c = t[k]
                if c in "([{":
                    depth += 1
                elif c in ")]}":
                    depth -= 1
                elif c == "," and depth == 0:
                    break
                k += 1
            body, i = t[i:k], k
        i = skip_ws(t, i)
        if t[i:i + 1] == ",":
            i += 1
        body = body.strip()
        callee, selfcalls = None, []
        m = re.match(r"^([\w:]+)\s*\((.*)\)$", body, re.S)
        if re.match(r"^\d+$", body):
            pass
        elif m and close_of(body, body.index("("), fn) == len(body):
            callee = m.group(1).split("::")
        elif not pats:
            if "#[" in body:
                broken(fn, "attributes inside the `_` arm not understood")
            selfcalls = re.findall(r"\bself\s*\.\s*(\w+)\s*\(", body)
            others = [r for r in body_refs(body, fn) if r[0] in ("crate", "portable", "ffi")]
            if others:
                broken(fn, f"the `_` arm calls {others}")
        else:
            broken(fn, f"arm `{pat}`: body `{first_line(body)}` not understood")
        arms.append((pats, gate, callee, selfcalls))
    if not arms:
        broken(fn, "match without arms")
    return arms


def parse_detect(body, fn, variants, gate):
    steps = []
    i = 0
    while True:
        i = skip_ws(body, i)
        if i >= len(body):
            return steps
        if body.startswith("#[", i):
            g, other, j = take_attrs(body, i, fn)
            if other:
                broken(fn, f"attributes {other} on a block not understood")
            j = skip_ws(body, j)
            if body[j:j + 1] != "{":
                broken(fn, "`#[cfg(..)]` on something that is not a block")
            e = close_of(body, j, fn)
            steps += parse_detect(body[j + 1:e - 1], fn, variants, gate + g)
            i = e
            continue
        if body[i] == "{":
            e = close_of(body, i, fn)
            steps += parse_detect(body[i + 1:e - 1], fn, variants, gate)
            i = e
            continue
        m = re.compile(r"if\s+(\w+)\s*\(\s*\)\s*\{\s*return\s+Platform::(\w+)\s*;\s*\}").match(body, i)
        if m:
            steps.append((gate, m.group(1), m.group(2)))
            i = m.end()
            continue
        m = re.compile(r"if\s+let\s+Some\s*\(\s*(\w+)\s*\)\s*=\s*([\w:]+)\s*\(\s*\)\s*\{\s*return\s+(\w+)\s*;\s*\}").match(body, i)
        if m and m.group(1) == m.group(3):
            steps.append((gate, m.group(2), "<override>"))
            i = m.end()
            continue
        m = re.compile(r"return\s+Platform::(\w+)\s*;").match(body, i)
        if m:
            steps.append((gate, None, m.group(1)))
            i = m.end()
            continue
        m = re.compile(r"Platform::(\w+)\s*$").match(body, i)
        if m:
            steps.append((gate, None, m.group(1)))
            return steps
        broken(fn, f"statement not understood: {first_line(body[i:i + 80])!r}")


def parse_detected(it, fn):
    body = it["body"]
    i = 0
    false_if = []
    while True:
        i = skip_ws(body, i)
        m = re.compile(r"if\s+cfg!\s*\(").match(body, i)
        if not m:
            break
        e = close_of(body, m.end() - 1, fn)
        c = parse_cfg(body[m.end():e - 1], fn)
        m2 = re.compile(r"\s*\{\s*return\s+false\s*;\s*\}").match(body, e)
        if not m2:
            broken(fn, "`if cfg!(..)` that does not `return false`")
        false_if.append(c)
        i = m2.end()
    m = re.compile(r'cpufeatures::new!\s*\(\s*(\w+)\s*((?:,\s*"[^"]*"\s*)+)\)\s*;\s*(\w+)::get\s*\(\s*\)\s*$').match(body, i)
    if not m or m.group(1) != m.group(3):
        broken(fn, f"body not understood: {first_line(body[i:])!r}")
    return false_if, re.findall(r'"([^"]*)"', m.group(2))


def gen_cfg_gates():
    Ctx.art = A36
    o = []
    o.append("/- GENERATED by gen/ext_buildcfg.py from src/lib.rs, src/platform.rs, src/ffi_*.rs and the kernel module files -- do not edit -/")
    o.append("import B3.BuildCfgPrim")
    o.append("namespace B3.Gen.CfgGates")
    o.append("open B3 B3.Dispatch B3.BuildCfg")
    o.append("")

    # ---- src/lib.rs: mod declarations
    L = stripped(LIB)
    mods = []
    has_path = set()
    depth = 0
    i = 0
    modre = re.compile(r"(?:pub(?:\s*\([^)]*\))?\s+)?mod\s+(\w+)\s*(;|\{)")
    while i < len(L):
        j = skip_literal(L, i)
        if j is not None:
            i = j
            continue
        c = L[i]
        if c == "{":
            depth += 1
        elif c == "}":
            depth -= 1
        elif depth == 0 and (c == "m" or c == "p") and (i == 0 or not (L[i - 1].isalnum() or L[i - 1] == "_")):
            m = modre.match(L, i)
            if m:
                # attributes before
                k = i
                attrs_start = i
                while True:
                    kk = k
                    while kk > 0 and L[kk - 1].isspace():
                        kk -= 1
                    if kk > 0 and L[kk - 1] == "]":
                        d, b = 0, kk - 1
                        while b >= 0:
                            if L[b] == "]":
                                d += 1
                            elif L[b] == "[":
                                d -= 1
                                if d == 0:
                                    break
                            b -= 1
                        if b >= 1 and L[b - 1] == "#":
                            k = b - 1
                            attrs_start = k
                            continue
                    break
                gate, other, _ = take_attrs(L[attrs_start:i], 0, f"mod {m.group(1)}")
                path = None
                for a in other:
                    mp = re.match(r'^path\s*=\s*"([^"]*)"$', a)
                    if mp:
                        path = mp.group(1)
                if m.group(2) == "{":
                    path = "(inline)"
                    e = close_of(L, m.end() - 1, f"mod {m.group(1)}")
                else:
                    e = m.end()
                record(LIB, L, attrs_start, m.end())
                mods.append((m.group(1), gate, path or (m.group(1) + ".rs")))
                if path is not None and path != "(inline)":
                    has_path.add(m.group(1))
                i = e
                continue
        i += 1
    if not mods:
        broken("src/lib.rs", "no `mod` declarations found")
    o.append("/-- every `mod` declaration at the top level of src/lib.rs -/")
    o.append("def libMods : List ModDecl := [")
    o.append(",\n".join(f"  ⟨{q(n)}, {lgate(g)}, {q(f)}⟩" for n, g, f in mods) + "]")
    o.append("")

    # ---- src/platform.rs
    Pt = stripped(PLAT)
    record(PLAT, Pt, 0, len(Pt))
    items = flatten_items(Pt, PLAT, [])
    enum = [it for it in items if it["kind"] == "enum" and it["name"] == "Platform"]
    if len(enum) != 1:
        broken(PLAT, "`enum Platform` not found (or not unique)")
    if enum[0]["gate"]:
        broken(PLAT, "`enum Platform` is itself gated")
    variants = []
    vb = enum[0]["body"]
    i = 0
    while True:
        i = skip_ws(vb, i)
        if i >= len(vb):
            break
        g, other, i = take_attrs(vb, i, "enum Platform")
        i = skip_ws(vb, i)
        m = re.compile(r"(\w+)\s*(,|$)").match(vb, i)
        if not m:
            broken("enum Platform", f"variant not understood: {vb[i:i + 40]!r}")
        variants.append((m.group(1), g))
        i = m.end()
    vnames = [v for v, _ in variants]
    o.append("/-- the variants of `enum Platform` (src/platform.rs) -/")
    o.append("def platformVariants : List Variant := [")
    o.append(",\n".join(f"  ⟨{q(n)}, {lgate(g)}⟩" for n, g in variants) + "]")
    o.append("")

    consts = [it for it in items if it["kind"] == "const"]
    o.append("/-- the constants of src/platform.rs (the `cfg_if!` chains): name, gate (a branch of a chain is gated by its")
    o.append("condition and the negations of the conditions before it), value -/")
    o.append("def platformConsts : List (String × List Cfg × String) := [")
    rows = []
    for it in consts:
        m = re.match(r"^.*=\s*(.+)$", it["head"], re.S)
        if not m:
            broken(PLAT, f"const {it['name']}: value not found")
        rows.append(f"  ({q(it['name'])}, {lgate(it['gate'])}, {q(nows(m.group(1)))})")
    o.append(",\n".join(rows) + "]")
    o.append("")

    uses_portable = any(it["kind"] == "use" and re.search(r"\bcrate::\{[^}]*\bportable\b", it["head"]) for it in items) or \
        any(it["kind"] == "use" and re.search(r"\bcrate::portable\b", it["head"]) for it in items)

    impls = [it for it in items if it["kind"] == "impl" and it["name"] == "Platform"]
    if len(impls) != 1:
        broken(PLAT, "`impl Platform` not found (or not unique)")
    if impls[0]["gate"]:
        broken(PLAT, "`impl Platform` is itself gated")
    methods = flatten_items(impls[0]["body"], "impl Platform", [])
    fn_defs = []     # (name, gate)
    refs = []        # (within, gate, target segs)
    meths = []
    detect_steps = None
    for it in methods:
        if it["kind"] != "fn":
            broken("impl Platform", f"item `{it['kind']} {it['name']}` not understood")
        name = f"Platform::{it['name']}"
        fn_defs.append((name, it["gate"]))
        body = it["body"]
        mm = list(re.finditer(r"\bmatch\s+self\s*\{", body))
        if len(mm) > 1:
            broken(name, "more than one `match self`")
        if mm:
            e = close_of(body, mm[0].end() - 1, name)
            rest = body[:mm[0].start()] + body[e:]
            if "#[" in rest:
                broken(name, "attributes outside the `match self` not understood")
            for r in body_refs(rest, name):
                if r[0] in ("crate", "portable", "ffi"):
                    broken(name, f"call of {'::'.join(r)} outside the `match self`")
            arms = parse_arms(body[mm[0].end():e - 1], name, vnames)
            meths.append((it["name"], it["gate"], arms))
            for pats, g, callee, selfcalls in arms:
                if callee is not None and callee[0] == "portable" and not uses_portable:
                    broken(name, "`portable::..` is called but `use crate::portable` was not found")
            continue
        if it["name"] == "detect":
            detect_steps = parse_detect(body, name, vnames, it["gate"])
            for g, test, res in detect_steps:
                if test is not None and "::" not in test:
                    refs.append((name, g, [test]))
                if res != "<override>":
                    if res not in vnames:
                        broken(name, f"`Platform::{res}` is not a variant")
                    refs.append((name, g, ["Platform", res]))
            continue
        b = nows(body)
        m = re.match(r"^Self::(\w+)$", b)
        m2 = re.match(r"^if(\w+)\(\)\{Some\(Self::(\w+)\)\}else\{None\}$", b)
        m3 = re.match(r"^Some\(Self::(\w+)\)$", b)
        if m or m3:
            v = (m or m3).group(1)
        elif m2:
            v = m2.group(2)
            refs.append((name, it["gate"], [m2.group(1)]))
        else:
            broken(name, f"body not understood: {first_line(body)!r}")
        if v not in vnames:
            broken(name, f"`Self::{v}` is not a variant")
        refs.append((name, it["gate"], ["Platform", v]))
    if detect_steps is None:
        broken("impl Platform", "fn detect not found")

    detected = []
    for it in items:
        if it["kind"] == "fn":
            fn_defs.append((it["name"], it["gate"]))
            if it["name"].endswith("_detected"):
                fi, feats = parse_detected(it, f"fn {it['name']}")
                detected.append((it["name"], it["gate"], fi, feats))
            else:
                if "#[" in it["body"]:
                    broken(f"fn {it['name']}", "attributes inside the body not understood")
                for r in body_refs(it["body"], it["name"]):
                    if r[0] in ("crate", "portable", "ffi"):
                        broken(f"fn {it['name']}", f"call of {'::'.join(r)} in a helper of src/platform.rs")
        elif it["kind"] in ("use", "const", "enum", "impl"):
            pass
        elif it["kind"] == "mod":
            pass  # `pub mod verif_hooks` (the verification hook): not scanned
        else:
            broken(PLAT, f"item `{it['kind']} {it['name']}` not understood")
    skipped_mods = [(it["name"], it["gate"]) for it in items if it["kind"] == "mod"]

    o.append("/-- every `match self { .. }` of `impl Platform`, arms in source order -/")
    o.append("def platformMethods : List Method := [")
    rows = []
    for n, g, arms in meths:
        arows = []
        for pats, ag, callee, selfcalls in arms:
            cal = "none" if callee is None else f"(some {lstrs(callee)})"
            arows.append(f"    ⟨{lstrs(pats)}, {lgate(ag)}, {cal}, {lstrs(selfcalls)}⟩")
        rows.append(f"  ⟨{q(n)}, {lgate(g)}, [\n" + ",\n".join(arows) + "]⟩")
    o.append(",\n".join(rows) + "]")
    o.append("")
    o.append("/-- `Platform::detect()`: its `return`s in source order, each with the `#[cfg]`s of the blocks around it -/")
    o.append("def detectSteps : List DetectStep := [")
    o.append(",\n".join(f"  ⟨{lgate(g)}, {'none' if t is None else '(some ' + q(t) + ')'}, {q(r)}⟩" for g, t, r in detect_steps) + "]")
    o.append("")
    o.append("/-- the run-time detection functions -/")
    o.append("def detectedFns : List DetectedFn := [")
    o.append(",\n".join(f"  ⟨{q(n)}, {lgate(g)}, {lgate(fi)}, {lstrs(fs)}⟩" for n, g, fi, fs in detected) + "]")
    o.append("")
    o.append("/-- every function of src/platform.rs (methods as `Platform::name`) with its gate -/")
    o.append("def platformFns : List FnDef := [")
    o.append(",\n".join(f"  ⟨{q(PLAT)}, {q(n)}, {lgate(g)}⟩" for n, g in fn_defs) + "]")
    o.append("")
    o.append("/-- uses of gated names in `Platform::detect` and the constructors: a detection function, a variant -/")
    o.append("def platformRefs : List Ref := [")
    o.append(",\n".join(f"  ⟨{q(PLAT)}, {q(w)}, {lgate(g)}, {lstrs(t)}⟩" for w, g, t in refs) + "]")
    o.append("")

    # ---- kernel module files
    modnames = [n for n, _, _ in mods]
    kernel_files = []
    for n, g, f in mods:
        if (n in has_path or n == "portable") and f != "(inline)":
            if f not in kernel_files:
                kernel_files.append(f)
    mod_fns, mod_refs, imports, exports = [], [], [], []
    for f in kernel_files:
        rel = "src/" + f
        T = stripped(rel)
        record(rel, T, 0, len(T))
        its = flatten_items(T, rel, [])
        for it in its:
            if it["kind"] == "fn":
                if re.match(r"^pub\b", it["head"]):
                    mod_fns.append((rel, it["name"], it["gate"]))
                if "#[" in it["body"]:
                    broken(f"{rel}: fn {it['name']}", "attributes inside the body not understood")
                for r in body_refs(it["body"], rel):
                    if r[0] == "crate" and len(r) == 3 and r[1] in modnames and r[1] not in ("platform", "test"):
                        mod_refs.append((rel, it["name"], it["gate"], r))
                    elif r[0] == "ffi" and len(r) == 2:
                        mod_refs.append((rel, it["name"], it["gate"], r))
                    elif r[0] in ("super", "self") and len(r) >= 2 and r[1] in modnames:
                        broken(f"{rel}: fn {it['name']}", f"reference `{'::'.join(r)}` not understood")
                if any(re.match(r"^unsafe\s*\(\s*no_mangle\s*\)$", a) for a in it["attrs"]):
                    if 'extern"C"' not in nows(it["head"]):
                        broken(f"{rel}: fn {it['name']}", "no_mangle without extern \"C\"")
                    exports.append((rel, it["name"], it["gate"]))
            elif it["kind"] == "mod":
                if it["name"] == "ffi":
                    for e2 in flatten_items(it["body"], f"{rel}: mod ffi", it["gate"]):
                        if e2["kind"] != "extern":
                            broken(f"{rel}: mod ffi", f"item `{e2['kind']} {e2['name']}` not understood")
                        for d in flatten_items(e2["body"], f"{rel}: extern block", e2["gate"]):
                            if d["kind"] != "fndecl":
                                broken(f"{rel}: extern block", f"item `{d['kind']} {d['name']}` not understood")
                            imports.append((rel, d["name"], d["gate"]))
                elif it["name"] == "test":
                    pass  # `#[cfg(test)] mod test`: not scanned
                else:
                    broken(rel, f"`mod {it['name']}` not understood")
            elif it["kind"] in ("use", "const", "static", "type", "macro", "struct", "enum"):
                pass
            else:
                broken(rel, f"item `{it['kind']} {it['name']}` not understood")
    o.append("/-- the files src/lib.rs declares as kernel modules (`#[path]` files and portable.rs) -/")
    o.append(f"def kernelFiles : List String := {lstrs(['src/' + f for f in kernel_files])}")
    o.append("")
    o.append("/-- every top-level `pub` function of the kernel module files with its gate (`mod test` is not scanned) -/")
    o.append("def moduleFns : List FnDef := [")
    o.append(",\n".join(f"  ⟨{q(r)}, {q(n)}, {lgate(g)}⟩" for r, n, g in mod_fns) + "]")
    o.append("")
    o.append("/-- calls of `crate::<kernel module>::f` and `ffi::<symbol>` made by those functions -/")
    o.append("def moduleRefs : List Ref := [")
    o.append(",\n".join(f"  ⟨{q(r)}, {q(w)}, {lgate(g)}, {lstrs(t)}⟩" for r, w, g, t in mod_refs) + "]")
    o.append("")
    o.append("/-- symbols imported from C / assembly: the declarations inside the `extern \"C\" { .. }` block of `mod ffi` -/")
    o.append("def ffiImports : List Symbol := [")
    o.append(",\n".join(f"  ⟨{q(r)}, {q(n)}, {lgate(g)}⟩" for r, n, g in imports) + "]")
    o.append("")
    o.append("/-- symbols exported to C: `no_mangle` `pub extern \"C\" fn` -/")
    o.append("def ffiExports : List Symbol := [")
    o.append(",\n".join(f"  ⟨{q(r)}, {q(n)}, {lgate(g)}⟩" for r, n, g in exports) + "]")
    o.append("")
    o.append("/-! not scanned: the bodies of " + ", ".join(f"`mod {n}` of src/platform.rs" for n, _ in skipped_mods)
             + "; `#[cfg(test)] mod test` of every file; src/lib.rs below its `mod` declarations -/")
    o.append("")
    o.append("end B3.Gen.CfgGates")
    return "\n".join(o) + "\n"


ARTEFACTS = [("BuildRs.lean", A35, gen_build_rs), ("CfgGates.lean", A36, gen_cfg_gates)]
