"""G32-asm-sse41-compress-wgnu / G33-asm-sse2-compress-wgnu: the Windows-GNU flavours of the hand-written assembly routines
`blake3_compress_in_place_sse41`, `blake3_compress_xof_sse41` (c/blake3_sse41_x86-64_windows_gnu.S) and
`blake3_compress_in_place_sse2`, `blake3_compress_xof_sse2` (c/blake3_sse2_x86-64_windows_gnu.S)
-> lean/B3/Gen/AsmSse41Wgnu.lean, lean/B3/Gen/AsmSse2Wgnu.lean: instruction lists as DATA over the instruction type `WInstr`
of lean/B3/Asm/WinSem.lean (the instructions of lean/B3/Asm/Sse.lean embedded unchanged, plus the four forms the Win64
prologue / epilogue needs), and the `.rdata` section as a byte list.

Everything is read from the source text, with the parser of gen/ext_asm_sem.py (class `AsmFile`: statements, labels, GNU-as
local labels `9b`/`9f`, operand syntax, data directives) extended here by
  * the section header of the COFF files: a single line `.section .rdata` (no `#ifdef __APPLE__` conditional) followed by
    the alignment directive and the data, to the end of the file;
  * the memory operands `byte ptr [reg64+disp]` and `qword ptr [reg64+disp]`;
  * the instruction forms `sub r64, imm`, `add r64, imm` (0 <= imm < 2^31: `imm8`/`imm32` are sign-extended),
    `movzx r32, byte ptr [..]`, `mov r64, qword ptr [..]`.
A routine = the statements from its label to the first `ret` (inclusive); one `WInstr` per instruction statement, in source
order.  Anything else raises TranslationBroken (unknown mnemonic, operand shape outside the table of its mnemonic, directive /
preprocessor line inside a routine, ...).  Comments and whitespace do not matter.  Nothing is dropped.
"""
import os
import re
import sys

import extract as X

sys.path.insert(0, os.path.dirname(os.path.abspath(__file__)))
try:
    import ext_asm_sem as A
finally:
    sys.path.pop(0)

# the signature table of ext_asm_sem (copied, not shared: that module's table must stay what it is) + the new forms;
# new operand kinds: m8 / m64 = `byte ptr [..]` / `qword ptr [..]`
SIGS = {k: list(v) for k, v in A.SIGS.items()}
SIGS["sub"] = [("r64", "i")]
SIGS["add"] = SIGS["add"] + [("r64", "i")]
SIGS["movzx"] = SIGS["movzx"] + [("r32", "m8")]
SIGS["mov"] = SIGS["mov"] + [("r64", "m64")]

MEM_SMALL_RE = re.compile(r"(byte|qword)\s+ptr\s*\[([^\[\]]*)\]", flags=re.I)


class WinAsmFile(A.AsmFile):
    """c/blake3_*_x86-64_windows_gnu.S"""

    # ---- .rdata ----------------------------------------------------------------------------------------------------
    def _parse_rodata(self):
        idx = [k for k, ln in enumerate(self.lines) if ln.split()[:1] == [".section"] and ".rdata" in ln.split()]
        if len(idx) != 1 or self.lines[idx[0]].split() != [".section", ".rdata"]:
            self.broken(f"{self.rel}: expected exactly one `.section .rdata` line, found {len(idx)}")
        k = idx[0]
        for j, ln in enumerate(self.lines):
            s = ln.strip()
            if s.startswith("#"):
                self.broken(f"{self.rel}:{j+1}: preprocessor line `{s}` (the Windows-GNU files have none)")
            if j > k and s.split()[:1] in ([".section"], [".text"], [".data"]):
                self.broken(f"{self.rel}:{j+1}: another section after .rdata")
        self.rodata_line = k
        data = []
        self.ro_labels = {}
        self.ro_label_order = []
        self.ro_align = None
        self.ro_marks = []
        for j in range(k + 1, len(self.lines)):
            s = self.lines[j].strip()
            if not s:
                continue
            m = A.LABEL_RE.match(s)
            if m and not s.startswith("."):
                name, rest = m.group(1), m.group(2).strip()
                if name.isdigit():
                    self.broken(f"{self.rel}:{j+1}: local label in .rdata")
                if name in self.ro_labels:
                    self.broken(f"{self.rel}:{j+1}: label {name} defined twice")
                if self.ro_align is None:
                    self.broken(f"{self.rel}:{j+1}: label before the section's alignment directive")
                self.ro_labels[name] = len(data)
                self.ro_label_order.append(name)
                s = rest
                if not s:
                    continue
            parts = s.split(None, 1)
            d = parts[0]
            if d in (".p2align", ".balign", ".align"):
                if self.ro_align is not None or data or self.ro_labels:
                    self.broken(f"{self.rel}:{j+1}: alignment directive inside the .rdata data (padding is not modelled)")
                args = [a.strip() for a in (parts[1] if len(parts) > 1 else "").split(",")]
                if len(args) != 1:
                    self.broken(f"{self.rel}:{j+1}: `{s}`: alignment directive with fill arguments")
                if d == ".align":
                    self.broken(f"{self.rel}:{j+1}: `.align` is target dependent; use .p2align/.balign")
                n = A.parse_int(args[0], self.art, f"{self.rel}:{j+1}")
                self.ro_align = 2 ** n if d == ".p2align" else n
                continue
            if d in A.DATA_SIZES:
                if self.ro_align is None:
                    self.broken(f"{self.rel}:{j+1}: data before the section's alignment directive")
                size = A.DATA_SIZES[d]
                if len(parts) < 2:
                    self.broken(f"{self.rel}:{j+1}: `{d}` without values")
                self.ro_marks.append((len(data), s))
                for tok in parts[1].split(","):
                    v = A.parse_int(tok, self.art, f"{self.rel}:{j+1}")
                    if v >= 2 ** (8 * size):
                        self.broken(f"{self.rel}:{j+1}: value {tok.strip()} does not fit `{d}`")
                    data += list(v.to_bytes(size, "little"))
                continue
            self.broken(f"{self.rel}:{j+1}: unexpected statement in .rdata: `{s}`")
        if self.ro_align is None:
            self.broken(f"{self.rel}: .rdata without alignment directive")
        self.rodata = data
        self.span(k, len(self.lines) - 1)

    # ---- operands --------------------------------------------------------------------------------------------------
    def _operand(self, o, where, idx, labels, local, n):
        m = MEM_SMALL_RE.fullmatch(o)
        if m:
            kind = {"byte": "m8", "qword": "m64"}[m.group(1).lower()]
            inner = m.group(2).replace(" ", "").replace("\t", "")
            if "-" in inner or "*" in inner:
                self.broken(f"{where}: memory operand `{o}`: negative displacement / index register not modelled")
            terms = inner.split("+")
            if any(not t for t in terms):
                self.broken(f"{where}: memory operand `{o}`")
            regs = [t for t in terms if t in A.REGS]
            nums = [t for t in terms if t not in A.REGS]
            if len(regs) != 1 or A.REGS[regs[0]][1] != "q64" or len(nums) > 1:
                self.broken(f"{where}: memory operand `{o}`: expected [reg64] or [reg64+disp]")
            disp = A.parse_int(nums[0], self.art, where) if nums else 0
            if disp >= 2 ** 31:
                self.broken(f"{where}: displacement out of range")
            return (kind, f"{regs[0]} {disp}", None)
        m = re.fullmatch(r"(\w+)\s+ptr\s*\[[^\[\]]*\]", o, flags=re.I)
        if m and m.group(1).lower() != "xmmword":
            self.broken(f"{where}: memory operand `{o}`: only `xmmword ptr`, `qword ptr`, `byte ptr` operands are modelled")
        return super()._operand(o, where, idx, labels, local, n)

    @staticmethod
    def _fits(kind, parsed, sig):
        if sig in ("m8", "m64"):
            return kind == sig
        return A.AsmFile._fits(kind, parsed, sig)

    # ---- routines --------------------------------------------------------------------------------------------------
    def routine(self, name):
        """-> list of (Lean text of the WInstr, source text, line no); as ext_asm_sem.AsmFile.routine with the extended table"""
        starts = [k for k, ln in enumerate(self.lines) if re.fullmatch(rf"\s*{re.escape(name)}\s*:\s*", ln)]
        if len(starts) != 1:
            self.broken(f"{name}: label not found in {self.rel}" if not starts else f"{name}: label defined {len(starts)} times")
        k0 = starts[0]
        if not (self.syntax_line < k0 < self.rodata_line):
            self.broken(f"{name}: not between `.intel_syntax noprefix` and the .rdata section")
        stmts = []
        labels = {}
        local = {}
        k = k0
        done = False
        while k < self.rodata_line and not done:
            s = self.lines[k].strip()
            ln = k
            k += 1
            if not s:
                continue
            if ";" in s:
                self.broken(f"{name}: line {ln+1}: `;` statement separator")
            m = A.LABEL_RE.match(s)
            while m:
                lab, s = m.group(1), m.group(2).strip()
                if lab.isdigit():
                    local.setdefault(lab, []).append(len(stmts))
                else:
                    if lab in labels:
                        self.broken(f"{name}: label {lab} defined twice")
                    labels[lab] = len(stmts)
                m = A.LABEL_RE.match(s) if s else None
            if not s:
                continue
            if s.startswith("#"):
                self.broken(f"{name}: line {ln+1}: preprocessor line inside the routine: `{s}`")
            if s.startswith("."):
                self.broken(f"{name}: line {ln+1}: directive inside the routine: `{s}`")
            parts = s.split(None, 1)
            mn = parts[0]
            ops = self._split_operands(parts[1], name, ln) if len(parts) > 1 else []
            if mn == "_CET_ENDBR":
                if ops:
                    self.broken(f"{name}: line {ln+1}: `_CET_ENDBR` with operands")
                mn = "endbr64"
            stmts.append((mn, ops, ln))
            if mn == "ret":
                done = True
        if not done:
            self.broken(f"{name}: no `ret` before the .rdata section")
        self.span(k0, stmts[-1][2])
        out = []
        for idx, (mn, ops, ln) in enumerate(stmts):
            where = f"{name}: line {ln+1} `{self.lines[ln].strip()}`"
            if mn not in SIGS:
                self.broken(f"{where}: unknown mnemonic `{mn}`")
            parsed = [self._operand(o, where, idx, labels, local, len(stmts)) for o in ops]
            kinds = tuple(p[0] for p in parsed)
            sig_hit = None
            for sig in SIGS[mn]:
                if len(sig) == len(kinds) and all(self._fits(kd, p, sg) for kd, p, sg in zip(kinds, parsed, sig)):
                    sig_hit = sig
                    break
            if sig_hit is None:
                self.broken(f"{where}: operand shapes {kinds} are not among the modelled forms of `{mn}`")
            if mn == "add" and kinds == ("r", "r") and parsed[0][2] != parsed[1][2]:
                self.broken(f"{where}: operand widths differ")
            if mn == "mov" and kinds == ("r", "i"):
                width = {"b8": 8, "d32": 32, "q64": 31}[parsed[0][2]]   # mov r64, imm32 sign-extends: only non-negative imm31
                if parsed[1][2] >= 2 ** width:
                    self.broken(f"{where}: immediate does not fit the destination")
            if mn in ("sub", "add") and kinds == ("r", "i") and parsed[1][2] >= 2 ** 31:
                self.broken(f"{where}: immediate is sign-extended from 32 bits; only 0 <= imm < 2^31 is modelled")
            if mn == "shl" and parsed[0][2] == "b8":
                self.broken(f"{where}: 8-bit shift is not modelled")
            text = self.lines[ln].strip()
            reg64 = lambda o: A.GPR64[A.REGS[o][0]]
            if mn == "sub" and kinds == ("r", "i"):
                lean = f".sub_ri {reg64(ops[0])} {parsed[1][2]}"
            elif mn == "add" and kinds == ("r", "i"):
                lean = f".add_ri {reg64(ops[0])} {parsed[1][2]}"
            elif mn == "movzx" and kinds == ("r", "m8"):
                lean = f".movzx_rm8 {reg64(ops[0])} {parsed[1][1]}"
            elif mn == "mov" and kinds == ("r", "m64"):
                lean = f".mov_rm64 {reg64(ops[0])} {parsed[1][1]}"
            else:
                if any(kd in ("m8", "m64") for kd in kinds):
                    self.broken(f"{where}: small memory operand in an instruction of the base set")
                lean = f"B .{A.MN_ALIAS.get(mn, mn)} [{', '.join(p[1] for p in parsed)}]"
            out.append((lean, text, ln + 1))
        return out


def gen_file(art, rel, module, routines, isa, cls=None, flavour="Windows-GNU", me="gen/ext_asm_wgnu.py", note=""):
    f = (cls or WinAsmFile)(art, rel)
    f.used_labels = set()
    lists = []
    for lean_name, sym in routines:
        lists.append((lean_name, sym, f.routine(sym)))
    out = []
    out.append(f"""/- GENERATED by {me} from {rel} -- do not edit.

The {isa} assembly routines {", ".join("`" + sym + "`" for _, sym, _ in lists)} ({flavour} flavour:
Win64 calling convention) as DATA: one `WInstr` per instruction of the source, in source order, from
the routine's label to its `ret` (the comment on each line is the source statement and its index;
jump operands are instruction indices, the GNU-as local labels resolved by the translator), and the
`.rdata` section of the file as a byte list with the offsets of its labels.  `B mn ops` is an
instruction of `B3/Asm/Sse.lean` (same meaning); `.sub_ri`, `.add_ri`, `.movzx_rm8`, `.mov_rm64` are
the forms added by `B3/Asm/WinSem.lean`, which gives the lists their meaning (`exec`, `step`, `run`).
Nothing is dropped from the routines.{note} -/
import B3.Asm.WinSem
namespace B3.Gen.{module}
open B3 B3.Simd B3.AsmSem B3.AsmSem.Win

/-- alignment of the start of the `.rdata` section (its first directive) -/
def rodataAlign : Nat := {f.ro_align}

/-- the `.rdata` section, from its alignment directive to the end of the file ({len(f.rodata)} bytes) -/
def rodata : List UInt8 := {A.lean_bytes(f.rodata, f.ro_marks, f.ro_labels)}
""")
    out.append("/-! offsets of the labels of the section -/")
    for name in f.ro_label_order:
        out.append(f"def off_{name} : Nat := {f.ro_labels[name]}")
    out.append("")
    out.append("/-- the 16 bytes at offset `o` of the section as four little-endian doublewords -/")
    out.append("def tableAt (o : Nat) : V4 :=")
    out.append("  #v[le32 (rodata.getD o 0) (rodata.getD (o + 1) 0) (rodata.getD (o + 2) 0) (rodata.getD (o + 3) 0),")
    out.append("     le32 (rodata.getD (o + 4) 0) (rodata.getD (o + 5) 0) (rodata.getD (o + 6) 0) (rodata.getD (o + 7) 0),")
    out.append("     le32 (rodata.getD (o + 8) 0) (rodata.getD (o + 9) 0) (rodata.getD (o + 10) 0) (rodata.getD (o + 11) 0),")
    out.append("     le32 (rodata.getD (o + 12) 0) (rodata.getD (o + 13) 0) (rodata.getD (o + 14) 0) (rodata.getD (o + 15) 0)]")
    out.append("")
    out.append("/-! the 16-byte tables the routines load (`xmmword ptr [LABEL+rip]`), as lanes -/")
    for name in f.ro_label_order:
        if name not in f.used_labels:
            continue
        off = f.ro_labels[name]
        words = [int.from_bytes(bytes(f.rodata[off + 4 * i: off + 4 * i + 4]), "little") for i in range(4)]
        out.append(f"def {name} : V4 := #v[" + ", ".join(f"0x{w:08X}" for w in words) + "]")
        out.append(f"example : tableAt off_{name} = {name} := by decide")
    out.append("")
    for lean_name, sym, ins in lists:
        out.append(f"/-- `{sym}` ({len(ins)} instructions, {rel} lines {ins[0][2]}-{ins[-1][2]}) -/")
        out.append(f"def {lean_name} : List WInstr := [")
        rows = []
        for idx, (lean, text, ln) in enumerate(ins):
            rows.append((f"  {lean}", f"-- {idx:3d}: {text}"))
        width = max(len(r[0]) for r in rows) + 1
        for idx, (a, b) in enumerate(rows):
            sep = "," if idx + 1 < len(rows) else ""
            out.append((a + sep).ljust(width + 1) + b)
        out.append("]")
        out.append("")
    out.append(f"end B3.Gen.{module}")
    return "\n".join(out) + "\n"


def gen_sse41():
    return gen_file("G32-asm-sse41-compress-wgnu", "c/blake3_sse41_x86-64_windows_gnu.S", "AsmSse41Wgnu",
                    [("compress_in_place", "blake3_compress_in_place_sse41"), ("compress_xof", "blake3_compress_xof_sse41")],
                    "SSE4.1")


def gen_sse2():
    return gen_file("G33-asm-sse2-compress-wgnu", "c/blake3_sse2_x86-64_windows_gnu.S", "AsmSse2Wgnu",
                    [("compress_in_place", "blake3_compress_in_place_sse2"), ("compress_xof", "blake3_compress_xof_sse2")],
                    "SSE2")


ARTEFACTS = [("AsmSse41Wgnu.lean", "G32-asm-sse41-compress-wgnu", gen_sse41),
             ("AsmSse2Wgnu.lean", "G33-asm-sse2-compress-wgnu", gen_sse2)]
