#!/usr/bin/env python3
"""
G9-update: statement-level translation of the tree-building functions of src/lib.rs into the panic monad `R`
(lean/B3/Gen/RsUpdate.lean, namespace B3.Gen.RsUpdate):

  part 1   Hasher::count, Hasher::update_with_join
  part 2   compress_parents_parallel, compress_chunks_parallel, compress_subtree_wide,
           compress_subtree_to_parent_node, hash_all_at_once

Everything is derived from the source text, statement by statement (class `Tr` below: a copy-and-extend of
`extract.ImpTr`).  What is understood:

  statements   let / let mut (with optional type), tuple let, `let x = if c {..} else {..}`, assignment, `+= -= /=`,
               assignment to `self.chunk_state` / `self.chunk_state.chunk_counter`, `if` / `if else` / `if let Some(x) = e`,
               `while` (-> fuel loop), `for x in &mut chunks_exact` (-> structural recursion over the chunks), early
               `return` anywhere inside nested `if`s (the code after the `if` becomes a join-point definition when more
               than one path reaches it), tail expressions, `assert!` (kept), `debug_assert*!` (dropped),
               `v.push(e)` on an ArrayVec (panics beyond the declared capacity), `x[a..][..b].copy_from_slice(s)`,
               `*array_mut_ref!(x, off, len) = e`, `cs.update(s)`, `self.push_cv(..)`, `self.merge_cv_stack(..)`,
               `platform.hash_many(..)`, `J::join(|| a, || b)` (a then b: the model has no schedule)
  expressions  u64/usize arithmetic (checked: `Arith.cadd/csub/cmul/cdiv`), `&` on integers, `|` on flag bytes, casts,
               `cmp::min/max`, slicing `x[a..b]` / `x[..b]` / `x[a..]` (panics out of range), `array_ref!`,
               `split_at`, `split_at_mut`, `chunks_exact(n)` / `.remainder()`, `.len()`, `.is_empty()`,
               `ChunkState::new(..)`, `.update(..)`, `.output()`, `.chaining_value()`, `.count()`,
               `.chunk_counter`, `.flags`, `Output { .. }`, `[0; N]`, `ArrayVec::<T, CAP>::new()`, calls of the
               translated functions (a `&mut [u8]` parameter is returned next to the result).

Byte arrays that hold chaining values (`out`, `cv_array`, `child_chaining_values`, the 64-byte parent block) are
`List CV`; every byte offset / length applied to them must be a multiple of OUT_LEN *syntactically* (`e * OUT_LEN`,
a constant multiple of 32, BLOCK_LEN ...) and is divided by OUT_LEN by the translator (`units`); anything else raises
TranslationBroken.  The `Platform` argument and the `J: Join` type parameter are dropped (after checking that what is
passed is a platform): the platform is the environment `E` (its `hash_many`, `simd_degree`, MAX_SIMD_DEGREE constants).
"""
import re

import extract as X

A = "G9-update"
TB = X.TranslationBroken

OUT_LEN_NAME = "OUT_LEN"

LEAN_TY = {"Nat": "Nat", "U8": "UInt8", "Bool": "Bool", "CV": "CV", "Bytes": "List UInt8", "CVs": "List CV",
           "CS": "CS", "Out": "Out", "OptNat": "Option Nat", "Unit": "Unit"}


USES_E = {}    # generated definition -> does its text mention the environment `E` (section variable)?


def ecall(name):
    return f"{name} E" if USES_E[name] else name


def note_def(name, text):
    USES_E[name] = re.search(r"(?<![\w.])E\b", text) is not None


VECINFO = {}   # ArrayVec variable (function-qualified) -> dict(elem, cap, n)


def lean_ty(t):
    if isinstance(t, tuple):
        if t[0] == "Chunks":
            return f"(List ({lean_ty(t[1])}) × {lean_ty(t[1])})"
        if t[0] == "Vec":
            return f"List ({lean_ty(VECINFO[t[1]]['elem'])})" if VECINFO[t[1]]['elem'] else "List _"
        if t[0] == "Tuple":
            return "(" + " × ".join(lean_ty(x) for x in t[1]) + ")"
    return LEAN_TY[t]


# ------------------------------------------------------------------------------------------------
# parsing


class P2(X.P):
    """extract.P plus: ranges inside `[...]`, unary `!`"""

    def at_dots(self):
        return self.at(".") and self.peek(1) == ("op", ".")

    def unary(self):
        if self.at("!"):
            self.next()
            return ("not", self.unary())
        return super().unary()

    def postfix(self):
        e = self.primary()
        while True:
            if self.at("["):
                self.next()
                lo = None
                if not self.at_dots():
                    lo = self.expr()
                if self.at_dots():
                    self.next()
                    self.next()
                    hi = None if self.at("]") else self.expr()
                    self.expect("]")
                    e = ("slice", e, lo, hi)
                else:
                    self.expect("]")
                    e = ("index", e, lo)
            elif self.at(".") and self.peek(1)[0] == "id":
                self.next()
                name = self.next()[1]
                if self.at("("):
                    self.next()
                    e = ("method", e, name, self.args())
                else:
                    e = ("field", e, name)
            elif self.peek() == ("id", "as"):
                self.next()
                ty = self.next()[1]
                e = ("cast", e, ty)
            else:
                return e


def parse(s):
    p = P2(X.tokenize(s))
    e = p.expr()
    if p.peek()[0] != "eof":
        raise ValueError(f"trailing tokens in {s!r}: {p.peek()}")
    return e


def strip_strings(text):
    """string literals -> "" (format strings contain braces and parentheses)"""
    return re.sub(r'"(?:[^"\\]|\\.)*"', '""', text)


def top_split(s, sep=","):
    out, depth, cur = [], 0, []
    for ch in s:
        if ch in "([{":
            depth += 1
        elif ch in ")]}":
            depth -= 1
        if ch == sep and depth == 0:
            out.append("".join(cur).strip())
            cur = []
        else:
            cur.append(ch)
    last = "".join(cur).strip()
    if last:
        out.append(last)
    return out


def statements(text):
    """top-level statements of a Rust block:
    ('while', cond, body) | ('for', var, iter, body) | ('if', cond, then, else|None) | ('stmt', s) | ('tail', s)
    (`else if` is turned into `else { if .. }`)"""
    out = []
    i, n = 0, len(text)

    def cond_and_block(j):
        depth = 0
        k = j
        while k < n:
            ch = text[k]
            if ch in "([":
                depth += 1
            elif ch in ")]":
                depth -= 1
            elif ch == "{" and depth == 0:
                e = X.match_brace(text, k)
                return text[j:k].strip(), text[k + 1:e - 1], e
            k += 1
        raise ValueError("block expected")

    def parse_if(j):
        """text[j:] starts after the `if` keyword; returns (stmt, end)"""
        cond, blk, e = cond_and_block(j)
        els = None
        m2 = re.match(r"\s*else\s*\{", text[e:])
        if m2:
            k = e + m2.end() - 1
            e2 = X.match_brace(text, k)
            els = text[k + 1:e2 - 1]
            e = e2
        else:
            m3 = re.match(r"\s*else\s+if\b", text[e:])
            if m3:
                st, e2 = parse_if(e + m3.end())
                els = text[e + m3.end() - 2:e2]
                e = e2
        return ("if", cond, blk, els), e

    while i < n:
        while i < n and text[i].isspace():
            i += 1
        if i >= n:
            break
        m = re.match(r"(while|if|for)\b", text[i:])
        if m:
            if m.group(1) == "if":
                st, e = parse_if(i + m.end())
                out.append(st)
                i = e
                continue
            cond, blk, e = cond_and_block(i + m.end())
            if m.group(1) == "while":
                out.append(("while", cond, blk))
            else:
                mf = re.match(r"^(\w+)\s+in\s+(.+)$", cond, re.S)
                if not mf:
                    raise ValueError(f"for loop header {cond!r}")
                out.append(("for", mf.group(1), mf.group(2).strip(), blk))
            i = e
            continue
        depth = 0
        k = i
        while k < n:
            ch = text[k]
            if ch in "([{":
                depth += 1
            elif ch in ")]}":
                depth -= 1
            elif ch == ";" and depth == 0:
                break
            k += 1
        if k >= n:
            out.append(("tail", text[i:].strip()))
            break
        out.append(("stmt", text[i:k].strip()))
        i = k + 1
    return out


def terminates(stmts):
    """does control never reach the end of this statement list? (ends with return / a tail value / an if whose branches
    all terminate)"""
    if not stmts:
        return False
    last = stmts[-1]
    if last[0] == "tail":
        return True
    if last[0] == "stmt" and re.match(r"^return\b", last[1]):
        return True
    if last[0] == "if" and last[3] is not None:
        return terminates(statements(last[2])) and terminates(statements(last[3]))
    return False


def has_return(stmts):
    for st in stmts:
        if st[0] == "stmt" and re.match(r"^return\b", st[1]):
            return True
        if st[0] == "if":
            if has_return(statements(st[2])) or (st[3] is not None and has_return(statements(st[3]))):
                return True
        if st[0] in ("while", "for") and has_return(statements(st[-1])):
            raise ValueError("return inside a loop is not supported")
    return False


# ------------------------------------------------------------------------------------------------
# the functions that are translated; parameter lists are checked against the source

U8_CONSTS = ["CHUNK_START", "CHUNK_END", "PARENT", "ROOT", "KEYED_HASH", "DERIVE_KEY_CONTEXT", "DERIVE_KEY_MATERIAL"]

FUNCS = {
    "compress_parents_parallel": dict(
        header=r"fn\s+compress_parents_parallel\s*\(",
        params=[("child_chaining_values", "&[u8]", "CVs"), ("key", "&CVWords", "CV"), ("flags", "u8", "U8"),
                ("platform", "Platform", "Platform"), ("out", "&mut[u8]", "CVs")],
        ret="Nat", rust_ret="usize", muts=["out"]),
    "compress_chunks_parallel": dict(
        header=r"fn\s+compress_chunks_parallel\s*\(",
        params=[("input", "&[u8]", "Bytes"), ("key", "&CVWords", "CV"), ("chunk_counter", "u64", "Nat"), ("flags", "u8", "U8"),
                ("platform", "Platform", "Platform"), ("out", "&mut[u8]", "CVs")],
        ret="Nat", rust_ret="usize", muts=["out"]),
    "compress_subtree_wide": dict(
        header=r"fn\s+compress_subtree_wide\s*<\s*J\s*:\s*join::Join\s*>\s*\(",
        params=[("input", "&[u8]", "Bytes"), ("key", "&CVWords", "CV"), ("chunk_counter", "u64", "Nat"), ("flags", "u8", "U8"),
                ("platform", "Platform", "Platform"), ("out", "&mut[u8]", "CVs")],
        ret="Nat", rust_ret="usize", muts=["out"], recursive=True),
    "compress_subtree_to_parent_node": dict(
        header=r"fn\s+compress_subtree_to_parent_node\s*<\s*J\s*:\s*join::Join\s*>\s*\(",
        params=[("input", "&[u8]", "Bytes"), ("key", "&CVWords", "CV"), ("chunk_counter", "u64", "Nat"), ("flags", "u8", "U8"),
                ("platform", "Platform", "Platform")],
        ret="CVs", rust_ret="[u8;BLOCK_LEN]", muts=[]),
    "hash_all_at_once": dict(
        header=r"fn\s+hash_all_at_once\s*<\s*J\s*:\s*join::Join\s*>\s*\(",
        params=[("input", "&[u8]", "Bytes"), ("key", "&CVWords", "CV"), ("flags", "u8", "U8")],
        ret="Out", rust_ret="Output", muts=[]),
}


def check_params(name, params_txt, expected, self_kind=None):
    ps = [re.sub(r"\s+", "", p) for p in top_split(params_txt)]
    if self_kind is not None:
        if not ps or ps[0] != self_kind:
            raise TB(A, f"{name}: expected receiver {self_kind}, found {ps[:1]}")
        ps = ps[1:]
    got = []
    for p in ps:
        m = re.match(r"^(mut)?(\w+):(.+)$", p)
        if not m:
            raise TB(A, f"{name}: parameter {p!r}")
        got.append((m.group(2), m.group(3)))
    exp = [(n, re.sub(r"\s+", "", t)) for n, t, _ in expected]
    if got != exp:
        raise TB(A, f"{name}: parameter list changed: {got} (expected {exp})")


def ret_type(artefact, rel, header_re):
    """text between the parameter list and the body"""
    text = X.src(rel)
    m = re.search(header_re, text)
    p0 = text.index("(", m.end() - 1)
    p1 = X.match_brace(text, p0, "(", ")")
    b0 = text.index("{", p1)
    return re.sub(r"\s+", "", X.strip_comments(text[p1:b0])).lstrip("->")


# ------------------------------------------------------------------------------------------------
# the translator


class Tr:
    """one Rust function -> Lean definitions (loops, join points, the function)"""

    def __init__(self, name, consts, u8consts, cfg):
        self.name = name
        self.consts = consts          # usize constants
        self.u8consts = u8consts      # flag bytes
        self.cfg = cfg                # dict: muts [names], ret type, subst [(a, b)], self_result bool, fuel {k: term}
        self.defs = []                # Lean definitions emitted before the function
        self.tmp = 0
        self.nloops = 0
        self.njoins = 0
        self.reb = [[]]               # stack of lists: outer variables rebound in the current block
        self.views = {}               # view variable -> parent array
        self.viewpairs = {}           # parent array -> (left view, right view)
        self.vecdecl = {}             # ArrayVec variable -> (lines list, index) of its declaration, until the element type is known

    # ---- small helpers
    def fresh(self):
        self.tmp += 1
        return f"t{self.tmp}"

    def fail(self, msg):
        raise TB(A, f"{self.name}: {msg}")

    def norm(self, t):
        for a, b in self.cfg.get("subst", []):
            t = t.replace(a, b)
        return t.strip()

    def note_rebound(self, v, _unused=None):
        """record that the existing variable `v` is assigned in the block being translated"""
        if v not in self.reb[-1]:
            self.reb[-1].append(v)

    def rebind(self, v, rhs, lines, pad, monadic, scope):
        """emit `let v ← rhs` / `let v := rhs` for an existing variable"""
        if v not in scope:
            raise ValueError(f"assignment to unknown variable {v}")
        lines.append(f"{pad}let {v} {'←' if monadic else ':='} {rhs}")
        self.note_rebound(v, None)
        if v in self.views:
            parent = self.views[v]
            l, r = self.viewpairs[parent]
            lines.append(f"{pad}let {parent} := {l} ++ {r}")
            self.note_rebound(parent, None)

    def declare(self, v, ty, scope):
        if v in scope:
            raise ValueError(f"`let {v}` shadows an existing variable (not supported)")
        if re.match(r"^t\d+$", v) or v in ("E", "fuel"):
            raise ValueError(f"variable name {v} clashes with the translator's names")
        scope[v] = ty

    # ---- units: byte offsets into arrays of chaining values
    def units(self, e, lines, pad, scope):
        c = X.const_eval(self.subst_consts(e))
        if c is not None:
            if c % 32 != 0:
                raise ValueError(f"byte offset {c} into an array of chaining values is not a multiple of OUT_LEN")
            return str(c // 32)
        k = e[0]
        if k == "paren":
            return self.units(e[1], lines, pad, scope)
        if k == "cast" and e[2] in ("u64", "usize"):
            return self.units(e[1], lines, pad, scope)
        if k == "bin" and e[1] == "*":
            for a, b in ((e[2], e[3]), (e[3], e[2])):
                if a == ("var", OUT_LEN_NAME):
                    t, ty = self.ex(b, lines, pad, scope)
                    if ty not in ("Nat", "Lit"):
                        raise ValueError("OUT_LEN multiplied by a non-integer")
                    return t
            for a, b in ((e[2], e[3]), (e[3], e[2])):
                ca = X.const_eval(self.subst_consts(a))
                if ca is not None:
                    u = self.units(b, lines, pad, scope)
                    v = self.fresh()
                    lines.append(f"{pad}let {v} ← Arith.cmul {ca} {u}")
                    return v
            # (x * y) * OUT_LEN parses as ((x * y) * OUT_LEN): handled above; x * (y * OUT_LEN):
            for a, b in ((e[2], e[3]), (e[3], e[2])):
                try:
                    u = self.units(b, [], pad, scope)
                except ValueError:
                    continue
                u = self.units(b, lines, pad, scope)
                t, ty = self.ex(a, lines, pad, scope)
                v = self.fresh()
                lines.append(f"{pad}let {v} ← Arith.cmul {t} {u}")
                return v
        if k == "bin" and e[1] == "/":
            cb = X.const_eval(self.subst_consts(e[3]))
            if cb is not None and cb > 0:
                u = self.units(e[2], lines, pad, scope)
                v = self.fresh()
                lines.append(f"{pad}let {v} ← Arith.cdiv {u} {cb}")
                return v
        if k == "method" and e[2] == "len" and not e[3]:
            r, tr = self.ex(e[1], lines, pad, scope)
            if tr == "CVs":
                return f"{r}.length"
        raise ValueError(f"cannot express {e} in units of OUT_LEN")

    def subst_consts(self, e):
        """replace named usize constants by numbers (for const_eval)"""
        k = e[0]
        if k == "var" and e[1] in self.consts:
            return ("num", self.consts[e[1]])
        if k in ("paren",):
            return (k, self.subst_consts(e[1]))
        if k == "cast" and e[2] in ("u64", "usize"):
            return ("paren", self.subst_consts(e[1]))
        if k == "bin":
            return (k, e[1], self.subst_consts(e[2]), self.subst_consts(e[3]))
        return e

    def index_term(self, recv_ty, e, lines, pad, scope):
        """offset / length applied to an array: bytes for Bytes, OUT_LEN units for CVs"""
        if recv_ty == "CVs":
            return self.units(e, lines, pad, scope)
        t, ty = self.ex(e, lines, pad, scope)
        if ty not in ("Nat", "Lit"):
            raise ValueError("index is not an integer")
        return t

    # ---- expressions: returns (term, type); appends monadic lets to `lines`
    def ex(self, e, lines, pad, scope):
        c = X.const_eval(self.subst_consts(e)) if e[0] in ("num", "bin", "paren", "var", "cast") else None
        if c is not None and not (e[0] == "cast" and e[2] == "u8"):
            return str(c), "Lit" if e[0] == "num" else "Nat"
        k = e[0]
        if k == "var":
            v = e[1]
            if v in self.u8consts:
                return str(self.u8consts[v]), "U8"
            if v in ("MAX_SIMD_DEGREE", "MAX_SIMD_DEGREE_OR_2"):
                return f"E.{v}", "Nat"
            if v == "IncrementCounter::Yes":
                return "true", "Bool"
            if v == "IncrementCounter::No":
                return "false", "Bool"
            if v not in scope:
                raise ValueError(f"unknown variable {v}")
            return v, scope[v]
        if k == "paren":
            return self.ex(e[1], lines, pad, scope)
        if k == "cast":
            t, ty = self.ex(e[1], lines, pad, scope)
            if e[2] in ("u64", "usize") and ty in ("Nat", "Lit"):
                return t, "Nat"
            if e[2] == "u8":
                cv = X.const_eval(self.subst_consts(e[1]))
                if cv is not None and cv < 256:
                    return str(cv), "U8"
            raise ValueError(f"cast of {ty} to {e[2]}")
        if k == "bin":
            (a, ta), (b, tb) = self.ex(e[2], lines, pad, scope), self.ex(e[3], lines, pad, scope)
            op = e[1]
            if op == "|" and {ta, tb} <= {"U8", "Lit"}:
                return f"({a} ||| {b})", "U8"
            if ta not in ("Nat", "Lit") or tb not in ("Nat", "Lit"):
                raise ValueError(f"arithmetic `{op}` on {ta}, {tb}")
            if op == "&":
                v = self.fresh()
                lines.append(f"{pad}let {v} := {a} &&& {b}")
                return v, "Nat"
            f = {"+": "Arith.cadd", "-": "Arith.csub", "*": "Arith.cmul", "/": "Arith.cdiv", "%": "Arith.cmod"}.get(op)
            if not f:
                raise ValueError(f"operator {op}")
            v = self.fresh()
            lines.append(f"{pad}let {v} ← {f} {a} {b}")
            return v, "Nat"
        if k == "slice":
            r, tr = self.ex(e[1], lines, pad, scope)
            if tr not in ("Bytes", "CVs"):
                raise ValueError(f"slicing a {tr}")
            lo = self.index_term(tr, e[2], lines, pad, scope) if e[2] is not None else None
            hi = self.index_term(tr, e[3], lines, pad, scope) if e[3] is not None else None
            v = self.fresh()
            if lo is None and hi is None:
                return r, tr
            if lo is None:
                lines.append(f"{pad}let {v} ← sliceTo {r} {hi}")
            elif hi is None:
                lines.append(f"{pad}let {v} ← sliceFrom {r} {lo}")
            else:
                lines.append(f"{pad}let {v} ← sliceRange {r} {lo} {hi}")
            return v, tr
        if k == "macro":
            if e[1] == "array_ref" and len(e[2]) == 3:
                r, tr = self.ex(e[2][0], lines, pad, scope)
                if tr not in ("Bytes", "CVs"):
                    raise ValueError(f"array_ref! on a {tr}")
                off = self.index_term(tr, e[2][1], lines, pad, scope)
                ln = self.index_term(tr, e[2][2], lines, pad, scope)
                v = self.fresh()
                if tr == "CVs" and ln == "1":
                    lines.append(f"{pad}let {v} ← Arith.getIdx {r} {off}")
                    return v, "CV"
                lines.append(f"{pad}let {v} ← arrayRef {r} {off} {ln}")
                return v, tr
            raise ValueError(f"macro {e[1]}!")
        if k == "field":
            r, tr = self.ex(e[1], lines, pad, scope)
            if tr == "CS" and e[2] == "chunk_counter":
                return f"(E.cs_chunk_counter {r})", "Nat"
            if tr == "CS" and e[2] == "flags":
                return f"(E.cs_flags {r})", "U8"
            if tr == "CS" and e[2] == "platform":
                return "()", "Platform"
            raise ValueError(f"field {e[2]} of {tr}")
        if k == "method":
            return self.method(e, lines, pad, scope)
        if k == "call":
            return self.call(e, lines, pad, scope)
        if k == "array":
            raise ValueError("array literal")
        raise ValueError(f"cannot translate {e}")

    def method(self, e, lines, pad, scope):
        recv, name, args = e[1], e[2], e[3]
        if recv == ("var", "self") and name == "count" and not args:
            v = self.fresh()
            lines.append(f"{pad}let {v} ← {ecall('hasher_count')} chunk_state initial_chunk_counter")
            return v, "Nat"
        r, tr = self.ex(recv, lines, pad, scope)
        if name == "len" and not args:
            if tr == "Bytes" or (isinstance(tr, tuple) and tr[0] == "Vec"):
                return f"{r}.length", "Nat"
            if tr == "CVs":
                return f"({r}.length * 32)", "Nat"
        if name == "count" and not args and tr == "CS":
            return f"(E.cs_count {r})", "Nat"
        if name == "update" and len(args) == 1 and tr == "CS":
            a, ta = self.ex(args[0], lines, pad, scope)
            if ta != "Bytes":
                raise ValueError("ChunkState::update on a non-byte-slice")
            return f"(E.cs_update {r} {a})", "CS"
        if name == "output" and not args and tr == "CS":
            return f"(E.cs_output {r})", "Out"
        if name == "chaining_value" and not args and tr == "Out":
            return f"(E.chaining_value {r})", "CV"
        if name == "simd_degree" and not args and tr == "Platform":
            return "E.simd_degree", "Nat"
        if name == "count_ones" and not args and tr == "Nat":
            return f"(Arith.popcnt {r})", "Nat"
        if name == "chunks_exact" and len(args) == 1 and tr in ("Bytes", "CVs"):
            c = X.const_eval(self.subst_consts(args[0]))
            if c is None or c <= 0:
                raise ValueError("chunks_exact with a non-constant size")
            if tr == "CVs":
                if c % 32:
                    raise ValueError("chunks_exact size is not a multiple of OUT_LEN")
                c //= 32
            return f"(chunksExact {c} {r})", ("Chunks", tr)
        if name == "remainder" and not args and isinstance(tr, tuple) and tr[0] == "Chunks":
            return f"{r}.2", tr[1]
        if name in ("split_at", "split_at_mut") and len(args) == 1 and tr in ("Bytes", "CVs"):
            i = self.index_term(tr, args[0], lines, pad, scope)
            v = self.fresh()
            lines.append(f"{pad}let {v} ← splitAt {r} {i}")
            return v, ("Tuple", [tr, tr])
        raise ValueError(f"method {name} on {tr}")

    def plain_args(self, args, lines, pad, scope):
        return [self.ex(a, lines, pad, scope) for a in args]

    def call(self, e, lines, pad, scope):
        name, args = e[1], e[2]
        if name in ("cmp::min", "cmp::max") and len(args) == 2:
            if name[5:] in scope:
                raise ValueError(f"a variable named `{name[5:]}` is in scope where {name} is called (it would capture the Lean function)")
            (a, ta), (b, tb) = self.plain_args(args, lines, pad, scope)
            if ta not in ("Nat", "Lit") or tb not in ("Nat", "Lit"):
                raise ValueError(f"{name} on non-integers")
            return f"({name[5:]} {a} {b})", "Nat"
        simple = {"largest_power_of_two_leq": ("Gen.Rs.largest_power_of_two_leq", "Nat"),
                  "hazmat::left_subtree_len": ("Gen.Rs.left_subtree_len", "Nat"),
                  "hazmat::max_subtree_len": ("Gen.Rs.max_subtree_len", "OptNat")}
        if name in simple and len(args) == 1:
            a, ta = self.ex(args[0], lines, pad, scope)
            if ta not in ("Nat", "Lit"):
                raise ValueError(f"{name} on a non-integer")
            v = self.fresh()
            lines.append(f"{pad}let {v} ← {simple[name][0]} {a}")
            return v, simple[name][1]
        if name == "ChunkState::new" and len(args) == 4:
            ts = self.plain_args(args, lines, pad, scope)
            want = ["CV", "Nat", "U8", "Platform"]
            for (t, ty), w in zip(ts, want):
                if ty != w and not (ty == "Lit" and w in ("Nat", "U8")):
                    raise ValueError(f"ChunkState::new argument of type {ty} where {w} is expected")
            return f"(E.cs_new {ts[0][0]} {ts[1][0]} {ts[2][0]})", "CS"
        if name == "Platform::detect" and not args:
            return "()", "Platform"
        if name == "__output" and len(args) == 6:
            ts = self.plain_args(args, lines, pad, scope)
            want = ["CV", "CVs", "U8", "Nat", "U8", "Platform"]
            for (t, ty), w in zip(ts, want):
                if ty != w and not (ty == "Lit" and w in ("Nat", "U8")):
                    raise ValueError(f"Output field of type {ty} where {w} is expected")
            return "(E.mk_output " + " ".join(t for t, _ in ts[:5]) + ")", "Out"
        if name == "compress_subtree_to_parent_node" and self.cfg.get("given_to_parent_node"):
            ts = self.plain_args(args, lines, pad, scope)
            want = ["Bytes", "CV", "Nat", "U8", "Platform"]
            if [ty for _, ty in ts] != want:
                raise ValueError(f"compress_subtree_to_parent_node called with {[ty for _, ty in ts]}")
            v = self.fresh()
            lines.append(f"{pad}let {v} ← E.compress_subtree_to_parent_node " + " ".join(t for t, _ in ts[:4]))
            return v, "CVs"
        if name in FUNCS:
            f = FUNCS[name]
            if len(args) != len(f["params"]):
                raise ValueError(f"{name} called with {len(args)} arguments")
            terms, outs = [], []
            for a, (pn, _, pty) in zip(args, f["params"]):
                if pn in f["muts"]:
                    if a[0] != "var" or a[1] not in scope:
                        raise ValueError(f"{name}: the `&mut` argument must be a variable")
                    if scope[a[1]] != pty:
                        raise ValueError(f"{name}: `&mut` argument of type {scope[a[1]]}")
                    outs.append(a[1])
                    terms.append(a[1])
                    continue
                t, ty = self.ex(a, lines, pad, scope)
                if ty != pty and not (ty == "Lit" and pty in ("Nat", "U8")):
                    raise ValueError(f"{name}: argument {pn} has type {ty}, expected {pty}")
                if pty != "Platform":
                    terms.append(t)
            if f.get("recursive"):
                head = f"{name} fuel" if name == self.name else f"{ecall(name)} {terms[0]}.length"
            else:
                head = ecall(name)
            v = self.fresh()
            if outs:
                tmp_outs = [self.fresh() for _ in outs]
                lines.append(f"{pad}let ({v}, {', '.join(tmp_outs)}) ← {head} " + " ".join(terms))
                for o, t in zip(outs, tmp_outs):
                    self.rebind(o, t, lines, pad, False, scope)
            else:
                lines.append(f"{pad}let {v} ← {head} " + " ".join(terms))
            return v, f["ret"]
        raise ValueError(f"call {name}")

    # ---- conditions
    def cond(self, s, lines, pad, scope):
        s = s.strip()
        while s.startswith("(") and X.match_brace(s, 0, "(", ")") == len(s):
            s = s[1:-1].strip()
        neg = False
        if s.startswith("!"):
            neg = True
            s = s[1:].strip()
        m = re.match(r"^(.+)\.is_empty\(\)$", s, re.S)
        if m:
            r, tr = self.ex(parse(m.group(1)), lines, pad, scope)
            if tr not in ("Bytes", "CVs") and not (isinstance(tr, tuple) and tr[0] == "Vec"):
                raise ValueError(f"is_empty on {tr}")
            return f"(!{r}.isEmpty) = true" if neg else f"{r}.isEmpty = true"
        if neg:
            raise ValueError(f"condition !{s}")
        for op, lean in ((">=", "≥"), ("<=", "≤"), ("==", "="), ("!=", "≠"), (">", ">"), ("<", "<")):
            parts = X.split_top(s, op)
            if parts:
                a, ta = self.ex(parse(parts[0]), lines, pad, scope)
                b, tb = self.ex(parse(parts[1]), lines, pad, scope)
                if ta not in ("Nat", "Lit") or tb not in ("Nat", "Lit"):
                    raise ValueError(f"comparison of {ta} and {tb}")
                return f"{a} {lean} {b}"
        raise ValueError(f"condition {s!r}")

    # ---- blocks
    def tup(self, vs):
        return "()" if not vs else vs[0] if len(vs) == 1 else "(" + ", ".join(vs) + ")"

    def tuptype(self, vs, scope):
        return "Unit" if not vs else "(" + lean_ty(scope[vs[0]]) + ")" if len(vs) == 1 else "(" + " × ".join(lean_ty(scope[v]) for v in vs) + ")"

    def result(self, value, vty, lines, pad, scope):
        """the function's result: the value (unless it is `self`) together with the `&mut` parameters / self fields"""
        vals = []
        if vty != "Self":
            if vty != self.cfg["ret"] and not (vty == "Lit" and self.cfg["ret"] in ("Nat", "U8")):
                raise ValueError(f"result of type {vty}, expected {self.cfg['ret']}")
            vals.append(value)
        elif self.cfg["ret"] != "Self":
            raise ValueError("`self` returned from a function that is not a method")
        vals += self.cfg["muts"]
        lines.append(f"{pad}pure {self.tup(vals)}")

    def value(self, txt, lines, pad, scope):
        txt = txt.strip()
        if txt == "self":
            return "self", "Self"
        return self.ex(parse(txt), lines, pad, scope)

    def nested(self, stmts, pad, scope, tailfn):
        """translate a nested block that falls through; returns (lines, rebound outer variables, tail (term, type) | None)"""
        inner = dict(scope)
        self.reb.append([])
        tail = [None]
        lines = self.seq(stmts, pad, inner, None, tail_capture=tail)
        reb = self.reb.pop()
        reb = [v for v in reb if v in scope]
        return lines, reb, tail[0]

    def seq(self, stmts, pad, scope, kont, tail_capture=None):
        """lines for `stmts`; `kont(lines, pad, scope)` appends what follows when control reaches the end (None: nothing, the
        caller appends).  tail_capture: a one-element list receiving (term, type) of a tail expression instead of returning it
        from the function."""
        lines = []
        idx = 0
        while idx < len(stmts):
            st = stmts[idx]
            idx += 1
            rest = stmts[idx:]
            kind = st[0]
            if kind == "while":
                self.do_while(st, lines, pad, scope)
                continue
            if kind == "for":
                self.do_for(st, lines, pad, scope)
                continue
            if kind == "if":
                then = statements(st[2])
                els = statements(st[3]) if st[3] is not None else []
                mlet = re.match(r"^let\s+Some\(\s*(\w+)\s*\)\s*=\s*(.+)$", self.norm(st[1]), re.S)
                t_term, e_term = terminates(then), (st[3] is not None and terminates(els))
                if tail_capture is None and (has_return(then) or has_return(els) or ((t_term or e_term) and not rest)):
                    # control-flow `if`: some branch leaves the function
                    if mlet:
                        raise ValueError("`if let` with a return inside")
                    c = self.cond(self.norm(st[1]), lines, pad, scope)
                    falls = (0 if t_term else 1) + (0 if e_term else 1)
                    if rest and falls == 2:
                        jk = self.make_join(rest, scope, kont)
                    else:
                        def jk(ls, pd, sc, rest=rest, kont=kont):
                            ls += self.seq(rest, pd, sc, kont)
                    lines.append(f"{pad}if {c} then do")
                    lines += self.branch(then, pad + "  ", scope, jk)
                    lines.append(f"{pad}else do")
                    lines += self.branch(els, pad + "  ", scope, jk)
                    return lines
                # data-flow `if`: both branches fall through; the variables they assign are returned as a tuple
                if mlet:
                    if st[3] is not None:
                        raise ValueError("`if let .. else` is not supported")
                    o, to = self.ex(parse(mlet.group(2)), lines, pad, scope)
                    if to != "OptNat":
                        raise ValueError("`if let Some(..)` on a non-Option")
                    inner = dict(scope)
                    self.declare(mlet.group(1), "Nat", inner)
                    tl, reb, _ = self.nested(then, pad + "    ", inner, None)
                    reb = [v for v in reb if v in scope]
                    head = f"{pad}let {self.tup(reb)} ← (" if reb else f"{pad}("
                    lines.append(f"{head}match {o} with")
                    lines.append(f"{pad}  | some {mlet.group(1)} => do")
                    lines += tl + [f"{pad}    pure {self.tup(reb)}"]
                    lines.append(f"{pad}  | none => pure {self.tup(reb)})")
                    for v in reb:
                        self.note_rebound(v, None)
                    continue
                c = self.cond(self.norm(st[1]), lines, pad, scope)
                tl, r1, _ = self.nested(then, pad + "    ", scope, None)
                el, r2, _ = self.nested(els, pad + "    ", scope, None)
                reb = [v for v in scope if v in r1 or v in r2]
                head = f"{pad}let {self.tup(reb)} ← (" if reb else f"{pad}("
                lines.append(f"{head}if {c} then do")
                lines += tl + [f"{pad}    pure {self.tup(reb)}"]
                lines.append(f"{pad}  else do")
                lines += el + [f"{pad}    pure {self.tup(reb)})"]
                for v in reb:
                    self.note_rebound(v, None)
                continue
            t = self.norm(st[1])
            if kind == "tail":
                if re.match(r"^Output\s*\{", t):
                    t = self.output_literal(t)
                v, ty = self.value(t, lines, pad, scope)
                if tail_capture is not None:
                    tail_capture[0] = (v, ty)
                    return lines
                self.result(v, ty, lines, pad, scope)
                return lines
            if self.stmt(t, lines, pad, scope):
                return lines
        if kont is not None:
            kont(lines, pad, scope)
        return lines

    def branch(self, stmts, pad, scope, kont):
        inner = dict(scope)
        return self.seq(stmts, pad, inner, kont)

    def make_join(self, rest, scope, kont):
        """the statements after an `if` that two paths reach become a definition `<fn>_rest<k>`"""
        self.njoins += 1
        jname = f"{self.name}_rest{self.njoins}"
        inner = dict(scope)
        saved = (self.reb, self.tmp)
        self.reb = [[]]
        body = self.seq(rest, "  ", inner, kont)
        self.reb = saved[0]
        txt = "\n".join(body)
        params = [v for v in scope if re.search(r"(?<![\w.])%s\b" % re.escape(v), txt)]
        sig = " ".join(f"({v} : {lean_ty(scope[v])})" for v in params)
        self.defs.append("\n".join([f"/-- `{self.name}`: the code after a conditional that may return early -/",
                                    f"def {jname} {sig} : R {self.cfg['lean_ret']} := do"] + body + [""]))
        note_def(jname, txt)

        def jk(ls, pd, sc):
            ls.append(f"{pd}{ecall(jname)} " + " ".join(params))
        return jk

    def loop_params(self, svars, scope, text_lines):
        txt = "\n".join(text_lines)
        return [v for v in scope if v not in svars and re.search(r"(?<![\w.])%s\b" % re.escape(v), txt)]

    def do_while(self, st, lines, pad, scope):
        self.nloops += 1
        k = self.nloops
        lname = f"{self.name}_loop{k}" if k > 1 else f"{self.name}_loop"
        inner = dict(scope)
        cl = []
        c = self.cond(self.norm(st[1]), cl, "      ", inner)
        self.reb.append([])
        bl = self.seq(statements(st[2]), "        ", inner, None)
        popped = self.reb.pop()
        svars = [v for v in scope if v in popped]
        if not svars:
            raise ValueError("loop assigns nothing")
        ro = self.loop_params(svars, scope, cl + bl + [c])
        args = svars + ro
        d = [f"def {lname} : Nat → " + " → ".join(lean_ty(scope[v]) for v in args) + f" → R {self.tuptype(svars, scope)}",
             "  | 0, " + ", ".join("_" for _ in args) + " => .panic   -- out of fuel",
             "  | fuel + 1, " + ", ".join(args) + " => do"]
        d += cl
        d += [f"      if {c} then do"] + bl + [f"        {lname} fuel " + " ".join(args), f"      else pure {self.tup(svars)}", ""]
        self.defs.append("\n".join(d))
        note_def(lname, "\n".join(d))
        fuel = self.cfg["fuel"].get(k)
        if fuel is None:
            raise ValueError(f"no fuel configured for loop {k}")
        lines.append(f"{pad}let {self.tup(svars)} ← {ecall(lname)} ({fuel}) " + " ".join(args))
        for v in svars:
            self.note_rebound(v, None)

    def do_for(self, st, lines, pad, scope):
        var, it, body = st[1], self.norm(st[2]), st[3]
        m = re.match(r"^&mut\s+(\w+)$", it)
        if not m or m.group(1) not in scope or not (isinstance(scope[m.group(1)], tuple) and scope[m.group(1)][0] == "Chunks"
                                                     and len(scope[m.group(1)]) == 2):
            raise ValueError(f"for loop over {it!r} (only `&mut <chunks_exact iterator>` is supported)")
        itv = m.group(1)
        self.nloops += 1
        k = self.nloops
        lname = f"{self.name}_for{k}" if k > 1 else f"{self.name}_for"
        inner = dict(scope)
        self.declare(var, scope[itv][1], inner)
        self.reb.append([])
        bl = self.seq(statements(body), "      ", inner, None)
        popped = self.reb.pop()
        svars = [v for v in scope if v in popped]
        if not svars:
            raise ValueError("loop assigns nothing")
        ro = self.loop_params(svars, scope, bl)
        if itv in ro:
            raise ValueError("the loop body uses the iterator")
        args = svars + ro
        ety = lean_ty(scope[itv][1])
        d = [f"def {lname} : List ({ety}) → " + " → ".join(lean_ty(scope[v]) for v in args) + f" → R {self.tuptype(svars, scope)}",
             "  | [], " + ", ".join(args) + f" => pure {self.tup(svars)}",
             f"  | {var} :: rest, " + ", ".join(args) + " => do"]
        d += bl + [f"      {lname} rest " + " ".join(args), ""]
        self.defs.append("\n".join(d))
        note_def(lname, "\n".join(d))
        lines.append(f"{pad}let {self.tup(svars)} ← {ecall(lname)} {itv}.1 " + " ".join(args))
        # the iterator is exhausted: only its remainder may be used from here on
        scope[itv] = ("Chunks", scope[itv][1], "exhausted")
        for v in svars:
            self.note_rebound(v, None)

    def output_literal(self, t):
        m = re.match(r"^Output\s*\{(.*)\}$", t, re.S)
        if not m:
            raise ValueError("Output literal")
        fields = {}
        for f in top_split(m.group(1)):
            mm = re.match(r"^(\w+)\s*(?::\s*(.+))?$", f, re.S)
            if not mm:
                raise ValueError(f"Output field {f!r}")
            fields[mm.group(1)] = mm.group(2) if mm.group(2) else mm.group(1)
        order = ["input_chaining_value", "block", "block_len", "counter", "flags", "platform"]
        if sorted(fields) != sorted(order):
            raise ValueError(f"Output literal with fields {sorted(fields)}")
        return "__output(" + ", ".join(fields[k] for k in order) + ")"

    # ---- simple statements; returns True when the statement leaves the function
    def stmt(self, t, lines, pad, scope):
        if re.match(r"^debug_assert(_eq)?!\s*\(", t):
            return False
        m = re.match(r"^assert!\s*\((.*)\)$", t, re.S)
        if m:
            c = self.cond(top_split(m.group(1))[0], lines, pad, scope)
            lines.append(f"{pad}Arith.assertTrue (decide ({c}))")
            return False
        m = re.match(r"^return\s+(.+)$", t, re.S)
        if m:
            r = m.group(1).strip()
            if re.match(r"^Output\s*\{", r):
                r = self.output_literal(r)
            v, ty = self.value(r, lines, pad, scope)
            self.result(v, ty, lines, pad, scope)
            return True
        # let (a, b) = J::join(|| A, || B);
        m = re.match(r"^let\s+\(\s*(\w+)\s*,\s*(\w+)\s*\)\s*=\s*J::join\((.*)\)$", t, re.S)
        if m:
            cl = top_split(m.group(3))
            if len(cl) != 2 or not all(c.startswith("||") for c in cl):
                raise ValueError("J::join expects two closures without parameters")
            for v, c in zip((m.group(1), m.group(2)), cl):
                term, ty = self.ex(parse(c[2:].strip()), lines, pad, scope)
                self.declare(v, ty, scope)
                lines.append(f"{pad}let {v} := {term}")
            return False
        m = re.match(r"^let\s+\(\s*(\w+)\s*,\s*(\w+)\s*\)\s*=\s*(.+)$", t, re.S)
        if m:
            rhs = parse(m.group(3))
            term, ty = self.ex(rhs, lines, pad, scope)
            if not (isinstance(ty, tuple) and ty[0] == "Tuple" and len(ty[1]) == 2):
                raise ValueError("tuple pattern on a non-pair")
            a, b = m.group(1), m.group(2)
            self.declare(a, ty[1][0], scope)
            self.declare(b, ty[1][1], scope)
            lines.append(f"{pad}let {a} := {term}.1")
            lines.append(f"{pad}let {b} := {term}.2")
            if rhs[0] == "method" and rhs[2] == "split_at_mut":
                if rhs[1][0] != "var":
                    raise ValueError("split_at_mut on a non-variable")
                self.views[a] = self.views[b] = rhs[1][1]
                self.viewpairs[rhs[1][1]] = (a, b)
            return False
        m = re.match(r"^let\s+(?:mut\s+)?(\w+)(?:\s*:\s*[^=]+)?\s*=\s*(.+)$", t, re.S)
        if m:
            name, rhs = m.group(1), m.group(2).strip()
            mm = re.match(r"^\[\s*0\s*;\s*(.+)\]$", rhs, re.S)
            if mm:
                n = self.units(parse(mm.group(1)), lines, pad, scope)
                self.declare(name, "CVs", scope)
                lines.append(f"{pad}let {name} : List CV := List.replicate ({n}) zeroCV")
                return False
            mm = re.match(r"^ArrayVec::<\s*&\[\s*u8\s*;\s*(\w+)\s*\]\s*,\s*(\w+)\s*>::new\(\)$", rhs)
            if mm:
                cap, _ = self.ex(parse(mm.group(2)), lines, pad, scope)
                key = f"{self.name}.{name}"
                VECINFO[key] = dict(elem=None, cap=cap, n=mm.group(1))
                self.declare(name, ("Vec", key), scope)
                self.vecdecl[name] = (lines, len(lines), pad)
                lines.append(None)
                return False
            if re.match(r"^if\b", rhs):
                sts = statements(rhs)
                if len(sts) != 1 or sts[0][0] != "if" or sts[0][3] is None:
                    raise ValueError("`let x = if ..` without else")
                c = self.cond(self.norm(sts[0][1]), lines, pad, scope)
                t1, t2 = [None], [None]
                inner1, inner2 = dict(scope), dict(scope)
                self.reb.append([])
                l1 = self.seq(statements(sts[0][2]), pad + "    ", inner1, None, tail_capture=t1)
                l2 = self.seq(statements(sts[0][3]), pad + "    ", inner2, None, tail_capture=t2)
                popped = self.reb.pop()
                reb = [v for v in scope if v in popped]
                if reb:
                    raise ValueError("`let x = if ..` whose branches assign variables")
                if t1[0] is None or t2[0] is None:
                    raise ValueError("`let x = if ..` branch without a value")
                ty = t1[0][1] if t1[0][1] != "Lit" else t2[0][1]
                if ty == "Lit":
                    ty = "Nat"
                lines.append(f"{pad}let {name} ← (if {c} then do")
                lines += l1 + [f"{pad}    pure {t1[0][0]}", f"{pad}  else do"] + l2 + [f"{pad}    pure {t2[0][0]})"]
                self.declare(name, ty, scope)
                return False
            if re.match(r"^Output\s*\{", rhs):
                rhs = self.output_literal(rhs)
            term, ty = self.ex(parse(rhs), lines, pad, scope)
            if ty == "Lit":
                ty = "Nat"
            if ty == "Platform":
                self.declare(name, ty, scope)
                return False
            self.declare(name, ty, scope)
            lines.append(f"{pad}let {name} := {term}")
            return False
        # *array_mut_ref!(x, off, len) = e
        m = re.match(r"^\*\s*array_mut_ref!\((.*)\)\s*=\s*(.+)$", t, re.S)
        if m:
            a = top_split(m.group(1))
            if len(a) != 3 or a[0] not in scope or scope[a[0]] != "CVs":
                raise ValueError("array_mut_ref! on something that is not an array of chaining values")
            off = self.units(parse(a[1]), lines, pad, scope)
            ln = self.units(parse(a[2]), lines, pad, scope)
            if ln != "1":
                raise ValueError("array_mut_ref! of a length other than OUT_LEN")
            v, ty = self.ex(parse(m.group(2)), lines, pad, scope)
            if ty != "CV":
                raise ValueError("array_mut_ref! assigned a non-CV")
            self.rebind(a[0], f"setIdx {a[0]} {off} {v}", lines, pad, True, scope)
            return False
        # field assignments on the chunk state
        m = re.match(r"^chunk_state\.chunk_counter\s*(\+|-)?=\s*(.+)$", t, re.S)
        if m and scope.get("chunk_state") == "CS":
            v, ty = self.ex(parse(m.group(2)), lines, pad, scope)
            if ty not in ("Nat", "Lit"):
                raise ValueError("chunk_counter assigned a non-integer")
            if m.group(1):
                w = self.fresh()
                f = "Arith.cadd" if m.group(1) == "+" else "Arith.csub"
                lines.append(f"{pad}let {w} ← {f} (E.cs_chunk_counter chunk_state) {v}")
                v = w
            self.rebind("chunk_state", f"E.cs_set_chunk_counter chunk_state {v}", lines, pad, False, scope)
            return False
        m = re.match(r"^(\w+)\s*([-+/])=\s*(.+)$", t, re.S)
        if m and m.group(1) in scope:
            v, ty = self.ex(parse(m.group(3)), lines, pad, scope)
            if scope[m.group(1)] != "Nat" or ty not in ("Nat", "Lit"):
                raise ValueError("compound assignment on non-integers")
            f = {"+": "Arith.cadd", "-": "Arith.csub", "/": "Arith.cdiv"}[m.group(2)]
            self.rebind(m.group(1), f"{f} {m.group(1)} {v}", lines, pad, True, scope)
            return False
        m = re.match(r"^(\w+)\s*=(?!=)\s*(.+)$", t, re.S)
        if m and m.group(1) in scope:
            v, ty = self.ex(parse(m.group(2)), lines, pad, scope)
            want = scope[m.group(1)]
            if ty != want and not (ty == "Lit" and want in ("Nat", "U8")):
                raise ValueError(f"assignment of a {ty} to {m.group(1)} : {want}")
            self.rebind(m.group(1), v, lines, pad, False, scope)
            return False
        # method-call statements
        e = None
        try:
            e = parse(t)
        except Exception:
            pass
        if e is not None and e[0] == "method":
            recv, name, args = e[1], e[2], e[3]
            if recv == ("var", "self") and name in ("push_cv", "merge_cv_stack"):
                ts = self.plain_args(args, lines, pad, scope)
                want = ["CV", "Nat"] if name == "push_cv" else ["Nat"]
                if [ty for _, ty in ts] != want:
                    raise ValueError(f"self.{name} called with {[ty for _, ty in ts]}")
                po = "(fun l r => E.parent_node_output l r key (E.cs_flags chunk_state))"
                self.rebind("cv_stack", f"Gen.Rs.Skel.{name} {po} E.chaining_value cv_stack initial_chunk_counter "
                            + " ".join(x for x, _ in ts), lines, pad, True, scope)
                return False
            if name == "update" and len(args) == 1 and recv[0] == "var" and scope.get(recv[1]) == "CS":
                a, ta = self.ex(args[0], lines, pad, scope)
                if ta != "Bytes":
                    raise ValueError("ChunkState::update on a non-byte-slice")
                self.rebind(recv[1], f"E.cs_update {recv[1]} {a}", lines, pad, False, scope)
                return False
            if name == "push" and len(args) == 1 and recv[0] == "var" and isinstance(scope.get(recv[1]), tuple) and scope[recv[1]][0] == "Vec":
                a, ta = self.ex(args[0], lines, pad, scope)
                vi = VECINFO[scope[recv[1]][1]]
                if vi["elem"] is None:
                    vi["elem"] = ta
                    dl, di, dpad = self.vecdecl.pop(recv[1])
                    dl[di] = f"{dpad}let {recv[1]} : List ({lean_ty(ta)}) := []"
                elif vi["elem"] != ta:
                    raise ValueError("push of a different element type")
                self.rebind(recv[1], f"pushCap {vi['cap']} {recv[1]} {a}", lines, pad, True, scope)
                return False
            if name == "copy_from_slice" and len(args) == 1:
                # X[a..][..b]  |  X[..b]  |  X[a..b]
                r = recv
                off, ln = None, None
                if r[0] == "slice" and r[1][0] == "slice" and r[1][3] is None and r[2] is None and r[3] is not None and r[1][1][0] == "var":
                    base, off_e, len_e = r[1][1][1], r[1][2], r[3]
                elif r[0] == "slice" and r[1][0] == "var" and r[2] is None and r[3] is not None:
                    base, off_e, len_e = r[1][1], None, r[3]
                else:
                    raise ValueError("copy_from_slice on an unsupported place expression")
                if scope.get(base) != "CVs":
                    raise ValueError("copy_from_slice into something that is not an array of chaining values")
                off = self.units(off_e, lines, pad, scope) if off_e is not None else "0"
                ln = self.units(len_e, lines, pad, scope)
                s, ts_ = self.ex(args[0], lines, pad, scope)
                if ts_ != "CVs":
                    raise ValueError("copy_from_slice from a non-CV array")
                self.rebind(base, f"copyInto {base} {off} {ln} {s}", lines, pad, True, scope)
                return False
            if name == "hash_many":
                r, tr = self.ex(recv, lines, pad, scope)
                if tr != "Platform" or len(args) != 8:
                    raise ValueError("hash_many: unexpected receiver / argument count")
                ts = self.plain_args(args[:7], lines, pad, scope)
                o = args[7]
                if o[0] != "var" or scope.get(o[1]) != "CVs":
                    raise ValueError("hash_many: the output must be a variable holding chaining values")
                vt = ts[0][1]
                if not (isinstance(vt, tuple) and vt[0] == "Vec"):
                    raise ValueError("hash_many: inputs are not an ArrayVec")
                vi = VECINFO[vt[1]]
                want = [None, "CV", "Nat", "Bool", "U8", "U8", "U8"]
                for (x, ty), w in list(zip(ts, want))[1:]:
                    if ty != w and not (ty == "Lit" and w in ("Nat", "U8")):
                        raise ValueError(f"hash_many: argument of type {ty} where {w} is expected")
                n = X.const_eval(self.subst_consts(("var", vi["n"])))
                if n is None:
                    raise ValueError("hash_many: unknown input array length")
                inputs = ts[0][0] if vi["elem"] == "Bytes" else f"({ts[0][0]}.map cvsBytes)"
                self.rebind(o[1], f"E.hash_many {n} {inputs} " + " ".join(x for x, _ in ts[1:]) + f" {o[1]}", lines, pad, True, scope)
                return False
        raise ValueError(f"statement {t!r}")


# ------------------------------------------------------------------------------------------------
# the generated file

PREAMBLE = r'''/- GENERATED by gen/ext_upd.py from /repo/src/lib.rs (Hasher::count, Hasher::update_with_join,
compress_parents_parallel, compress_chunks_parallel, compress_subtree_wide, compress_subtree_to_parent_node,
hash_all_at_once) -- do not edit -/
import B3.Prim
import B3.Arith
import B3.Gen.Arith
import B3.Gen.Skeleton
namespace B3.Gen.RsUpdate
open B3

/-! fixed vocabulary of the translation (not derived from the source): slices and arrays that panic out of range -/

/-- `&s[..n]` -/
def sliceTo {α : Type} (s : List α) (n : Nat) : R (List α) := if n ≤ s.length then .ok (s.take n) else .panic
/-- `&s[n..]` -/
def sliceFrom {α : Type} (s : List α) (n : Nat) : R (List α) := if n ≤ s.length then .ok (s.drop n) else .panic
/-- `&s[a..b]` -/
def sliceRange {α : Type} (s : List α) (a b : Nat) : R (List α) :=
  if a ≤ b ∧ b ≤ s.length then .ok ((s.take b).drop a) else .panic
/-- `array_ref!(s, off, len)` -/
def arrayRef {α : Type} (s : List α) (off len : Nat) : R (List α) :=
  if off + len ≤ s.length then .ok ((s.drop off).take len) else .panic
/-- `s.split_at(n)` / `s.split_at_mut(n)` -/
def splitAt {α : Type} (s : List α) (n : Nat) : R (List α × List α) :=
  if n ≤ s.length then .ok (s.take n, s.drop n) else .panic
/-- `ArrayVec::push` on a vector of capacity `cap` -/
def pushCap {α : Type} (cap : Nat) (v : List α) (x : α) : R (List α) := if v.length < cap then .ok (v ++ [x]) else .panic
/-- `dst[off..][..len].copy_from_slice(src)` -/
def copyInto {α : Type} (dst : List α) (off len : Nat) (src : List α) : R (List α) :=
  if off + len ≤ dst.length ∧ src.length = len then .ok (dst.take off ++ src ++ dst.drop (off + len)) else .panic
/-- `*array_mut_ref!(dst, i * OUT_LEN, OUT_LEN) = x` -/
def setIdx {α : Type} (dst : List α) (i : Nat) (x : α) : R (List α) := if i < dst.length then .ok (dst.set i x) else .panic
/-- `s.chunks_exact(n)`: the whole chunks and the remainder -/
def chunksExact {α : Type} (n : Nat) (s : List α) : List (List α) × List α :=
  if h : 0 < n ∧ n ≤ s.length then
    let r := chunksExact n (s.drop n)
    (s.take n :: r.1, r.2)
  else ([], s)
termination_by s.length
decreasing_by simp [List.length_drop]; omega

/-- the all-zero chaining value (`[0; N]` array initialisers) -/
def zeroCV : CV := Vector.replicate 8 0
/-- the bytes of an array of chaining values (`&[u8; BLOCK_LEN]` inputs of `hash_many` for parents) -/
def cvsBytes (cvs : List CV) : List UInt8 := cvs.flatMap bytesOfWords

/-- what the translated functions take as given: `ChunkState` (`new`, `update`, `output`, `count`, the fields
`chunk_counter` and `flags`), `Output::chaining_value`, `parent_node_output`, the `Output` constructor, and the platform
(`hash_many` with the input array length `N` first, `simd_degree`, the MAX_SIMD_DEGREE constants); for
`update_with_join` also `compress_subtree_to_parent_node` (the 64-byte parent block as two chaining values) -/
structure Env (CS Out : Type) where
  cs_new : CV → Nat → UInt8 → CS
  cs_update : CS → List UInt8 → CS
  cs_output : CS → Out
  cs_count : CS → Nat
  cs_chunk_counter : CS → Nat
  cs_flags : CS → UInt8
  cs_set_chunk_counter : CS → Nat → CS
  chaining_value : Out → CV
  parent_node_output : CV → CV → CV → UInt8 → Out
  mk_output : CV → List CV → UInt8 → Nat → UInt8 → Out
  compress_subtree_to_parent_node : List UInt8 → CV → Nat → UInt8 → R (List CV)
  hash_many : Nat → List (List UInt8) → CV → Nat → Bool → UInt8 → UInt8 → UInt8 → List CV → R (List CV)
  simd_degree : Nat
  MAX_SIMD_DEGREE : Nat
  MAX_SIMD_DEGREE_OR_2 : Nat

variable {CS Out : Type} (E : Env CS Out)

'''


def u8_consts():
    return {n: X.rust_const_int(A, "src/lib.rs", n) for n in U8_CONSTS}


def translate_fn(name, header_re, cfg, sig, doc, consts, u8c, self_kind=None, expected_params=None, rust_ret=None):
    params, body = X.find_fn(A, "src/lib.rs", header_re)
    if expected_params is not None:
        check_params(name, params, expected_params, self_kind)
    if rust_ret is not None:
        got = ret_type(A, "src/lib.rs", header_re)
        if got != rust_ret:
            raise TB(A, f"{name}: return type changed: {got!r} (expected {rust_ret!r})")
    body = strip_strings(X.strip_comments(body))
    body = re.sub(r"::<\s*J\s*>", "", body)
    tr = Tr(name, consts, u8c, cfg)
    scope = dict(cfg["scope"])
    try:
        lines = tr.seq(statements(body), "  " if not cfg.get("recursive") else "    ", scope,
                       (lambda ls, pd, sc: tr.result("self", "Self", ls, pd, sc)) if cfg["ret"] == "Self" else
                       (lambda ls, pd, sc: (_ for _ in ()).throw(ValueError("the function body ends without a value"))))
    except TB:
        raise
    except Exception as ex:
        raise TB(A, f"{name}: {ex}")
    if tr.vecdecl:
        raise TB(A, f"{name}: ArrayVec {sorted(tr.vecdecl)} is never pushed to")
    out = list(tr.defs)
    out.append(f"/-- {doc} -/")
    if cfg.get("recursive"):
        names = [v for v, _ in cfg["scope_params"]]
        out.append(f"def {name} : Nat → " + " → ".join(lean_ty(t) for _, t in cfg["scope_params"]) + f" → R {cfg['lean_ret']}")
        out.append("  | 0, " + ", ".join("_" for _ in names) + " => .panic   -- out of fuel")
        out.append("  | fuel + 1, " + ", ".join(names) + " => do")
    else:
        out.append(f"def {name} {sig} : R {cfg['lean_ret']} := do")
    out.extend(lines)
    out.append("")
    note_def(name, "\n".join(lines))
    return "\n".join(out)


def gen_update():
    consts = dict(X.rust_consts())
    u8c = u8_consts()
    o = [PREAMBLE]
    SUBST = [("self.chunk_state", "chunk_state"), ("self.cv_stack", "cv_stack"),
             ("self.initial_chunk_counter", "initial_chunk_counter"), ("self.key", "key")]
    # ---- Hasher::count
    cfg = dict(muts=[], ret="Nat", lean_ret="Nat", subst=SUBST, fuel={},
               scope={"chunk_state": "CS", "initial_chunk_counter": "Nat"})
    o.append(translate_fn("hasher_count", r"pub\s+fn\s+count\s*\(\s*&self\s*\)\s*->\s*u64", cfg,
                          "(chunk_state : CS) (initial_chunk_counter : Nat)",
                          "`Hasher::count` (u64 arithmetic checked)", consts, u8c))
    # ---- Hasher::update_with_join
    cfg = dict(muts=["chunk_state", "cv_stack"], ret="Self", lean_ret="(CS × List CV)", subst=SUBST,
               fuel={1: "input.length + 1", 2: "64"}, given_to_parent_node=True,
               scope={"key": "CV", "chunk_state": "CS", "initial_chunk_counter": "Nat", "cv_stack": "CVs", "input": "Bytes"})
    o.append(translate_fn("update_with_join", r"fn\s+update_with_join\s*<\s*J\s*:\s*join::Join\s*>\s*\(", cfg,
                          "(key : CV) (chunk_state : CS) (initial_chunk_counter : Nat) (cv_stack : List CV) (input : List UInt8)",
                          "`Hasher::update_with_join`: returns the new `(chunk_state, cv_stack)` (`key` and `initial_chunk_counter` are "
                          "not assigned). The `J: Join` parameter is dropped (no schedule in the model); `debug_assert`s are dropped; "
                          "`assert!`, slicing, `unwrap`s inside `push_cv` / `merge_cv_stack` and u64 overflow panic",
                          consts, u8c, self_kind="&mutself", expected_params=[("input", "&[u8]", "Bytes")], rust_ret="&mutSelf"))
    # ---- part 2
    docs = {
        "compress_parents_parallel": "`compress_parents_parallel`: returns the number of chaining values written and the new `out` "
                                     "(`debug_assert`s dropped; the ArrayVec capacity, `hash_many`'s output size and the copy of the odd child are checked)",
        "compress_chunks_parallel": "`compress_chunks_parallel`: returns the number of chaining values written and the new `out` "
                                    "(`debug_assert`s dropped; the ArrayVec capacity, `hash_many`'s output size and the write of the last chaining value are checked)",
        "compress_subtree_wide": "`compress_subtree_wide` (recursion by fuel; `J::join(a, b)` runs `a` then `b`: the model has no schedule; "
                                 "`debug_assert`s dropped): returns the number of chaining values written and the new `out`",
        "compress_subtree_to_parent_node": "`compress_subtree_to_parent_node`: the 64-byte parent block as two chaining values "
                                           "(`debug_assert`s dropped)",
        "hash_all_at_once": "`hash_all_at_once` (`Platform::detect()` is the environment `E`)",
    }
    fuels = {"compress_subtree_to_parent_node": {1: "num_cvs + 1"}}
    for name in ["compress_parents_parallel", "compress_chunks_parallel", "compress_subtree_wide",
                 "compress_subtree_to_parent_node", "hash_all_at_once"]:
        f = FUNCS[name]
        sp = [(n, t) for n, _, t in f["params"] if t != "Platform"]
        scope = {n: t for n, _, t in f["params"]}
        lean_ret = "(" + lean_ty(f["ret"]) + ")" if not f["muts"] else "(" + " × ".join([lean_ty(f["ret"])] + [lean_ty(scope[m]) for m in f["muts"]]) + ")"
        cfg = dict(muts=f["muts"], ret=f["ret"], lean_ret=lean_ret, subst=[], fuel=fuels.get(name, {}), scope=scope,
                   recursive=f.get("recursive", False), scope_params=sp)
        sig = " ".join(f"({n} : {lean_ty(t)})" for n, t in sp)
        o.append(translate_fn(name, f["header"], cfg, sig, docs[name], consts, u8c, expected_params=f["params"], rust_ret=f["rust_ret"]))
    o.append("end B3.Gen.RsUpdate")
    return "\n".join(o) + "\n"


ARTEFACTS = [("RsUpdate.lean", A, gen_update)]
