#!/usr/bin/env python3
"""
Translator: /repo sources  ->  /verif/lean/B3/Gen/*.lean   (run on every check).

Small anchored extractors.  Each one finds a function / constant by name in a source file, parses
its body with a tiny expression parser (Rust and C surface syntax for straight-line integer code)
and emits a Lean definition.  A source span that can no longer be found or parsed raises
TranslationBroken(artefact, reason); the orchestrator reports that for the properties that depend
on the artefact.  Files are written only if their content changed (so lake does no work on an
unchanged tree).

Primitive mapping (trusted, validated by running the generated functions against the real ones):
  Rust  a.wrapping_add(b) -> a + b        (UInt32 arithmetic wraps)
        a.rotate_right(n) -> rotr a n
        a ^ b, a | b, a & b, a >> n, a << n -> ^^^ ||| &&& >>> <<<
        x as u32 (from u64) -> x.toUInt32 ; x as u32 (from u8) -> x.toUInt32
        u32::from_le_bytes(*array_ref!(b, o, 4)) -> le32 b[o] b[o+1] b[o+2] b[o+3]
  C     unsigned + on uint32_t -> + ; rotr32(w, c) -> rotr w c ; (uint32_t)x -> x.toUInt32
        load32(block + 4*i) is the word already (block passed as 16 words; load32 itself is G2c)
"""
import hashlib
import json
import os
import re
import sys

REPO = os.environ.get("VERIF_REPO", "/repo")
OUT = os.path.join(os.path.dirname(os.path.abspath(__file__)), "..", "lean", "B3", "Gen")


class TranslationBroken(Exception):
    def __init__(self, artefact, reason):
        super().__init__(f"{artefact}: {reason}")
        self.artefact = artefact
        self.reason = reason


# ------------------------------------------------------------------------------------------------
# source access

_src_cache = {}
SPANS = []  # (artefact, file, first line, last line, sha256 of span)


def src(rel):
    if rel not in _src_cache:
        with open(os.path.join(REPO, rel), encoding="utf-8") as f:
            _src_cache[rel] = f.read()
    return _src_cache[rel]


def strip_comments(text):
    text = re.sub(r"/\*.*?\*/", lambda m: re.sub(r"[^\n]", " ", m.group(0)), text, flags=re.S)
    text = re.sub(r"//[^\n]*", "", text)
    return text


def record_span(artefact, rel, start, end):
    text = src(rel)
    l0 = text.count("\n", 0, start) + 1
    l1 = text.count("\n", 0, end) + 1
    SPANS.append((artefact, rel, l0, l1, hashlib.sha256(text[start:end].encode()).hexdigest()[:16]))


def match_brace(text, i, open_c="{", close_c="}"):
    """index just after the bracket that closes the one at text[i]"""
    assert text[i] == open_c
    depth = 0
    while i < len(text):
        if text[i] == open_c:
            depth += 1
        elif text[i] == close_c:
            depth -= 1
            if depth == 0:
                return i + 1
        i += 1
    raise ValueError("unbalanced")


def find_fn(artefact, rel, header_re):
    """return (params text, body text without outer braces) of the function whose header matches"""
    text = src(rel)
    m = re.search(header_re, text)
    if not m:
        raise TranslationBroken(artefact, f"function header /{header_re}/ not found in {rel}")
    p0 = text.index("(", m.start())
    p1 = match_brace(text, p0, "(", ")")
    b0 = text.index("{", p1)
    b1 = match_brace(text, b0)
    record_span(artefact, rel, m.start(), b1)
    return strip_comments(text[p0 + 1:p1 - 1]), strip_comments(text[b0 + 1:b1 - 1])


def find_const(artefact, rel, regex):
    text = src(rel)
    m = re.search(regex, text, flags=re.S)
    if not m:
        raise TranslationBroken(artefact, f"constant /{regex}/ not found in {rel}")
    record_span(artefact, rel, m.start(), m.end())
    return m


# ------------------------------------------------------------------------------------------------
# expression parser (Pratt) for the Rust / C subset

TOKEN_RE = re.compile(r"""
    (?P<num>0[xX][0-9a-fA-F_]+|\d[\d_]*)(?P<suffix>u8|u32|u64|usize|UL|ULL|U|L)?
  | (?P<id>[A-Za-z_][A-Za-z0-9_]*(?:::[A-Za-z_][A-Za-z0-9_]*)*!?)
  | (?P<op>>>=|<<=|\^=|\|=|&=|\+=|-=|>>|<<|==|!=|<=|>=|&&|\|\||[-+*/%^|&~!<>=(){}\[\],;.:?])
  | (?P<ws>\s+)
""", re.X)


def tokenize(s):
    out = []
    i = 0
    while i < len(s):
        m = TOKEN_RE.match(s, i)
        if not m:
            raise ValueError(f"cannot tokenize at {s[i:i+30]!r}")
        i = m.end()
        if m.group("ws"):
            continue
        if m.group("num"):
            out.append(("num", int(m.group("num").replace("_", ""), 0)))
        elif m.group("id"):
            out.append(("id", m.group("id")))
        else:
            out.append(("op", m.group("op")))
    return out


BINOPS = {"|": 1, "^": 2, "&": 3, "<<": 5, ">>": 5, "+": 6, "-": 6, "*": 7, "/": 7, "%": 7}


class P:
    def __init__(self, toks):
        self.t = toks
        self.i = 0

    def peek(self, k=0):
        return self.t[self.i + k] if self.i + k < len(self.t) else ("eof", None)

    def next(self):
        x = self.peek()
        self.i += 1
        return x

    def expect(self, op):
        x = self.next()
        if x != ("op", op):
            raise ValueError(f"expected {op} got {x}")

    def at(self, op):
        return self.peek() == ("op", op)

    def args(self, close=")"):
        a = []
        while not self.at(close):
            a.append(self.expr())
            if self.at(","):
                self.next()
        self.expect(close)
        return a

    def primary(self):
        k, v = self.next()
        if k == "num":
            return ("num", v)
        if k == "id":
            if self.at("(") and not v.endswith("!"):
                self.next()
                return ("call", v, self.args())
            if v.endswith("!"):
                self.expect("(")
                return ("macro", v[:-1], self.args())
            return ("var", v)
        if (k, v) == ("op", "("):
            # C cast: (uint32_t)expr
            if self.peek()[0] == "id" and self.peek()[1] in ("uint32_t", "uint64_t", "uint8_t", "size_t") \
                    and self.peek(1) == ("op", ")"):
                ty = self.next()[1]
                self.next()
                return ("cast", self.unary(), ty)
            e = self.expr()
            self.expect(")")
            return ("paren", e)
        if (k, v) == ("op", "["):
            items = self.args("]") if not self._is_repeat() else None
            return ("array", items)
        raise ValueError(f"unexpected token {k} {v}")

    def _is_repeat(self):
        return False

    def unary(self):
        if self.at("&") or self.at("*"):
            self.next()
            if self.peek() == ("id", "mut"):
                self.next()
            return self.unary()
        if self.at("-"):
            self.next()
            return ("neg", self.unary())
        return self.postfix()

    def postfix(self):
        e = self.primary()
        while True:
            if self.at("["):
                self.next()
                idx = self.expr()
                self.expect("]")
                e = ("index", e, idx)
            elif self.at(".") and self.peek(1)[0] == "id":
                self.next()
                name = self.next()[1]
                if self.at("("):
                    self.next()
                    e = ("method", e, name, self.args())
                else:
                    e = ("field", e, name)
            elif self.peek() == ("id", "as"):
                self.next()
                ty = self.next()[1]
                e = ("cast", e, ty)
            else:
                return e

    def expr(self, minp=0):
        lhs = self.unary()
        while True:
            k, v = self.peek()
            if k == "op" and v in BINOPS and BINOPS[v] >= minp and self.peek(1) != ("op", "="):
                self.next()
                rhs = self.expr(BINOPS[v] + 1)
                lhs = ("bin", v, lhs, rhs)
            else:
                return lhs


def parse_expr(s):
    p = P(tokenize(s))
    e = p.expr()
    if p.peek()[0] != "eof":
        raise ValueError(f"trailing tokens in {s!r}: {p.peek()}")
    return e


LEAN_BIN = {"|": "|||", "^": "^^^", "&": "&&&", "<<": "<<<", ">>": ">>>", "+": "+", "-": "-", "*": "*",
            "/": "/", "%": "%"}


class Env:
    """what the emitter needs to know: variable renames, how to render calls/casts"""

    def __init__(self, types=None, rename=None, calls=None):
        self.types = types or {}
        self.rename = rename or {}
        self.calls = calls or {}


def const_eval(e):
    k = e[0]
    if k == "num":
        return e[1]
    if k == "paren":
        return const_eval(e[1])
    if k == "bin":
        a, b = const_eval(e[2]), const_eval(e[3])
        if a is None or b is None:
            return None
        return {"+": a + b, "-": a - b, "*": a * b, "<<": a << b, ">>": a >> b, "|": a | b, "&": a & b,
                "^": a ^ b, "/": a // b if b else None, "%": a % b if b else None}[e[1]]
    return None


def emit(e, env):
    k = e[0]
    c = const_eval(e)
    if c is not None:
        return str(c)
    if k == "var":
        return env.rename.get(e[1], e[1])
    if k == "paren":
        return "(" + emit(e[1], env) + ")"
    if k == "bin":
        return f"({emit(e[2], env)} {LEAN_BIN[e[1]]} {emit(e[3], env)})"
    if k == "index":
        return f"{emit(e[1], env)}[{emit(e[2], env)}]"
    if k == "method":
        recv, name, args = e[1], e[2], e[3]
        if name == "wrapping_add":
            return f"({emit(recv, env)} + {emit(args[0], env)})"
        if name == "rotate_right":
            return f"(rotr {emit(recv, env)} {emit(args[0], env)})"
        raise ValueError(f"unknown method {name}")
    if k == "call":
        name, args = e[1], e[2]
        if name in env.calls:
            return env.calls[name](args, env)
        raise ValueError(f"unknown call {name}")
    if k == "cast":
        inner, ty = e[1], e[2]
        if ty in ("u32", "uint32_t"):
            return f"({emit(inner, env)}).toUInt32"
        if ty in ("u64", "uint64_t"):
            return f"({emit(inner, env)}).toUInt64"
        raise ValueError(f"unknown cast {ty}")
    if k == "array":
        return "#v[" + ", ".join(emit(x, env) for x in e[1]) + "]"
    raise ValueError(f"cannot emit {e}")


# ------------------------------------------------------------------------------------------------
# statements of straight-line code


def split_statements(body):
    """split on ';' at bracket depth 0; returns list of statement strings (the last one may be a
    trailing expression without ';')"""
    out, depth, cur = [], 0, []
    for ch in body:
        if ch in "([{":
            depth += 1
        elif ch in ")]}":
            depth -= 1
        if ch == ";" and depth == 0:
            s = "".join(cur).strip()
            if s:
                out.append(s)
            cur = []
        else:
            cur.append(ch)
    tail = "".join(cur).strip()
    return out, tail


def translate_block(artefact, body, env, mut_calls, result=None, loops=None):
    """body: straight-line statements.  mut_calls: {fname: (lean_name, index of the &mut arg)}.
    Returns Lean `let` lines (list of str) and the final expression (str)."""
    stmts, tail = split_statements(body)
    lines = []
    for s in stmts:
        s = re.sub(r"#\[[^\]]*\]\s*", "", s).strip()
        try:
            m = re.match(r"^(?:let\s+(?:mut\s+)?|(?:const\s+)?(?:uint32_t|uint8_t|uint64_t|size_t)\s+\*?)(\w+)(?:\s*:\s*[^=]+)?\s*=\s*(.+)$", s, re.S)
            if m and not re.match(r"^\[0;\s*\d+\]$", m.group(2).strip()):
                lines.append(f"let {m.group(1)} := {emit(parse_expr(m.group(2)), env)}")
                continue
            m = re.match(r"^let\s+(?:mut\s+)?(\w+)\s*=\s*\[0;\s*(\d+)\]$", s)
            if m:  # Rust array repeat expression
                lines.append(f"let {m.group(1)} : Vector UInt32 {m.group(2)} := Vector.replicate {m.group(2)} 0")
                continue
            m = re.match(r"^\*(\w+)\s*=\s*(\w+)$", s)
            if m:  # `*m = permuted`
                lines.append(f"let {m.group(1)} := {m.group(2)}")
                continue
            m = re.match(r"^(?:uint32_t|uint8_t)\s+(\w+)\[(\d+)\]$", s)
            if m:  # C array declaration without initialiser
                lines.append(f"let {m.group(1)} : Vector UInt32 {m.group(2)} := Vector.replicate {m.group(2)} 0")
                continue
            m = re.match(r"^(\w+)\[([^\]]+)\]\s*(\^?)=\s*(.+)$", s, re.S)
            if m:
                arr, idx, xor, rhs = m.groups()
                a = env.rename.get(arr, arr)
                i = emit(parse_expr(idx), env)
                r = emit(parse_expr(rhs), env)
                if xor:
                    r = f"({a}[{i}] ^^^ {r})"
                lines.append(f"let {a} := {a}.set {i} {r}")
                continue
            m = re.match(r"^(\w+)\((.*)\)$", s, re.S)
            if m and m.group(1) in mut_calls:
                lean_name, mi = mut_calls[m.group(1)]
                p = P(tokenize(m.group(2)))
                args = p.args("eof") if False else None
                # parse the argument list
                p = P(tokenize(m.group(2) + ")"))
                args = p.args(")")
                target = emit(args[mi], env)
                lines.append(f"let {target} := {lean_name} " + " ".join(
                    (lambda t: t if re.match(r"^[\w\[\]\.]+$", t) else f"({t})")(emit(a, env)) for a in args))
                continue
            m = re.match(r"^for\s+(\w+)\s+in\s+(\d+)\.\.(\d+)\s*\{(.*)\}$", s, re.S)
            raise ValueError("unrecognised statement")
        except TranslationBroken:
            raise
        except Exception as ex:
            raise TranslationBroken(artefact, f"statement {s!r}: {ex}")
    final = None
    if tail:
        try:
            final = emit(parse_expr(tail), env)
        except Exception as ex:
            raise TranslationBroken(artefact, f"tail expression {tail!r}: {ex}")
    return lines, final


def unroll_for_loops(body):
    """expand `for i in a..b { … }` (Rust) with constant bounds by substitution"""
    def repl(m):
        var, a, b = m.group(1), int(m.group(2)), int(m.group(3))
        start = m.end() - 1
        return None
    out = body
    while True:
        m = re.search(r"for\s+(\w+)\s+in\s+(\d+)\.\.(\d+)\s*\{", out)
        if not m:
            return out
        b0 = m.end() - 1
        b1 = match_brace(out, b0)
        inner = out[b0 + 1:b1 - 1]
        var = m.group(1)
        pieces = [re.sub(rf"\b{var}\b", str(i), inner) for i in range(int(m.group(2)), int(m.group(3)))]
        out = out[:m.start()] + "\n".join(pieces) + out[b1:]


def lean_def(name, params, ret, lines, final):
    body = "".join("  " + l + "\n" for l in lines)
    return f"def {name} {params} : {ret} :=\n{body}  {final}\n"


# ------------------------------------------------------------------------------------------------
# G1: constants


def parse_int_list(s):
    return [int(x.rstrip("UL").replace("_", ""), 0) for x in re.findall(r"0[xX][0-9a-fA-F_]+(?:UL)?|\d+", s)]


def rust_const_int(artefact, rel, name):
    m = find_const(artefact, rel, rf"(?:pub\s+)?const\s+{name}\s*:\s*\w+\s*=\s*([^;]+);")
    v = const_eval(parse_expr(strip_comments(m.group(1))))
    if v is None:
        raise TranslationBroken(artefact, f"{name} is not a constant expression")
    return v


def c_define_int(artefact, rel, name):
    m = find_const(artefact, rel, rf"#define\s+{name}\s+([^\n]+)")
    v = const_eval(parse_expr(strip_comments(m.group(1))))
    if v is None:
        raise TranslationBroken(artefact, f"{name} is not a constant expression")
    return v


def c_enum_int(artefact, rel, name):
    m = find_const(artefact, rel, rf"\b{name}\s*=\s*([^,\n}}]+)")
    v = const_eval(parse_expr(strip_comments(m.group(1))))
    if v is None:
        raise TranslationBroken(artefact, f"{name} is not a constant expression")
    return v


def vec(items, ty=None):
    return "#v[" + ", ".join(str(x) for x in items) + "]"


FLAG_NAMES = ["CHUNK_START", "CHUNK_END", "PARENT", "ROOT", "KEYED_HASH", "DERIVE_KEY_CONTEXT", "DERIVE_KEY_MATERIAL"]


def gen_consts():
    A = "G1-consts"
    o = ["/- GENERATED by gen/extract.py from /repo -- do not edit -/", "import B3.Prim", "namespace B3.Gen", ""]
    # Rust
    o.append("namespace Rs")
    for n in ["OUT_LEN", "KEY_LEN", "BLOCK_LEN", "CHUNK_LEN", "MAX_DEPTH"]:
        o.append(f"def {n} : Nat := {rust_const_int(A, 'src/lib.rs', n)}")
    for n in FLAG_NAMES:
        o.append(f"def {n} : UInt8 := {rust_const_int(A, 'src/lib.rs', n)}")
    m = find_const(A, "src/lib.rs", r"const\s+IV\s*:\s*&CVWords\s*=\s*&\[(.*?)\];")
    iv = parse_int_list(strip_comments(m.group(1)))
    if len(iv) != 8:
        raise TranslationBroken(A, "IV does not have 8 entries")
    o.append(f"def IV : CV := {vec(iv)}")
    m = find_const(A, "src/lib.rs", r"const\s+MSG_SCHEDULE\s*:\s*\[\[usize;\s*16\];\s*7\]\s*=\s*\[(.*?)\];")
    rows = re.findall(r"\[([^\[\]]*)\]", strip_comments(m.group(1)))
    rows = [parse_int_list(r) for r in rows]
    if len(rows) != 7 or any(len(r) != 16 or max(r) > 15 for r in rows):
        raise TranslationBroken(A, "MSG_SCHEDULE is not 7x16 over 0..15")
    o.append("def MSG_SCHEDULE : Vector (Vector (Fin 16) 16) 7 := #v[\n  " +
             ",\n  ".join(vec(r) for r in rows) + "]")
    m = find_const(A, "src/io.rs", r"const\s+MINIMUM_MMAP_SIZE\s*:\s*u64\s*=\s*([^;]+);")
    o.append(f"def MINIMUM_MMAP_SIZE : Nat := {const_eval(parse_expr(strip_comments(m.group(1))))}")
    m = find_const(A, "src/io.rs", r"let\s+mut\s+buffer\s*=\s*\[0;\s*(\d+)\];")
    o.append(f"def COPY_WIDE_BUF : Nat := {int(m.group(1))}")
    o.append("end Rs\n")
    # C
    o.append("namespace C")
    for n in ["BLAKE3_KEY_LEN", "BLAKE3_OUT_LEN", "BLAKE3_BLOCK_LEN", "BLAKE3_CHUNK_LEN", "BLAKE3_MAX_DEPTH"]:
        o.append(f"def {n} : Nat := {c_define_int(A, 'c/blake3.h', n)}")
    for n in FLAG_NAMES:
        o.append(f"def {n} : UInt8 := {c_enum_int(A, 'c/blake3_impl.h', n)}")
    m = find_const(A, "c/blake3_impl.h", r"static\s+const\s+uint32_t\s+IV\[8\]\s*=\s*\{(.*?)\};")
    iv = parse_int_list(strip_comments(m.group(1)))
    o.append(f"def IV : CV := {vec(iv)}")
    m = find_const(A, "c/blake3_impl.h", r"static\s+const\s+uint8_t\s+MSG_SCHEDULE\[7\]\[16\]\s*=\s*\{(.*?)\};")
    rows = [parse_int_list(r) for r in re.findall(r"\{([^{}]*)\}", strip_comments(m.group(1)))]
    if len(rows) != 7 or any(len(r) != 16 or max(r) > 15 for r in rows):
        raise TranslationBroken(A, "C MSG_SCHEDULE is not 7x16 over 0..15")
    o.append("def MSG_SCHEDULE : Vector (Vector (Fin 16) 16) 7 := #v[\n  " +
             ",\n  ".join(vec(r) for r in rows) + "]")
    o.append("end C\n")
    # reference implementation
    o.append("namespace Ref")
    R = "reference_impl/reference_impl.rs"
    for n in ["OUT_LEN", "KEY_LEN", "BLOCK_LEN", "CHUNK_LEN"]:
        o.append(f"def {n} : Nat := {rust_const_int(A, R, n)}")
    for n in FLAG_NAMES:
        o.append(f"def {n} : UInt32 := {rust_const_int(A, R, n)}")
    m = find_const(A, R, r"const\s+IV\s*:\s*\[u32;\s*8\]\s*=\s*\[(.*?)\];")
    o.append(f"def IV : CV := {vec(parse_int_list(strip_comments(m.group(1))))}")
    m = find_const(A, R, r"const\s+MSG_PERMUTATION\s*:\s*\[usize;\s*16\]\s*=\s*\[(.*?)\];")
    perm = parse_int_list(strip_comments(m.group(1)))
    if len(perm) != 16 or max(perm) > 15:
        raise TranslationBroken(A, "MSG_PERMUTATION is not 16 entries over 0..15")
    o.append(f"def MSG_PERMUTATION : Vector (Fin 16) 16 := {vec(perm)}")
    m = find_const(A, R, r"cv_stack\s*:\s*\[\[u32;\s*8\];\s*(\d+)\]")
    o.append(f"def CV_STACK_CAP : Nat := {int(m.group(1))}")
    o.append("end Ref\n")
    o.append("end B3.Gen")
    return "\n".join(o) + "\n"


# ------------------------------------------------------------------------------------------------
# G2: straight-line compression code

G_PARAMS = "(state : St) (a b c d : Fin 16) (x y : UInt32)"


def call_counter(args, env):
    return None


def gen_rs_portable():
    A = "G2-rs-portable"
    F = "src/portable.rs"
    o = ["/- GENERATED by gen/extract.py from /repo/src/portable.rs, src/lib.rs -- do not edit -/",
         "import B3.Prim", "import B3.Gen.Consts", "namespace B3.Gen.Rs", ""]
    env = Env(calls={
        "counter_low": lambda a, e: f"(counter_low {emit(a[0], e)})",
        "counter_high": lambda a, e: f"(counter_high {emit(a[0], e)})",
        "crate::platform::words_from_le_bytes_64": lambda a, e: emit(a[0], e),
        "crate::platform::le_bytes_from_words_64": lambda a, e: emit(a[0], e),
    })
    # counter_low / counter_high
    for n in ["counter_low", "counter_high"]:
        params, body = find_fn(A, "src/lib.rs", rf"fn\s+{n}\s*\(")
        if not re.match(r"\s*counter\s*:\s*u64\s*$", params):
            raise TranslationBroken(A, f"{n}: unexpected parameters {params!r}")
        lines, final = translate_block(A, body, env, {})
        o.append(lean_def(n, "(counter : UInt64)", "UInt32", lines, final))
    # g
    params, body = find_fn(A, F, r"fn\s+g\s*\(")
    names = re.findall(r"(\w+)\s*:", params)
    if names != ["state", "a", "b", "c", "d", "x", "y"]:
        raise TranslationBroken(A, f"g: unexpected parameters {names}")
    lines, final = translate_block(A, body, env, {})
    o.append(lean_def("g", G_PARAMS, "St", lines, final or "state"))
    # round
    params, body = find_fn(A, F, r"fn\s+round\s*\(")
    names = re.findall(r"(\w+)\s*:", params)
    if names != ["state", "msg", "round"]:
        raise TranslationBroken(A, f"round: unexpected parameters {names}")
    lines, final = translate_block(A, body, env, {"g": ("g", 0)})
    o.append(lean_def("round", "(state msg : St) (round : Fin 7)", "St", lines, final or "state"))
    # compress_pre
    params, body = find_fn(A, F, r"fn\s+compress_pre\s*\(")
    names = re.findall(r"(\w+)\s*:", params)
    if names != ["cv", "block", "block_len", "counter", "flags"]:
        raise TranslationBroken(A, f"compress_pre: unexpected parameters {names}")
    lines, final = translate_block(A, body, env, {"round": ("round", 0)})
    CP = "(cv : CV) (block : St) (block_len : UInt8) (counter : UInt64) (flags : UInt8)"
    o.append(lean_def("compress_pre", CP, "St", lines, final))
    # compress_in_place
    params, body = find_fn(A, F, r"pub\s+fn\s+compress_in_place\s*\(")
    names = re.findall(r"(\w+)\s*:", params)
    if names != ["cv", "block", "block_len", "counter", "flags"]:
        raise TranslationBroken(A, f"compress_in_place: unexpected parameters {names}")
    env2 = Env(calls=dict(env.calls))
    env2.calls["compress_pre"] = lambda a, e: "(compress_pre " + " ".join(emit(x, e) for x in a) + ")"
    lines, final = translate_block(A, body, env2, {})
    o.append(lean_def("compress_in_place", CP, "CV", lines, final or "cv"))
    # compress_xof
    params, body = find_fn(A, F, r"pub\s+fn\s+compress_xof\s*\(")
    names = re.findall(r"(\w+)\s*:", params)
    if names != ["cv", "block", "block_len", "counter", "flags"]:
        raise TranslationBroken(A, f"compress_xof: unexpected parameters {names}")
    lines, final = translate_block(A, body, env2, {})
    o.append(lean_def("compress_xof", CP, "St", lines, final))
    o.append("end B3.Gen.Rs")
    return "\n".join(o) + "\n"


def gen_ref_compress():
    A = "G2-ref-compress"
    F = "reference_impl/reference_impl.rs"
    o = ["/- GENERATED by gen/extract.py from /repo/reference_impl/reference_impl.rs -- do not edit -/",
         "import B3.Prim", "import B3.Gen.Consts", "namespace B3.Gen.Ref", ""]
    env = Env()
    params, body = find_fn(A, F, r"fn\s+g\s*\(")
    names = re.findall(r"(\w+)\s*:", params)
    if names != ["state", "a", "b", "c", "d", "mx", "my"]:
        raise TranslationBroken(A, f"g: unexpected parameters {names}")
    lines, final = translate_block(A, body, env, {})
    o.append(lean_def("g", "(state : St) (a b c d : Fin 16) (mx my : UInt32)", "St", lines, final or "state"))
    params, body = find_fn(A, F, r"fn\s+round\s*\(")
    names = re.findall(r"(\w+)\s*:", params)
    if names != ["state", "m"]:
        raise TranslationBroken(A, f"round: unexpected parameters {names}")
    lines, final = translate_block(A, body, env, {"g": ("g", 0)})
    o.append(lean_def("round", "(state m : St)", "St", lines, final or "state"))
    params, body = find_fn(A, F, r"fn\s+permute\s*\(")
    names = re.findall(r"(\w+)\s*:", params)
    if names != ["m"]:
        raise TranslationBroken(A, f"permute: unexpected parameters {names}")
    lines, final = translate_block(A, unroll_for_loops(body), env, {})
    o.append(lean_def("permute", "(m : St)", "St", lines, final or "m"))
    params, body = find_fn(A, F, r"fn\s+compress\s*\(")
    names = re.findall(r"(\w+)\s*:", params)
    if names != ["chaining_value", "block_words", "counter", "block_len", "flags"]:
        raise TranslationBroken(A, f"compress: unexpected parameters {names}")
    # the function is emitted in two definitions, split where its `for` loop starts: the straight-line
    # part (`compress_rounds`, returns `state`) and the unrolled loop applied to its result
    mfor = re.search(r"for\s+\w+\s+in\s+0\.\.8\s*\{", body)
    if not mfor:
        raise TranslationBroken(A, "compress: the feed-forward `for i in 0..8` loop was not found")
    pre, rest = body[:mfor.start()], body[mfor.start():]
    CPARAMS = "(chaining_value : CV) (block_words : St) (counter : UInt64) (block_len flags : UInt32)"
    lines, final = translate_block(A, pre + "\nstate", env, {"round": ("round", 0), "permute": ("permute", 0)})
    o.append(lean_def("compress_rounds", CPARAMS, "St", lines, final))
    lines, final = translate_block(A, unroll_for_loops(rest), env, {})
    o.append(lean_def("compress", CPARAMS, "St",
                      ["let state := compress_rounds chaining_value block_words counter block_len flags"] + lines, final))
    o.append("end B3.Gen.Ref")
    return "\n".join(o) + "\n"


def gen_c_portable():
    """c/blake3_portable.c: g, round_fn, compress_pre, compress_in_place, compress_xof.
    Mapping: `load32(block + 4 * i)` -> word i of the block (the block is passed as 16 little-endian words; load32
    itself assembles 4 bytes little-endian), `store32(&out[i * 4], e)` -> word i of the output := e,
    `&block_words[0]` -> block_words, unsigned `+` on uint32_t -> wrapping `+`."""
    A = "G2-c-portable"
    F = "c/blake3_portable.c"
    o = ["/- GENERATED by gen/extract.py from /repo/c/blake3_portable.c, c/blake3_impl.h -- do not edit -/",
         "import B3.Prim", "import B3.Gen.Consts", "namespace B3.Gen.C", ""]

    def word_index(arg):
        # block + 4 * i   |   &out[i * 4]
        if arg[0] == "bin" and arg[1] == "+" and arg[2][0] == "var":
            v = const_eval(arg[3])
            if v is not None and v % 4 == 0:
                return arg[2][1], v // 4
        if arg[0] == "index" and arg[1][0] == "var":
            v = const_eval(arg[2])
            if v is not None and v % 4 == 0:
                return arg[1][1], v // 4
        raise ValueError(f"unsupported byte address {arg}")

    def call_load32(args, env):
        name, i = word_index(args[0])
        return f"{name}[{i}]"

    env = Env(calls={
        "rotr32": lambda a, e: f"(rotr {emit(a[0], e)} {emit(a[1], e)})",
        "load32": call_load32,
        "counter_low": lambda a, e: f"(counter_low {emit(a[0], e)})",
        "counter_high": lambda a, e: f"(counter_high {emit(a[0], e)})",
    })
    for n in ["counter_low", "counter_high"]:
        params, body = find_fn(A, "c/blake3_impl.h", rf"INLINE\s+uint32_t\s+{n}\s*\(")
        body = re.sub(r"^\s*return\s+", "", body.strip()).rstrip(";")
        lines, final = translate_block(A, body, env, {})
        o.append(lean_def(n, "(counter : UInt64)", "UInt32", lines, final))
    params, body = find_fn(A, F, r"INLINE\s+void\s+g\s*\(")
    names = re.findall(r"(\w+)\s*(?:,|$)", re.sub(r"\s+", " ", params))
    if names != ["state", "a", "b", "c", "d", "x", "y"]:
        raise TranslationBroken(A, f"g: unexpected parameters {names}")
    lines, final = translate_block(A, body, env, {})
    o.append(lean_def("g", G_PARAMS, "St", lines, final or "state"))
    params, body = find_fn(A, F, r"INLINE\s+void\s+round_fn\s*\(")
    lines, final = translate_block(A, body, env, {"g": ("g", 0)})
    o.append(lean_def("round_fn", "(state msg : St) (round : Fin 7)", "St", lines, final or "state"))
    # compress_pre(state, cv, block, block_len, counter, flags)
    params, body = find_fn(A, F, r"INLINE\s+void\s+compress_pre\s*\(")
    body = body.replace("&block_words[0]", "block_words")
    lines, final = translate_block(A, body, env, {"round_fn": ("round_fn", 0)})
    CP = "(state : St) (cv : CV) (block : St) (block_len : UInt8) (counter : UInt64) (flags : UInt8)"
    o.append(lean_def("compress_pre", CP, "St", lines, final or "state"))
    CA = "(cv : CV) (block : St) (block_len : UInt8) (counter : UInt64) (flags : UInt8)"
    params, body = find_fn(A, F, r"void\s+blake3_compress_in_place_portable\s*\(")
    lines, final = translate_block(A, body, env, {"compress_pre": ("compress_pre", 0)})
    o.append(lean_def("compress_in_place", CA, "CV", lines, final or "cv"))
    params, body = find_fn(A, F, r"void\s+blake3_compress_xof_portable\s*\(")
    # store32(&out[i * 4], e)  ->  out[i] = e   (out as 16 words)
    def repl_store(m):
        inner = m.group(1)
        depth, k = 0, None
        for j, ch in enumerate(inner):
            if ch in "([":
                depth += 1
            elif ch in ")]":
                depth -= 1
            elif ch == "," and depth == 0:
                k = j
                break
        addr, val = inner[:k].strip(), inner[k + 1:].strip()
        name, i = word_index(parse_expr(addr))
        return f"{name}[{i}] = {val};"
    try:
        body = re.sub(r"store32\((.*?)\);", repl_store, body, flags=re.S)
    except Exception as ex:
        raise TranslationBroken(A, f"compress_xof: {ex}")
    body = "uint32_t out[16];" + body
    lines, final = translate_block(A, body, env, {"compress_pre": ("compress_pre", 0)})
    o.append(lean_def("compress_xof", CA, "St", lines, final or "out"))
    o.append("end B3.Gen.C")
    return "\n".join(o) + "\n"


# ------------------------------------------------------------------------------------------------
# G3: arithmetic helpers, translated into checked arithmetic in the monad `R`

RUST_CONSTS = {}


def rust_consts():
    if not RUST_CONSTS:
        for n in ["OUT_LEN", "KEY_LEN", "BLOCK_LEN", "CHUNK_LEN", "MAX_DEPTH"]:
            RUST_CONSTS[n] = rust_const_int("G3-arith", "src/lib.rs", n)
    return RUST_CONSTS


class Anf:
    """emit an integer expression as a sequence of monadic lets over checked operations"""

    def __init__(self, consts, wrapping=False):
        self.lines = []
        self.n = 0
        self.consts = consts
        self.w = "w" if wrapping else "c"   # C unsigned arithmetic wraps; Rust (overflow checks on) panics

    def fresh(self):
        self.n += 1
        return f"t{self.n}"

    def bind(self, rhs):
        v = self.fresh()
        self.lines.append(f"let {v} ← {rhs}")
        return v

    def pure(self, rhs):
        v = self.fresh()
        self.lines.append(f"let {v} := {rhs}")
        return v

    def go(self, e):
        k = e[0]
        c = const_eval(e)
        if c is not None:
            return str(c)
        if k == "var":
            if e[1] in self.consts:
                return str(self.consts[e[1]])
            return e[1]
        if k == "paren":
            return self.go(e[1])
        if k == "cast":
            if e[2] in ("u64", "usize", "uint64_t", "size_t"):
                return self.go(e[1])     # widening / same-width casts only (checked by the caller's whitelist)
            raise ValueError(f"cast to {e[2]} not supported in arithmetic helpers")
        if k == "bin":
            a, b = self.go(e[2]), self.go(e[3])
            op = e[1]
            if op == "+":
                return self.bind(f"Arith.{self.w}add {a} {b}")
            if op == "-":
                return self.bind(f"Arith.{self.w}sub {a} {b}")
            if op == "*":
                return self.bind(f"Arith.{self.w}mul {a} {b}")
            if op == "/":
                return self.bind(f"Arith.cdiv {a} {b}")
            if op == "%":
                return self.bind(f"Arith.cmod {a} {b}")
            if op == "<<":
                return self.bind(f"Arith.cshl {a} {b}")
            if op == "|":
                return self.pure(f"{a} ||| {b}")
            if op == "&":
                return self.pure(f"{a} &&& {b}")
            raise ValueError(f"operator {op}")
        if k == "method":
            r = self.go(e[1])
            if e[2] == "next_power_of_two" and not e[3]:
                return self.bind(f"Arith.npow2 {r}")
            if e[2] == "trailing_zeros" and not e[3]:
                return self.pure(f"Arith.tz {r}")
            if e[2] == "count_ones" and not e[3]:
                return self.pure(f"Arith.popcnt {r}")
            raise ValueError(f"method {e[2]}")
        if k == "call":
            if e[1] == "highest_one":
                return self.pure(f"Arith.highestOne {self.go(e[2][0])}")
            if e[1] == "round_down_to_power_of_2":
                return self.bind(f"round_down_to_power_of_2 {self.go(e[2][0])}")
            if e[1] in getattr(self, "known_calls", ()):
                return self.bind(f"{e[1]} " + " ".join(self.go(a) for a in e[2]))
            raise ValueError(f"call {e[1]}")
        raise ValueError(f"cannot translate {e}")


def translate_arith_fn(artefact, name, params, body, consts, option_result=False, wrapping=False):
    """statements: debug_assert!(a > b) | assert_eq!(a, b) | if x == 0 { return None; } | let v = e; | tail"""
    body = re.sub(r"if\s+(\w+)\s*==\s*0\s*\{\s*return\s+None\s*;\s*\}", r"__ifnone \1;", body)
    stmts, tail = split_statements(body)
    anf = Anf(consts, wrapping)
    out_lines = []
    try:
        pending = []
        for s in stmts:
            s = s.strip()
            m = re.match(r"^__ifnone\s+(\w+)$", s)
            if m:
                pending.append(("ifnone", m.group(1)))
                continue
            if s == "}":
                continue
            s2 = s.lstrip("} \n")
            m = re.match(r"^debug_assert!\((.+?)\s*>\s*(.+)\)$", s2, re.S)
            if m:
                a, b = anf.go(parse_expr(m.group(1))), anf.go(parse_expr(m.group(2)))
                anf.lines.append(f"Arith.assertTrue (decide ({a} > {b}))")
                continue
            m = re.match(r"^assert_eq!\((.+),\s*(\d+)\)$", s2, re.S)
            if m:
                a = anf.go(parse_expr(m.group(1)))
                anf.lines.append(f"Arith.assertEq {a} {m.group(2)}")
                continue
            m = re.match(r"^let\s+(\w+)\s*=\s*(.+)$", s2, re.S)
            if m:
                v = anf.go(parse_expr(m.group(2)))
                # a source-level `let name = e` becomes an alias of the temporary holding e (emitting a
                # Lean `let name := t` would only add a beta-redex that the kernel has to see through)
                anf.consts = dict(anf.consts)
                anf.consts[m.group(1)] = v
                anf.lines.append(f"-- {m.group(1)} = {v}")
                continue
            raise ValueError(f"statement {s!r}")
        tail = tail.strip().lstrip("} \n")
        m = re.match(r"^Some\((.+)\)$", tail, re.S)
        if m:
            v = anf.go(parse_expr(m.group(1)))
            final = f"pure (some {v})"
        else:
            v = anf.go(parse_expr(tail))
            final = f"pure (some {v})" if option_result else f"pure {v}"
        # `if x == 0 { return None; }` guards come first in the source; emit them as an outer `if`
        guard = ""
        for kind, var in pending:
            guard += f"  if {var} = 0 then pure none else\n"
    except TranslationBroken:
        raise
    except Exception as ex:
        raise TranslationBroken(artefact, f"{name}: {ex}")
    ret = "R (Option Nat)" if (option_result or pending) else "R Nat"
    body_txt = "".join("  " + l + "\n" for l in anf.lines)
    return f"def {name} {params} : {ret} :=\n{guard}  do\n" + "".join("    " + l + "\n" for l in anf.lines) + f"    {final}\n"


def gen_arith():
    A = "G3-arith"
    consts = rust_consts()
    o = ["/- GENERATED by gen/extract.py from /repo/src/lib.rs, src/hazmat.rs, c/blake3.c, c/blake3_impl.h -- do not edit -/",
         "import B3.Arith", "namespace B3.Gen", "open B3", "", "namespace Rs"]
    params, body = find_fn(A, "src/lib.rs", r"fn\s+largest_power_of_two_leq\s*\(")
    if not re.match(r"\s*n\s*:\s*usize\s*$", params):
        raise TranslationBroken(A, "largest_power_of_two_leq: unexpected parameters")
    o.append(translate_arith_fn(A, "largest_power_of_two_leq", "(n : Nat)", body, consts))
    params, body = find_fn(A, "src/hazmat.rs", r"pub\s+fn\s+left_subtree_len\s*\(")
    if not re.match(r"\s*input_len\s*:\s*u64\s*$", params):
        raise TranslationBroken(A, "left_subtree_len: unexpected parameters")
    o.append(translate_arith_fn(A, "left_subtree_len", "(input_len : Nat)", body, consts))
    params, body = find_fn(A, "src/hazmat.rs", r"pub\s+fn\s+max_subtree_len\s*\(")
    if not re.match(r"\s*input_offset\s*:\s*u64\s*$", params):
        raise TranslationBroken(A, "max_subtree_len: unexpected parameters")
    o.append(translate_arith_fn(A, "max_subtree_len", "(input_offset : Nat)", body, consts, option_result=True))
    o.append("end Rs\n")
    # C
    cconsts = {"BLAKE3_CHUNK_LEN": c_define_int(A, "c/blake3.h", "BLAKE3_CHUNK_LEN")}
    o.append("namespace C")
    params, body = find_fn(A, "c/blake3_impl.h", r"round_down_to_power_of_2\s*\(")
    body = re.sub(r"^\s*return\s+", "", body.strip()).rstrip(";")
    body = body.replace("1ULL", "1")
    o.append(translate_arith_fn(A, "round_down_to_power_of_2", "(x : Nat)", body, cconsts, wrapping=True))
    params, body = find_fn(A, "c/blake3.c", r"INLINE\s+size_t\s+left_subtree_len\s*\(")
    # C: size_t full_chunks = (input_len - 1) / BLAKE3_CHUNK_LEN; return round_down_to_power_of_2(full_chunks) * BLAKE3_CHUNK_LEN;
    body = re.sub(r"\bsize_t\s+(\w+)\s*=", r"let \1 =", body)
    body = re.sub(r"\breturn\s+([^;]+);\s*$", r"\1", body.strip())
    o.append(translate_arith_fn(A, "left_subtree_len", "(input_len : Nat)", body, cconsts, wrapping=True))
    o.append("end C\n")
    o.append("end B3.Gen")
    return "\n".join(o) + "\n"



# ------------------------------------------------------------------------------------------------
# G3b: arithmetic regions inside larger functions (subtree sizing in update, reader position arithmetic)


def translate_shrink_region(artefact, who, text, consts, wrapping, subst, init_call):
    """`<decl> subtree_len = INIT; <decl> count_so_far = E; while (COND != 0) { subtree_len /= K; }` ->
    a fuel loop in checked (Rust) / wrapping (C) arithmetic and the function computing the subtree length"""
    m = re.search(r"(?:let\s+mut|size_t)\s+subtree_len\s*=\s*([^;]+);\s*(?:let|uint64_t)\s+count_so_far\s*=\s*([^;]+);\s*"
                  r"while\s*(.+?)\s*\{\s*subtree_len\s*/=\s*(\d+)\s*;\s*\}", text, re.S)
    if not m:
        raise TranslationBroken(artefact, f"{who}: subtree-sizing region (subtree_len / count_so_far / while ... /= ) not found in this shape")
    init, csf, cond, div = m.groups()
    record_region = m.span()
    for a, b in subst:
        init, csf, cond = init.replace(a, b), csf.replace(a, b), cond.replace(a, b)
    cond = cond.strip()
    while cond.startswith("(") and match_brace(cond, 0, "(", ")") == len(cond):
        cond = cond[1:-1].strip()
    mc = re.match(r"^(.*)!=\s*0$", cond, re.S)
    if not mc:
        raise TranslationBroken(artefact, f"{who}: loop condition is not of the form `E != 0`: {cond!r}")
    try:
        a1 = Anf(consts, wrapping)
        lhs = a1.go(parse_expr(mc.group(1).strip()))
        a2 = Anf(consts, wrapping)
        a2.known_calls = (init_call,)
        iv = a2.go(parse_expr(init.strip()))
        cv = a2.go(parse_expr(csf.strip()))
    except TranslationBroken:
        raise
    except Exception as ex:
        raise TranslationBroken(artefact, f"{who}: {ex}")
    o = ["def update_shrink_loop : Nat → Nat → Nat → R Nat",
         "  | 0, _, _ => .panic   -- out of fuel (the theorem shows 64 iterations always suffice)",
         "  | fuel + 1, subtree_len, count_so_far => do"]
    o += ["    " + l for l in a1.lines]
    o += [f"    if {lhs} ≠ 0 then do",
          f"      let s ← Arith.cdiv subtree_len {div}",
          "      update_shrink_loop fuel s count_so_far",
          "    else pure subtree_len", "",
          "/-- the subtree length chosen by one iteration of the `while input.len() > CHUNK_LEN` loop of update -/",
          "def update_subtree_len (input_len chunk_counter : Nat) : R Nat := do"]
    o += ["  " + l for l in a2.lines]
    o += [f"  update_shrink_loop 64 {iv} {cv}", ""]
    return "\n".join(o), record_region


def gen_regions():
    A = "G3b-regions"
    consts = rust_consts()
    o = ["/- GENERATED by gen/extract.py from /repo/src/lib.rs, c/blake3.c -- do not edit -/",
         "import B3.Arith", "import B3.Gen.Arith", "namespace B3.Gen", "open B3", "", "namespace Rs"]
    params, body = find_fn(A, "src/lib.rs", r"fn\s+update_with_join\s*<")
    txt, _ = translate_shrink_region(A, "Hasher::update_with_join", strip_comments(body), consts, False,
                                     [("input.len()", "input_len"), ("self.chunk_state.chunk_counter", "chunk_counter")], "largest_power_of_two_leq")
    o.append(txt)
    # OutputReader: position / set_position / Seek::seek
    params, body = find_fn(A, "src/lib.rs", r"pub\s+fn\s+position\s*\(\s*&self\s*\)\s*->\s*u64")
    b = strip_comments(body).replace("self.inner.counter", "counter").replace("self.position_within_block", "position_within_block")
    o.append(translate_arith_fn(A, "reader_position", "(counter position_within_block : Nat)", b, consts))
    params, body = find_fn(A, "src/lib.rs", r"pub\s+fn\s+set_position\s*\(\s*&mut\s+self\s*,\s*position\s*:\s*u64\s*\)")
    b = strip_comments(body)
    m = re.match(r"^\s*self\.position_within_block\s*=\s*\((.+)\)\s*as\s+u8\s*;\s*self\.inner\.counter\s*=\s*(.+?)\s*;\s*$", b, re.S)
    if not m:
        raise TranslationBroken(A, "OutputReader::set_position: expected two assignments (position_within_block as u8, inner.counter)")
    try:
        a = Anf(consts)
        pw = a.go(parse_expr(m.group(1)))
        ct = a.go(parse_expr(m.group(2)))
    except Exception as ex:
        raise TranslationBroken(A, f"OutputReader::set_position: {ex}")
    o += ["/-- `set_position`: the new (counter, position_within_block); the `as u8` cast truncates -/",
          "def reader_set_position (position : Nat) : R (Nat × Nat) := do"] + ["  " + l for l in a.lines] + [f"  pure ({ct}, {pw} % 256)", ""]
    # Seek::seek
    params, body = find_fn(A, "src/lib.rs", r"fn\s+seek\s*\(\s*&mut\s+self\s*,\s*pos\s*:\s*std::io::SeekFrom\s*\)")
    b = strip_comments(body)
    m = re.match(r"^\s*let\s+max_position\s*=\s*u64::max_value\(\)\s*as\s+i128\s*;\s*let\s+target_position\s*:\s*i128\s*=\s*match\s+pos\s*\{(.*)\}\s*;\s*"
                 r"if\s+target_position\s*<\s*0\s*\{\s*return\s+Err\(.*?\)\s*;\s*\}\s*"
                 r"self\.set_position\(\s*cmp::min\(\s*target_position\s*,\s*max_position\s*\)\s*as\s+u64\s*\)\s*;\s*Ok\(\s*self\.position\(\)\s*\)\s*$", b, re.S)
    if not m:
        raise TranslationBroken(A, "Seek::seek: body is not `max_position (i128); target_position: i128 = match pos {..}; if < 0 Err; set_position(min(..) as u64); Ok(position())`")
    arms_txt = m.group(1)
    arms = {}
    for am in re.finditer(r"std::io::SeekFrom::(Start|Current|End)\(\s*(\w+)\s*\)\s*=>\s*(\{.*?\}|[^,{]+),?", arms_txt, re.S):
        arms[am.group(1)] = (am.group(2), am.group(3).strip())
    if set(arms) != {"Start", "Current", "End"}:
        raise TranslationBroken(A, f"Seek::seek: expected arms Start, Current, End; found {sorted(arms)}")

    def arm_expr(kind):
        var, e = arms[kind]
        if e.startswith("{"):
            if re.match(r"^\{\s*return\s+Err\(.*\)\s*;\s*\}$", e, re.S):
                return "none"
            raise TranslationBroken(A, f"Seek::seek: arm {kind} has an unexpected block")
        e = e.replace("self.position()", "position")
        # i128 arithmetic on u64/i64 operands cannot overflow; translate `a as i128 + b as i128` to Int addition
        toks = [t.strip() for t in e.split("+")]
        outs = []
        for t in toks:
            mm = re.match(r"^(\w+)\s+as\s+i128$", t)
            if not mm:
                raise TranslationBroken(A, f"Seek::seek: arm {kind}: term {t!r} is not `<name> as i128`")
            nm = mm.group(1)
            if nm == var:
                outs.append("x" if kind != "Start" else "(Int.ofNat x)")
            elif nm == "position":
                outs.append("(Int.ofNat position)")
            else:
                raise TranslationBroken(A, f"Seek::seek: arm {kind}: unknown name {nm}")
        return "some (" + " + ".join(outs) + ")"

    o += ["inductive SeekFrom where", "  | start (x : Nat)", "  | current (x : Int)", "  | «end» (x : Int)", "",
          "/-- `impl Seek for OutputReader`: the target position as an exact integer (`none` = the arm returns Err) -/",
          "def seek_target (position : Nat) : SeekFrom → Option Int",
          f"  | .start x => {arm_expr('Start')}", f"  | .current x => {arm_expr('Current')}", f"  | .end x => {arm_expr('End')}", "",
          "/-- the position passed to `set_position` (`none` = Err, reader unchanged) -/",
          "def seek (position : Nat) (pos : SeekFrom) : Option Nat :=",
          "  match seek_target position pos with", "  | none => none",
          "  | some target => if target < 0 then none else some (min target ((2 : Int) ^ 64 - 1)).toNat", ""]
    o.append("end Rs\n")
    o.append("namespace C")
    cconsts = {"BLAKE3_CHUNK_LEN": c_define_int(A, "c/blake3.h", "BLAKE3_CHUNK_LEN")}
    params, body = find_fn(A, "c/blake3.c", r"INLINE\s+void\s+blake3_hasher_update_base\s*\(|void\s+blake3_hasher_update_base\s*\(")
    txt, _ = translate_shrink_region(A, "blake3_hasher_update_base", strip_comments(body).replace("(uint64_t)", ""), cconsts, True,
                                     [("self->chunk.chunk_counter", "chunk_counter")], "round_down_to_power_of_2")
    o.append(txt)
    o.append(gen_c_output_plan_body(A))
    o.append(gen_c_stack_accesses(A))
    o.append("end C\n")
    o.append("end B3.Gen")
    return "\n".join(o) + "\n"


# ------------------------------------------------------------------------------------------------
# G3c: c/blake3.c output_root_bytes as a write plan (which bytes of which output block go where)

W64 = 1 << 64


def c_wexpr(e, names):
    """C size_t / uint64_t expression -> Lean Nat expression with wrap-around made explicit"""
    k = e[0]
    if k == "num":
        return str(e[1])
    if k == "var":
        if e[1] not in names:
            raise ValueError(f"unknown name {e[1]}")
        return e[1]
    if k == "paren":
        return c_wexpr(e[1], names)
    if k == "neg":
        if e[1][0] == "num":
            return str(W64 - e[1][1])
        raise ValueError("unary minus on a non-literal")
    if k == "cast":
        if e[2] in ("uint64_t", "size_t"):
            return c_wexpr(e[1], names)
        raise ValueError(f"cast to {e[2]}")
    if k == "bin":
        a, b = c_wexpr(e[2], names), c_wexpr(e[3], names)
        op = e[1]
        if op == "+":
            return f"(Arith.w64add {a} {b})"
        if op == "-":
            return f"(Arith.w64sub {a} {b})"
        if op == "*":
            return f"(Arith.w64mul {a} {b})"
        if op in ("/", "%"):
            return f"({a} {op} {b})"
        if op == "&":
            return f"({a} &&& {b})"
        if op == "|":
            return f"({a} ||| {b})"
        raise ValueError(f"operator {op}")
    raise ValueError(f"cannot translate {e}")


def c_split_top(s, ch):
    depth = 0
    for i, c in enumerate(s):
        if c in "([":
            depth += 1
        elif c in ")]":
            depth -= 1
        elif c == ch and depth == 0:
            return s[:i], s[i + 1:]
    return None


def c_value(s, names):
    """expression, possibly `a > b ? x : y`"""
    s = s.strip()
    q = c_split_top(s, "?")
    if q:
        cond, rest = q
        xy = c_split_top(rest, ":")
        if not xy:
            raise ValueError("ternary without ':'")
        return f"(if {c_cond(cond, names)} then {c_value(xy[0], names)} else {c_value(xy[1], names)})"
    return c_wexpr(parse_expr(s), names)


def c_cond(s, names):
    s = s.strip()
    for op, lean in ((">=", "≥"), ("<=", "≤"), ("==", "="), ("!=", "≠"), (">", ">"), ("<", "<")):
        i = s.find(op)
        if i > 0 and (op not in (">", "<") or (s[i + 1:i + 2] not in ("=", ">", "<") and s[i - 1] not in ("<", ">"))):
            return f"({c_value(s[:i], names)} {lean} {c_value(s[i + len(op):], names)})"
    return f"({c_value(s, names)} ≠ 0)"


def c_statements(text):
    """split a C block into top-level statements; `if (...) {...}` stays one statement"""
    out = []
    i = 0
    n = len(text)
    while i < n:
        while i < n and text[i].isspace():
            i += 1
        if i >= n:
            break
        m = re.match(r"if\s*\(", text[i:])
        if m:
            j = match_brace(text, i + m.end() - 1, "(", ")")
            k = j
            while text[k].isspace():
                k += 1
            if text[k] != "{":
                raise ValueError("if without a braced block")
            e = match_brace(text, k)
            out.append(("if", text[i + m.end():j - 1], text[k + 1:e - 1]))
            i = e
            continue
        j = text.index(";", i)
        out.append(("stmt", text[i:j].strip()))
        i = j + 1
    return out


def gen_c_output_plan_body(A):
    params, body = find_fn(A, "c/blake3.c", r"INLINE\s+void\s+output_root_bytes\s*\(")
    if not re.match(r"\s*const\s+output_t\s*\*\s*self\s*,\s*uint64_t\s+seek\s*,\s*uint8_t\s*\*\s*out\s*,\s*size_t\s+out_len\s*$", params, re.S):
        raise TranslationBroken(A, "output_root_bytes: unexpected parameters")
    body = strip_comments(body)
    FL = r"(?:self->flags\s*\|\s*ROOT|ROOT\s*\|\s*self->flags|__ROOTFLAGS__)"
    # a local that only names `self->flags | ROOT` is accepted in the flags position
    mfl = re.search(r"(?:const\s+)?uint8_t\s+(\w+)\s*=\s*(?:self->flags\s*\|\s*ROOT|ROOT\s*\|\s*self->flags)\s*;", body)
    if mfl:
        body = body[:mfl.start()] + body[mfl.end():]
        body = re.sub(r"\b%s\b" % re.escape(mfl.group(1)), "__ROOTFLAGS__", body)
    XOF1 = r"^blake3_compress_xof\(\s*self->input_cv\s*,\s*self->block\s*,\s*self->block_len\s*,\s*(.+?)\s*,\s*" + FL + r"\s*,\s*wide_buf\s*\)$"
    XOFN = r"^blake3_xof_many\(\s*self->input_cv\s*,\s*self->block\s*,\s*self->block_len\s*,\s*(.+?)\s*,\s*" + FL + r"\s*,\s*out\s*,\s*(.+)\)$"
    MEMCPY = r"^memcpy\(\s*out\s*,\s*wide_buf\s*(?:\+\s*(.+?))?\s*,\s*(.+)\)$"
    lines = []

    def block(stmts, names, indent, mutable_outer):
        """emit statements; returns the set of outer variables assigned"""
        assigned = set()
        pad = "  " * indent
        for st in stmts:
            if st[0] == "if":
                cond = c_cond(st[1], names)
                inner = c_statements(st[2])
                # which outer variables does the block assign?
                sub_lines_start = len(lines)
                lines.append(None)   # placeholder for the header
                inner_names = set(names)
                asg = block(inner, inner_names, indent + 1, mutable_outer)
                asg = [v for v in mutable_outer if v in asg]
                tup = "(" + ", ".join(asg) + ")" if len(asg) != 1 else asg[0]
                lines[sub_lines_start] = f"{pad}  let {tup} := if {cond} then"
                lines.append(f"{pad}    {tup}")
                lines.append(f"{pad}    else {tup}")
                assigned |= set(asg)
                continue
            t = st[1]
            if t == "":
                continue
            if re.match(r"^uint8_t\s+wide_buf\s*\[\s*64\s*\]$", t):
                continue
            m = re.match(r"^(?:const\s+)?(?:uint64_t|size_t)\s+(\w+)\s*=\s*(.+)$", t, re.S)
            if m:
                lines.append(f"{pad}  let {m.group(1)} := {c_value(m.group(2), names)}")
                names.add(m.group(1))
                continue
            m = re.match(XOF1, t, re.S)
            if m:
                lines.append(f"{pad}  let wide_buf : Option Nat := some {c_value(m.group(1), names)}")
                assigned.add("wide_buf")
                continue
            m = re.match(MEMCPY, t, re.S)
            if m:
                src = c_value(m.group(1), names) if m.group(1) else "0"
                lines.append(f"{pad}  let ev := ev ++ [Ev.copy out wide_buf {src} {c_value(m.group(2), names)}]")
                assigned.add("ev")
                continue
            m = re.match(XOFN, t, re.S)
            if m:
                lines.append(f"{pad}  let ev := ev ++ [Ev.many out {c_value(m.group(1), names)} {c_value(m.group(2), names)}]")
                assigned.add("ev")
                continue
            m = re.match(r"^(\w+)\s*(\+|-)=\s*(.+)$", t, re.S)
            if m:
                v = m.group(1)
                if v not in names:
                    raise ValueError(f"assignment to unknown {v}")
                f = "Arith.w64add" if m.group(2) == "+" else "Arith.w64sub"
                lines.append(f"{pad}  let {v} := {f} {v} {c_value(m.group(3), names)}")
                assigned.add(v)
                continue
            raise ValueError(f"statement {t!r}")
        return assigned

    try:
        stmts = c_statements(body)
        if not (stmts and stmts[0][0] == "if" and re.match(r"^\s*out_len\s*==\s*0\s*$", stmts[0][1]) and re.match(r"^\s*return\s*;\s*$", stmts[0][2])):
            raise ValueError("first statement is not `if (out_len == 0) { return; }`")
        names = {"seek", "out", "out_len"}
        block(stmts[1:], names, 0, ["out", "out_len", "output_block_counter", "wide_buf", "ev"])
    except TranslationBroken:
        raise
    except Exception as ex:
        raise TranslationBroken(A, f"output_root_bytes: {ex}")
    o = ["/-- one write of `output_root_bytes` into the caller's buffer -/",
         "inductive Ev where",
         "  | copy (dst : Nat) (blk : Option Nat) (src n : Nat)   -- memcpy(out + dst, wide_buf + src, n); wide_buf = output block `blk` (none = never filled)",
         "  | many (dst ctr nblocks : Nat)                        -- blake3_xof_many(counter = ctr, out + dst, nblocks)",
         "deriving DecidableEq, Repr", "",
         "/-- `output_root_bytes(self, seek, out, out_len)` as the list of writes it performs; `out` is the offset from the",
         "caller's pointer, all arithmetic is C unsigned 64-bit (wrapping) -/",
         "def output_root_plan (seek out_len : Nat) : List Ev :=",
         "  if out_len = 0 then [] else",
         "  let out := 0", "  let ev : List Ev := []", "  let wide_buf : Option Nat := none"]
    o += lines
    o += ["  ev", ""]
    return "\n".join(o)


# ------------------------------------------------------------------------------------------------
# G6: control skeleton of the Rust Hasher (merge_cv_stack, push_cv, final_output): a statement-level
# translation of imperative code (let / let mut, assignment, compound assignment, if/else, early return, while ->
# fuel loop, Vec-like push / pop().unwrap() / len / index) into the checked-arithmetic monad R.


def rs_statements(text):
    """top-level statements of a Rust block: ('while', cond, body) | ('if', cond, then, else|None) | ('stmt', s) | ('tail', s)"""
    out = []
    i, n = 0, len(text)

    def cond_and_block(j):
        depth = 0
        k = j
        while k < n:
            ch = text[k]
            if ch in "([":
                depth += 1
            elif ch in ")]":
                depth -= 1
            elif ch == "{" and depth == 0:
                e = match_brace(text, k)
                return text[j:k].strip(), text[k + 1:e - 1], e
            k += 1
        raise ValueError("block expected")

    while i < n:
        while i < n and text[i].isspace():
            i += 1
        if i >= n:
            break
        m = re.match(r"(while|if)\b", text[i:])
        if m:
            cond, blk, e = cond_and_block(i + m.end())
            if m.group(1) == "while":
                out.append(("while", cond, blk))
                i = e
                continue
            els = None
            m2 = re.match(r"\s*else\s*\{", text[e:])
            if m2:
                k = e + m2.end() - 1
                e2 = match_brace(text, k)
                els = text[k + 1:e2 - 1]
                e = e2
            elif re.match(r"\s*else\s+if\b", text[e:]):
                raise ValueError("else-if chains are not supported")
            out.append(("if", cond, blk, els))
            i = e
            continue
        depth = 0
        k = i
        while k < n:
            ch = text[k]
            if ch in "([{":
                depth += 1
            elif ch in ")]}":
                depth -= 1
            elif ch == ";" and depth == 0:
                break
            k += 1
        if k >= n:
            out.append(("tail", text[i:].strip()))
            break
        out.append(("stmt", text[i:k].strip()))
        i = k + 1
    return out


class ImpTr:
    """cfg: name, params [(lean name, type)], ret type, types {var: type}, expr(e, tr) -> (term, type) | None for special
    expressions, fuel {loop index: lean term}, self_calls {method: (lean fn, [arg names], assigns var)}"""

    def __init__(self, artefact, cfg, consts):
        self.A, self.cfg, self.consts = artefact, cfg, consts
        self.types = dict(cfg["types"])
        self.defs = []
        self.nloops = 0
        self.tmp = 0

    def fresh(self):
        self.tmp += 1
        return f"t{self.tmp}"

    # -- expressions: returns (term, type); appends monadic lets to `lines`
    def ex(self, e, lines, pad):
        sp = self.cfg["expr"](e, self, lines, pad)
        if sp is not None:
            return sp
        c = const_eval(e)
        if c is not None:
            return str(c), "Nat"
        k = e[0]
        if k == "var":
            if e[1] in self.consts:
                return str(self.consts[e[1]]), "Nat"
            if e[1] not in self.types:
                raise ValueError(f"unknown variable {e[1]}")
            return e[1], self.types[e[1]]
        if k == "paren":
            return self.ex(e[1], lines, pad)
        if k == "cast":
            if e[2] in ("u64", "usize"):
                return self.ex(e[1], lines, pad)
            raise ValueError(f"cast to {e[2]}")
        if k == "bin":
            (a, ta), (b, tb) = self.ex(e[2], lines, pad), self.ex(e[3], lines, pad)
            if ta != "Nat" or tb != "Nat":
                raise ValueError("arithmetic on non-integers")
            f = {"+": "Arith.cadd", "-": "Arith.csub", "*": "Arith.cmul", "/": "Arith.cdiv", "%": "Arith.cmod"}.get(e[1])
            if not f:
                raise ValueError(f"operator {e[1]}")
            v = self.fresh()
            lines.append(f"{pad}let {v} ← {f} {a} {b}")
            return v, "Nat"
        if k == "method":
            r, tr = self.ex(e[1], lines, pad)
            if e[2] == "len" and not e[3] and tr.startswith("List"):
                return f"{r}.length", "Nat"
            if e[2] == "count_ones" and not e[3] and tr == "Nat":
                return f"(Arith.popcnt {r})", "Nat"
            if e[2] == "unwrap" and not e[3]:
                return r, tr       # `pop().unwrap()` is handled as a statement; other unwraps are the identity on R values
            raise ValueError(f"method {e[2]} on {tr}")
        if k == "index":
            r, tr = self.ex(e[1], lines, pad)
            i, ti = self.ex(e[2], lines, pad)
            if not tr.startswith("List ") or ti != "Nat":
                raise ValueError("index on a non-list")
            v = self.fresh()
            lines.append(f"{pad}let {v} ← Arith.getIdx {r} {i}")
            return v, tr[5:]
        raise ValueError(f"cannot translate {e}")

    def cond(self, s, lines, pad):
        s = s.strip()
        m = re.match(r"^(.+)\.is_empty\(\)$", s, re.S)
        if m:
            r, tr = self.ex(parse_expr(m.group(1)), lines, pad)
            return f"{r}.isEmpty"
        for op, lean in ((">=", "≥"), ("<=", "≤"), ("==", "="), ("!=", "≠"), (">", ">"), ("<", "<")):
            parts = split_top(s, op)
            if parts:
                a, _ = self.ex(parse_expr(parts[0]), lines, pad)
                b, _ = self.ex(parse_expr(parts[1]), lines, pad)
                return f"{a} {lean} {b}"
        raise ValueError(f"condition {s!r}")

    def assigned(self, stmts):
        """variables (already typed, i.e. declared outside or declared-uninitialised) assigned in a statement list"""
        out = []

        def add(v):
            if v not in out:
                out.append(v)
        for st in stmts:
            if st[0] == "while":
                for v in self.assigned(rs_statements(st[2])):
                    add(v)
            elif st[0] == "if":
                for v in self.assigned(rs_statements(st[2])) + (self.assigned(rs_statements(st[3])) if st[3] else []):
                    add(v)
            elif st[0] == "stmt":
                t = self.norm(st[1])
                m = re.match(r"^(\w+)\s*(?:[-+*/]?=)(?!=)", t)
                if m and not t.startswith("let "):
                    add(m.group(1))
                m = re.match(r"^(\w+)\.push\(", t)
                if m:
                    add(m.group(1))
                m = re.match(r"^let\s+\w+\s*=\s*(\w+)\.pop\(\)\.unwrap\(\)$", t)
                if m:
                    add(m.group(1))
                for meth, (_, _, target) in self.cfg.get("self_calls", {}).items():
                    if re.match(r"^self\.%s\(" % meth, t) and target:
                        add(target)
        return out

    def norm(self, t):
        for a, b in self.cfg.get("subst", []):
            t = t.replace(a, b)
        return t.strip()

    def tup(self, vs):
        return vs[0] if len(vs) == 1 else "(" + ", ".join(vs) + ")"

    def tuptype(self, vs):
        return f"({self.types[vs[0]]})" if len(vs) == 1 else "(" + " × ".join(self.types[v] for v in vs) + ")"

    def block(self, stmts, pad, result_vars):
        """lines of a `do` block that ends with `pure <result_vars>` (or the tail expression when result_vars is None)"""
        lines = []
        idx = 0
        while idx < len(stmts):
            st = stmts[idx]
            idx += 1
            if st[0] == "while":
                body = rs_statements(st[2])
                svars = self.assigned(body)
                if not svars:
                    raise ValueError("loop assigns nothing")
                self.nloops += 1
                k = self.nloops
                lname = f"{self.cfg['name']}_loop{k}" if k > 1 else f"{self.cfg['name']}_loop"
                # read-only free variables of the loop: every typed name that occurs in its text and is not state
                txt = self.norm(st[1] + " " + st[2])
                ro = [v for v in self.types if v not in svars and re.search(r"\b%s\b" % re.escape(v), txt) and v not in self.cfg.get("globals", [])]
                sub = ImpTr(self.A, self.cfg, self.consts)
                sub.types = dict(self.types)
                sub.nloops = self.nloops
                cl = []
                c = sub.cond(self.norm(st[1]), cl, "      ")
                bl = sub.block(body, "        ", None)
                self.defs += sub.defs
                self.nloops = sub.nloops
                args = svars + ro
                d = [f"def {lname} : Nat → " + " → ".join(self.types[v] for v in args) + f" → R {self.tuptype(svars)}",
                     "  | 0, " + ", ".join("_" for _ in args) + " => .panic   -- out of fuel",
                     "  | fuel + 1, " + ", ".join(args) + " => do"]
                d += cl
                d += [f"      if {c} then do"] + bl + [f"        {lname} fuel " + " ".join(args), f"      else pure {self.tup(svars)}", ""]
                self.defs.append("\n".join(d))
                fuel = self.cfg["fuel"][k]
                lines.append(f"{pad}let {self.tup(svars)} ← {lname} {self.cfg.get('section_args', '')} ({fuel}) " + " ".join(args))
                continue
            if st[0] == "if":
                then = rs_statements(st[2])
                # early return: `if c { ...; return E; }` followed by the rest of the block
                if then and then[-1][0] == "stmt" and then[-1][1].startswith("return ") and st[3] is None:
                    cl = []
                    c = self.cond(self.norm(st[1]), cl, pad)
                    lines += cl
                    tl = self.block(then[:-1] + [("tail", then[-1][1][7:])], pad + "  ", None)
                    rest = self.block(stmts[idx:], pad + "  ", result_vars)
                    lines += [f"{pad}if {c} then do"] + tl + [f"{pad}else do"] + rest
                    return lines
                els = rs_statements(st[3]) if st[3] else []
                avars = self.assigned(then + els)
                cl = []
                c = self.cond(self.norm(st[1]), cl, pad)
                lines += cl
                # variables declared without initialiser must be assigned in both branches
                for v in avars:
                    if v in self.uninit and not (v in self.assigned(then) and v in self.assigned(els)):
                        raise ValueError(f"{v} may be used uninitialised")
                save = set(self.uninit)
                self.uninit -= set(avars)
                tl = self.block(then, pad + "    ", avars)
                el = self.block(els, pad + "    ", avars)
                if not avars:
                    raise ValueError("if without effect")
                lines += [f"{pad}let {self.tup(avars)} ← (if {c} then do"] + tl + [f"{pad}  else do"] + el + [f"{pad}  )"]
                continue
            t = self.norm(st[1])
            if st[0] == "tail":
                v, ty = self.ex(parse_expr(t), lines, pad)
                lines.append(f"{pad}pure {v}")
                return lines
            if re.match(r"^debug_assert(_eq)?!\(", t):
                continue        # debug assertions do not affect the result; the harness observes them as PANIC
            m = re.match(r"^let\s+mut\s+(\w+)\s*:\s*(\w+)$", t)
            if m:
                ty = self.cfg["rust_types"].get(m.group(2))
                if not ty:
                    raise ValueError(f"type {m.group(2)}")
                self.types[m.group(1)] = ty
                self.uninit.add(m.group(1))
                continue
            m = re.match(r"^let\s+(\w+)\s*=\s*(\w+)\.pop\(\)\.unwrap\(\)$", t)
            if m:
                lines.append(f"{pad}let ({m.group(1)}, {m.group(2)}) ← Arith.pop {m.group(2)}")
                self.types[m.group(1)] = self.types[m.group(2)][5:]
                continue
            m = re.match(r"^let\s+(?:mut\s+)?(\w+)(?:\s*:\s*\w+)?\s*=\s*(.+)$", t, re.S)
            if m:
                v, ty = self.ex(parse_expr(m.group(2)), lines, pad)
                lines.append(f"{pad}let {m.group(1)} := {v}")
                self.types[m.group(1)] = ty
                continue
            m = re.match(r"^(\w+)\.push\((.+)\)$", t, re.S)
            if m:
                v, ty = self.ex(parse_expr(m.group(2)), lines, pad)
                lines.append(f"{pad}let {m.group(1)} := {m.group(1)} ++ [{v}]")
                continue
            m = re.match(r"^(\w+)\s*([-+])=\s*(.+)$", t, re.S)
            if m:
                v, ty = self.ex(parse_expr(m.group(3)), lines, pad)
                f = "Arith.cadd" if m.group(2) == "+" else "Arith.csub"
                lines.append(f"{pad}let {m.group(1)} ← {f} {m.group(1)} {v}")
                continue
            m = re.match(r"^(\w+)\s*=\s*(.+)$", t, re.S)
            if m and m.group(1) in self.types:
                v, ty = self.ex(parse_expr(m.group(2)), lines, pad)
                lines.append(f"{pad}let {m.group(1)} := {v}")
                continue
            done = False
            for meth, (fn, argnames, target) in self.cfg.get("self_calls", {}).items():
                m = re.match(r"^self\.%s\((.*)\)$" % meth, t, re.S)
                if m:
                    p = P(tokenize(m.group(1) + ")"))
                    args = [self.ex(a, lines, pad)[0] for a in p.args(")")]
                    lines.append(f"{pad}let {target} ← {fn} " + " ".join(argnames + args))
                    done = True
            if done:
                continue
            raise ValueError(f"statement {t!r}")
        if result_vars is not None:
            lines.append(f"{pad}pure {self.tup(result_vars)}")
        return lines

    uninit = set()


def split_top(s, op):
    depth = 0
    i = 0
    while i < len(s):
        c = s[i]
        if c in "([":
            depth += 1
        elif c in ")]":
            depth -= 1
        elif depth == 0 and s.startswith(op, i):
            if op in (">", "<") and (s[i + 1:i + 2] in ("=", ">", "<") or (i > 0 and s[i - 1] in ("<", ">", "-", "="))):
                i += 1
                continue
            if op == "==" or op == "!=" or op in (">=", "<=") or op in (">", "<"):
                return s[:i], s[i + len(op):]
        i += 1
    return None


def gen_skeleton():
    A = "G6-skeleton"
    consts = rust_consts()
    PNO = ["&self.key", "self.chunk_state.flags", "self.chunk_state.platform"]

    def special(e, tr, lines, pad):
        if e[0] == "call" and e[1] == "parent_node_output":
            return None   # handled textually below (arguments contain `&`)
        if e[0] == "method" and e[2] == "chaining_value" and not e[3]:
            r, ty = tr.ex(e[1], lines, pad)
            if ty != "Out":
                raise ValueError("chaining_value on a non-Output")
            return f"(chain {r})", "CV"
        return None

    def mk(name, params, ret, types, fuel, extra_subst=()):
        return dict(name=name, params=params, ret=ret, types=types, expr=special, fuel=fuel, section_args="parentOutput chain",
                    rust_types={"Output": "Out"},
                    subst=[("self.cv_stack", "cv_stack"), ("self.initial_chunk_counter", "initial_chunk_counter"),
                           ("self.chunk_state.count()", "cs_count"), ("self.chunk_state.output()", "cs_output"),
                           ("self.chunk_state.chunk_counter", "cs_chunk_counter")] + list(extra_subst),
                    self_calls={"merge_cv_stack": ("merge_cv_stack parentOutput chain", ["cv_stack", "initial_chunk_counter"], "cv_stack")})

    def prep(body):
        body = strip_comments(body)
        # parent_node_output(&a, &b, &self.key, self.chunk_state.flags, self.chunk_state.platform) -> __pno(a, b)
        def repl(m):
            inner = m.group(1)
            p = [x.strip() for x in split_args(inner)]
            if len(p) != 5 or [re.sub(r"\s+", "", x) for x in p[2:]] != [re.sub(r"\s+", "", x) for x in PNO]:
                raise TranslationBroken(A, f"parent_node_output called with unexpected key/flags/platform arguments: {inner!r}")
            return f"__pno({p[0].lstrip('&')}, {p[1].lstrip('&')})"
        out, i = [], 0
        while True:
            j = body.find("parent_node_output(", i)
            if j < 0:
                out.append(body[i:])
                break
            e = match_brace(body, j + len("parent_node_output"), "(", ")")
            out.append(body[i:j])
            out.append(repl(re.match(r"parent_node_output\((.*)\)$", body[j:e], re.S)))
            i = e
        return "".join(out)

    def special2(e, tr, lines, pad):
        if e[0] == "call" and e[1] == "__pno":
            (a, ta), (b, tb) = tr.ex(e[2][0], lines, pad), tr.ex(e[2][1], lines, pad)
            if ta != "CV" or tb != "CV":
                raise ValueError("parent_node_output on non-CVs")
            return f"(parentOutput {a} {b})", "Out"
        return special(e, tr, lines, pad)

    o = ["/- GENERATED by gen/extract.py from /repo/src/lib.rs (Hasher::merge_cv_stack, push_cv, final_output) -- do not edit -/",
         "import B3.Prim", "import B3.Arith", "namespace B3.Gen.Rs.Skel", "open B3", "",
         "variable {Out : Type} (parentOutput : CV → CV → Out) (chain : Out → CV)", "include parentOutput chain", ""]

    def emit_fn(header_re, cfg, sig, doc):
        params, body = find_fn(A, "src/lib.rs", header_re)
        cfg["expr"] = special2
        tr = ImpTr(A, cfg, consts)
        tr.uninit = set()
        try:
            lines = tr.block(rs_statements(prep(body)), "  ", cfg.get("result"))
        except TranslationBroken:
            raise
        except Exception as ex:
            raise TranslationBroken(A, f"{cfg['name']}: {ex}")
        o.extend(tr.defs)
        o.append(f"/-- {doc} -/")
        o.append(f"def {cfg['name']} {sig} : R {cfg['ret']} := do")
        o.extend(lines)
        o.append("")

    emit_fn(r"fn\s+merge_cv_stack\s*\(\s*&mut\s+self\s*,\s*chunk_counter\s*:\s*u64\s*\)",
            dict(mk("merge_cv_stack", None, "(List CV)", {"cv_stack": "List CV", "initial_chunk_counter": "Nat", "chunk_counter": "Nat"},
                    {1: "cv_stack.length + 1"}), result=["cv_stack"]),
            "(cv_stack : List CV) (initial_chunk_counter chunk_counter : Nat)",
            "`Hasher::merge_cv_stack`: returns the new `cv_stack`; panics where the code's `unwrap` / subtraction would")
    emit_fn(r"fn\s+push_cv\s*\(\s*&mut\s+self\s*,\s*new_cv\s*:\s*&CVBytes\s*,\s*chunk_counter\s*:\s*u64\s*\)",
            dict(mk("push_cv", None, "(List CV)", {"cv_stack": "List CV", "initial_chunk_counter": "Nat", "chunk_counter": "Nat", "new_cv": "CV"}, {}),
                 result=["cv_stack"]),
            "(cv_stack : List CV) (initial_chunk_counter : Nat) (new_cv : CV) (chunk_counter : Nat)",
            "`Hasher::push_cv`")
    emit_fn(r"fn\s+final_output\s*\(\s*&self\s*\)\s*->\s*Output",
            dict(mk("final_output", None, "Out", {"cv_stack": "List CV", "cs_output": "Out", "cs_count": "Nat", "initial_chunk_counter": "Nat",
                                                   "cs_chunk_counter": "Nat"}, {1: "num_cvs_remaining + 1"}), result=None),
            "(cv_stack : List CV) (cs_output : Out) (cs_count : Nat)",
            "`Hasher::final_output` (`cs_output` = `self.chunk_state.output()`, `cs_count` = `self.chunk_state.count()`)")
    o.append("end B3.Gen.Rs.Skel")
    return "\n".join(o) + "\n"


def split_args(s):
    out, depth, cur = [], 0, []
    for ch in s:
        if ch in "([{":
            depth += 1
        elif ch in ")]}":
            depth -= 1
        if ch == "," and depth == 0:
            out.append("".join(cur))
            cur = []
        else:
            cur.append(ch)
    if "".join(cur).strip():
        out.append("".join(cur))
    return out


# ------------------------------------------------------------------------------------------------
# G3d: accesses to self->cv_stack in c/blake3.c (hasher_merge_cv_stack, hasher_push_cv, blake3_hasher_finalize_seek)


def c_int_expr(s, names, consts):
    """C integer expression over small non-negative values -> exact Lean Int expression (no wrap-around: the theorems show the
    exact values are in range, so the machine values coincide with them)"""
    def go(e):
        k = e[0]
        if k == "num":
            return str(e[1])
        if k == "var":
            if e[1] in consts:
                return str(consts[e[1]])
            if e[1] in names:
                return names[e[1]]
            raise ValueError(f"unknown name {e[1]}")
        if k == "paren":
            return "(" + go(e[1]) + ")"
        if k == "cast":
            return go(e[1])
        if k == "bin" and e[1] in "+-*":
            return f"({go(e[2])} {e[1]} {go(e[3])})"
        raise ValueError(f"cannot translate {e}")
    return go(parse_expr(s.replace("self->cv_stack_len", "cv_stack_len")))


def gen_c_stack_accesses(A):
    cc = {"BLAKE3_OUT_LEN": c_define_int(A, "c/blake3.h", "BLAKE3_OUT_LEN"), "BLAKE3_BLOCK_LEN": c_define_int(A, "c/blake3.h", "BLAKE3_BLOCK_LEN")}
    max_depth = c_define_int(A, "c/blake3.h", "BLAKE3_MAX_DEPTH")
    # the declared size of the array
    htxt = strip_comments(src("c/blake3.h"))
    m = re.search(r"uint8_t\s+cv_stack\s*\[\s*\(\s*BLAKE3_MAX_DEPTH\s*\+\s*1\s*\)\s*\*\s*BLAKE3_OUT_LEN\s*\]", htxt)
    if not m:
        raise TranslationBroken(A, "blake3.h: cv_stack is not declared as uint8_t cv_stack[(BLAKE3_MAX_DEPTH + 1) * BLAKE3_OUT_LEN]")
    if not re.search(r"uint8_t\s+cv_stack_len\s*;", htxt):
        raise TranslationBroken(A, "blake3.h: cv_stack_len is not a uint8_t")
    size = (max_depth + 1) * cc["BLAKE3_OUT_LEN"]
    STACK = r"&\s*self->cv_stack\s*\[(.+)\]"
    o = ["/-- one access to `self->cv_stack` (byte offset, length); offsets are exact integers -/",
         "inductive Acc where", "  | read (off : Int) (len : Nat)", "  | write (off : Int) (len : Nat)", "deriving DecidableEq, Repr", "",
         f"def CV_STACK_BYTES : Nat := {size}", ""]

    def fail(fn, msg):
        raise TranslationBroken(A, f"{fn}: {msg}")

    # ---- hasher_merge_cv_stack
    fn = "hasher_merge_cv_stack"
    params, body = find_fn(A, "c/blake3.c", r"INLINE\s+void\s+hasher_merge_cv_stack\s*\(")
    if not re.match(r"\s*blake3_hasher\s*\*\s*self\s*,\s*uint64_t\s+total_len\s*$", params):
        fail(fn, "unexpected parameters")
    body = strip_comments(body)
    m = re.match(r"^\s*size_t\s+post_merge_stack_len\s*=\s*\(size_t\)\s*popcnt\(\s*total_len\s*\)\s*;\s*while\s*\(\s*self->cv_stack_len\s*>\s*post_merge_stack_len\s*\)\s*\{(.*)\}\s*$", body, re.S)
    if not m:
        fail(fn, "expected `post_merge_stack_len = popcnt(total_len); while (self->cv_stack_len > post_merge_stack_len) {...}`")
    names = {"cv_stack_len": "(cv_stack_len : Int)"}
    ptrs = {}
    ev = []
    dec = None
    try:
        for kind, t in [(k, x) for k, *r in c_statements(m.group(1)) for x in r[:1]]:
            if kind != "stmt":
                fail(fn, "nested control flow in the loop body")
            mm = re.match(r"^uint8_t\s*\*\s*(\w+)\s*=\s*" + STACK + r"$", t, re.S)
            if mm:
                ptrs[mm.group(1)] = c_int_expr(mm.group(2), names, cc)
                continue
            mm = re.match(r"^output_t\s+output\s*=\s*parent_output\(\s*(\w+)\s*,\s*self->key\s*,\s*self->chunk\.flags\s*\)$", t)
            if mm and mm.group(1) in ptrs:
                ev.append(f".read {ptrs[mm.group(1)]} {cc['BLAKE3_BLOCK_LEN']}")
                continue
            mm = re.match(r"^output_chaining_value\(\s*&output\s*,\s*(\w+)\s*\)$", t)
            if mm and mm.group(1) in ptrs:
                ev.append(f".write {ptrs[mm.group(1)]} {cc['BLAKE3_OUT_LEN']}")
                continue
            mm = re.match(r"^self->cv_stack_len\s*-=\s*(\d+)$", t)
            if mm:
                dec = int(mm.group(1))
                continue
            fail(fn, f"statement {t!r}")
    except TranslationBroken:
        raise
    except Exception as ex:
        fail(fn, str(ex))
    if dec is None:
        fail(fn, "the loop does not decrease cv_stack_len")
    o += ["def merge_cv_stack_loop : Nat → Nat → Nat → List Acc → Nat × List Acc",
          "  | 0, cv_stack_len, _, acc => (cv_stack_len, acc)",
          "  | fuel + 1, cv_stack_len, post_merge_stack_len, acc =>",
          "    if cv_stack_len > post_merge_stack_len then",
          f"      merge_cv_stack_loop fuel (cv_stack_len - {dec}) post_merge_stack_len (acc ++ [{', '.join(ev)}])",
          "    else (cv_stack_len, acc)", "",
          "/-- `hasher_merge_cv_stack`: the new `cv_stack_len` and the accesses to `cv_stack` -/",
          "def hasher_merge_cv_stack (cv_stack_len total_len : Nat) : Nat × List Acc :=",
          "  merge_cv_stack_loop (cv_stack_len + 1) cv_stack_len (Arith.popcnt total_len) []", ""]
    # ---- hasher_push_cv
    fn = "hasher_push_cv"
    params, body = find_fn(A, "c/blake3.c", r"INLINE\s+void\s+hasher_push_cv\s*\(")
    body = strip_comments(body)
    m = re.match(r"^\s*hasher_merge_cv_stack\(\s*self\s*,\s*chunk_counter\s*\)\s*;\s*memcpy\(\s*" + STACK + r"\s*,\s*new_cv\s*,\s*(\w+)\s*\)\s*;\s*self->cv_stack_len\s*\+=\s*(\d+)\s*;\s*$", body, re.S)
    if not m:
        fail(fn, "expected `hasher_merge_cv_stack(self, chunk_counter); memcpy(&self->cv_stack[..], new_cv, N); self->cv_stack_len += k;`")
    try:
        off = c_int_expr(m.group(1), names, cc)
        ln = cc[m.group(2)] if m.group(2) in cc else int(m.group(2))
    except Exception as ex:
        fail(fn, str(ex))
    o += ["/-- `hasher_push_cv` -/",
          "def hasher_push_cv (cv_stack_len chunk_counter : Nat) : Nat × List Acc :=",
          "  let (cv_stack_len, acc) := hasher_merge_cv_stack cv_stack_len chunk_counter",
          f"  (cv_stack_len + {m.group(3)}, acc ++ [.write {off} {ln}])", ""]
    # ---- blake3_hasher_finalize_seek
    fn = "blake3_hasher_finalize_seek"
    params, body = find_fn(A, "c/blake3.c", r"void\s+blake3_hasher_finalize_seek\s*\(")
    body = strip_comments(body)
    st = c_statements_ws(body)
    try:
        if not (st[0][0] == "if" and re.match(r"^\s*out_len\s*==\s*0\s*$", st[0][1]) and re.match(r"^\s*return\s*;\s*$", st[0][2])):
            fail(fn, "first statement is not the out_len == 0 early return")
        if not (st[1][0] == "if" and re.match(r"^\s*self->cv_stack_len\s*==\s*0\s*$", st[1][1]) and "cv_stack[" not in st[1][2] and re.search(r"return\s*;\s*$", st[1][2])):
            fail(fn, "second statement is not the empty-stack early return")
        rest = st[2:]
        i = 0
        while rest[i][0] == "stmt" and re.match(r"^(output_t\s+output|size_t\s+cvs_remaining)$", rest[i][1]):
            i += 1
        ifs = rest[i]
        if not (ifs[0] == "ifelse" and re.match(r"^\s*chunk_state_len\(\s*&self->chunk\s*\)\s*>\s*0\s*$", ifs[1])):
            fail(fn, "expected if (chunk_state_len(&self->chunk) > 0) {...} else {...}")

        def branch(txt):
            init, evs = None, []
            nm = dict(names)
            for kind, *r in c_statements(txt):
                t = r[0]
                mm = re.match(r"^cvs_remaining\s*=\s*(.+)$", t, re.S)
                if mm:
                    init = c_int_expr(mm.group(1), nm, cc)
                    nm["cvs_remaining"] = "(" + init + ")"
                    continue
                if re.match(r"^output\s*=\s*chunk_state_output\(\s*&self->chunk\s*\)$", t):
                    continue
                mm = re.match(r"^output\s*=\s*parent_output\(\s*" + STACK + r"\s*,\s*self->key\s*,\s*self->chunk\.flags\s*\)$", t, re.S)
                if mm:
                    evs.append(f".read {c_int_expr(mm.group(1), nm, cc)} {cc['BLAKE3_BLOCK_LEN']}")
                    continue
                fail(fn, f"statement {t!r}")
            if init is None:
                fail(fn, "a branch does not set cvs_remaining")
            return init, evs
        i1, e1 = branch(ifs[2])
        i2, e2 = branch(ifs[3])
        wl = rest[i + 1]
        if not (wl[0] == "while" and re.match(r"^\s*cvs_remaining\s*>\s*0\s*$", wl[1])):
            fail(fn, "expected while (cvs_remaining > 0)")
        nm = dict(names)
        nm["cvs_remaining"] = "(cvs_remaining : Int)"
        lev = []
        predec = None
        for kind, *r in c_statements(wl[2]):
            t = r[0]
            mm = re.match(r"^cvs_remaining\s*-=\s*(\d+)$", t)
            if mm:
                if lev:
                    fail(fn, "cvs_remaining is decremented after an access in the loop")
                predec = int(mm.group(1))
                nm["cvs_remaining"] = f"((cvs_remaining : Int) - {predec})"
                continue
            if re.match(r"^uint8_t\s+parent_block\s*\[\s*BLAKE3_BLOCK_LEN\s*\]$", t):
                continue
            mm = re.match(r"^memcpy\(\s*parent_block\s*,\s*" + STACK + r"\s*,\s*(\d+)\s*\)$", t, re.S)
            if mm:
                lev.append(f".read {c_int_expr(mm.group(1), nm, cc)} {mm.group(2)}")
                continue
            if re.match(r"^output_chaining_value\(\s*&output\s*,\s*&parent_block\[\s*32\s*\]\s*\)$", t) or \
               re.match(r"^output\s*=\s*parent_output\(\s*parent_block\s*,\s*self->key\s*,\s*self->chunk\.flags\s*\)$", t):
                continue
            fail(fn, f"statement {t!r}")
        if predec is None:
            fail(fn, "the loop does not decrease cvs_remaining")
        last = rest[i + 2]
        if not (last[0] == "stmt" and re.match(r"^output_root_bytes\(\s*&output\s*,\s*seek\s*,\s*out\s*,\s*out_len\s*\)$", last[1])) or len(rest) != i + 3:
            fail(fn, "expected the function to end with output_root_bytes(&output, seek, out, out_len)")
    except TranslationBroken:
        raise
    except Exception as ex:
        fail(fn, str(ex))
    o += ["def finalize_walk_loop : Nat → Nat → List Acc → List Acc",
          "  | 0, _, acc => acc",
          "  | fuel + 1, cvs_remaining, acc =>",
          "    if cvs_remaining > 0 then",
          f"      finalize_walk_loop fuel (cvs_remaining - {predec}) (acc ++ [{', '.join(lev)}])",
          "    else acc", "",
          "/-- `blake3_hasher_finalize_seek` with `out_len > 0`: the accesses to `cv_stack` before `output_root_bytes` -/",
          "def finalize_seek_accesses (cv_stack_len chunk_state_len : Nat) : List Acc :=",
          "  if cv_stack_len = 0 then [] else",
          "  let (cvs_remaining, acc) : Int × List Acc :=",
          f"    if chunk_state_len > 0 then ({i1}, [{', '.join(e1)}]) else ({i2}, [{', '.join(e2)}])",
          "  finalize_walk_loop (cvs_remaining.toNat + 1) cvs_remaining.toNat acc", ""]
    return "\n".join(o)


def c_statements_ws(text):
    """like c_statements, with `while (..) {..}` and `if (..) {..} else {..}`"""
    out = []
    i, n = 0, len(text)
    while i < n:
        while i < n and text[i].isspace():
            i += 1
        if i >= n:
            break
        m = re.match(r"(if|while)\s*\(", text[i:])
        if m:
            j = match_brace(text, i + m.end() - 1, "(", ")")
            k = j
            while text[k].isspace():
                k += 1
            if text[k] != "{":
                raise ValueError("block expected")
            e = match_brace(text, k)
            cond, blk = text[i + m.end():j - 1], text[k + 1:e - 1]
            if m.group(1) == "while":
                out.append(("while", cond, blk))
                i = e
                continue
            m2 = re.match(r"\s*else\s*\{", text[e:])
            if m2:
                k2 = e + m2.end() - 1
                e2 = match_brace(text, k2)
                out.append(("ifelse", cond, blk, text[k2 + 1:e2 - 1]))
                i = e2
            else:
                out.append(("if", cond, blk))
                i = e
            continue
        j = text.index(";", i)
        out.append(("stmt", text[i:j].strip()))
        i = j + 1
    return out

# ------------------------------------------------------------------------------------------------
# G5: published test vectors


def gen_vectors():
    A = "G5-vectors"
    rel = "test_vectors/test_vectors.json"
    text = src(rel)
    record_span(A, rel, 0, len(text))
    try:
        d = json.loads(text)
        key = d["key"].encode()
        ctx = d["context_string"].encode()
        cases = d["cases"]
    except Exception as ex:
        raise TranslationBroken(A, f"cannot parse {rel}: {ex}")

    def lst(b):
        return "[" + ", ".join(str(x) for x in b) + "]"
    o = ["/- GENERATED by gen/extract.py from /repo/test_vectors/test_vectors.json -- do not edit -/",
         "namespace B3.Gen.Vectors", "",
         f"def key : List UInt8 := {lst(key)}", f"def context : List UInt8 := {lst(ctx)}",
         f"def inputLens : List Nat := {[c['input_len'] for c in cases]}", ""]
    small = [c for c in cases if c["input_len"] <= 1]
    for c in small:
        n = c["input_len"]
        for f in ("hash", "keyed_hash", "derive_key"):
            try:
                b = bytes.fromhex(c[f])
            except Exception as ex:
                raise TranslationBroken(A, f"case {n} field {f}: {ex}")
            o.append(f"def case{n}_{f} : List UInt8 := {lst(b)}")
    o.append("")
    o.append("end B3.Gen.Vectors")
    return "\n".join(o) + "\n"


# ------------------------------------------------------------------------------------------------
# G4: structural listings (Debug fields, Zeroize fields vs struct fields, SIMD degree tables)


def struct_fields(artefact, rel, name):
    text = src(rel)
    m = re.search(rf"(?:pub\s+)?struct\s+{name}\s*\{{", text)
    if not m:
        raise TranslationBroken(artefact, f"struct {name} not found in {rel}")
    b0 = m.end() - 1
    b1 = match_brace(text, b0)
    record_span(artefact, rel, m.start(), b1)
    body = strip_comments(text[b0 + 1:b1 - 1])
    return re.findall(r"^\s*(?:pub\s+)?(\w+)\s*:", body, flags=re.M)


def impl_body(artefact, rel, header_re):
    text = src(rel)
    m = re.search(header_re, text)
    if not m:
        raise TranslationBroken(artefact, f"/{header_re}/ not found in {rel}")
    b0 = text.index("{", m.end() - 1)
    b1 = match_brace(text, b0)
    record_span(artefact, rel, m.start(), b1)
    return strip_comments(text[b0 + 1:b1 - 1])


def lean_strs(xs):
    return "[" + ", ".join('"' + x + '"' for x in xs) + "]"


def gen_listings():
    A = "G4-listings"
    o = ["/- GENERATED by gen/extract.py from /repo/src/lib.rs, src/platform.rs, c/blake3_dispatch.c, c/blake3_impl.h -- do not edit -/",
         "namespace B3.Gen.Listings", ""]
    L = "src/lib.rs"
    # Debug impls: the names passed to .field(...)
    for ty in ["ChunkState", "Hasher", "OutputReader"]:
        body = impl_body(A, L, rf"impl\s+fmt::Debug\s+for\s+{ty}\b")
        fields = re.findall(r'\.field\(\s*"(\w+)"\s*,\s*([^)]*\)?)\s*\)', body)
        if not fields:
            raise TranslationBroken(A, f"Debug impl of {ty}: no .field(...) calls found")
        o.append(f"def debugFields_{ty} : List String := {lean_strs([f[0] for f in fields])}")
        o.append(f"def debugExprs_{ty} : List String := {lean_strs([re.sub(r'[^A-Za-z0-9_.()&]', '', f[1]) for f in fields])}")
    # struct fields and the fields zeroized by each Zeroize impl
    for ty in ["Output", "ChunkState", "Hasher", "OutputReader"]:
        fs = struct_fields(A, L, ty)
        body = impl_body(A, L, rf"impl\s+Zeroize\s+for\s+{ty}\b")
        z = re.findall(r"^\s*(\w+)\.zeroize\(\)", body, flags=re.M)
        skipped = re.findall(r"(\w+)\s*:\s*_", body)
        o.append(f"def structFields_{ty} : List String := {lean_strs(fs)}")
        o.append(f"def zeroized_{ty} : List String := {lean_strs(z)}")
        o.append(f"def zeroizeSkipped_{ty} : List String := {lean_strs(skipped)}")
    # the trait-impl surface of the crate's own types: every `impl <Trait> for <Type>` block of src/lib.rs and src/traits.rs with the
    # methods it defines (a new override - write_vectored, new_from_slice, clone_from, ... - changes what existing callers run)
    for rel, nm in [("src/lib.rs", "Lib"), ("src/traits.rs", "Traits"), ("src/hazmat.rs", "Hazmat")]:
        t = strip_comments(src(rel))
        # test modules are not part of the surface
        mt = re.search(r"#\[cfg\(test\)\]\s*mod\s+\w+\s*\{", t)
        if mt:
            t = t[:mt.start()] + t[match_brace(t, t.index("{", mt.start())):]
        rows = []
        for m in re.finditer(r"\bimpl\b(\s*<[^>{]*>)?\s+([\w:]+(?:<[^{]*?>)?)\s+for\s+([\w:]+(?:<[^{]*?>)?|\[[^\]]*\])\s*(?:where[^{]*)?\{", t):
            b0 = t.index("{", m.end() - 1)
            b1 = match_brace(t, b0)
            body = t[b0 + 1:b1 - 1]
            # methods at depth 1 of the block
            depth, names, i = 0, [], 0
            for fm in re.finditer(r"[{}]|\bfn\s+(\w+)", body):
                if fm.group(0) == "{":
                    depth += 1
                elif fm.group(0) == "}":
                    depth -= 1
                elif depth == 0:
                    names.append(fm.group(1))
            tr = re.sub(r"\s+", "", m.group(2))
            ty = re.sub(r"\s+", "", m.group(3))
            rows.append(f"{tr} for {ty}: " + " ".join(names))
        o.append(f"def implSurface{nm} : List String := [" + ",\n  ".join('"' + r + '"' for r in rows) + "]")
    # how each state type gets Clone: the `#[derive(..)]` lists (attributes directly above the struct) and any hand-written `impl Clone for`
    ltext = strip_comments(src(L))
    hand = sorted(set(re.findall(r"impl(?:\s*<[^>]*>)?\s+(?:core::clone::|std::clone::)?Clone\s+for\s+(\w+)", ltext)))
    o.append(f"def handWrittenClone : List String := {lean_strs(hand)}")
    for ty in ["Hash", "Output", "ChunkState", "Hasher", "OutputReader"]:
        m = re.search(rf"((?:#\[[^\]]*\]\s*)*)(?:pub\s+)?struct\s+{ty}\b", ltext)
        if not m:
            raise TranslationBroken(A, f"struct {ty} not found")
        ders = []
        for a in re.findall(r"#\[([^\]]*)\]", m.group(1)):
            a = a.strip()
            dm = re.match(r"derive\s*\((.*)\)$", a, flags=re.S)
            if dm:
                ders += [x.strip() for x in dm.group(1).split(",") if x.strip()]
        o.append(f"def derives_{ty} : List String := {lean_strs(ders)}")
    body = impl_body(A, L, r"impl\s+Zeroize\s+for\s+Hash\b")
    zh = re.findall(r"^\s*(\w+)\.zeroize\(\)", body, flags=re.M)
    o.append(f"def zeroized_Hash : List String := {lean_strs(zh)}")
    # Platform::simd_degree arms
    params, body = find_fn(A, "src/platform.rs", r"pub\s+fn\s+simd_degree\s*\(")
    arms = re.findall(r"Platform::(\w+)\s*=>\s*(\d+)", body)
    if not arms:
        raise TranslationBroken(A, "simd_degree: no match arms found")
    o.append("def simdDegrees : List (String × Nat) := [" + ", ".join(f'("{a}", {n})' for a, n in arms) + "]")
    text = strip_comments(src("src/platform.rs"))
    ms = [int(x) for x in re.findall(r"pub\s+const\s+MAX_SIMD_DEGREE\s*:\s*usize\s*=\s*(\d+)", text)]
    ms2 = [int(x) for x in re.findall(r"pub\s+const\s+MAX_SIMD_DEGREE_OR_2\s*:\s*usize\s*=\s*(\d+)", text)]
    if not ms or not ms2:
        raise TranslationBroken(A, "MAX_SIMD_DEGREE tables not found in src/platform.rs")
    o.append(f"def maxSimdDegrees : List Nat := {ms}")
    o.append(f"def maxSimdDegreesOr2 : List Nat := {ms2}")
    # C: blake3_simd_degree return values and MAX_SIMD_DEGREE defines
    params, body = find_fn(A, "c/blake3_dispatch.c", r"size_t\s+blake3_simd_degree\s*\(")
    cdeg = [int(x) for x in re.findall(r"return\s+(\d+)\s*;", body)]
    o.append(f"def cSimdDegrees : List Nat := {cdeg}")
    ctext = strip_comments(src("c/blake3_impl.h"))
    cmax = [int(x) for x in re.findall(r"#define\s+MAX_SIMD_DEGREE\s+(\d+)", ctext)]
    o.append(f"def cMaxSimdDegrees : List Nat := {cmax}")
    # the detection-cache protocol of get_cpu_features(): every access to g_cpu_features, in source order
    params, body = find_fn(A, "c/blake3_dispatch.c", r"get_cpu_features\s*\(")
    acc = []
    for m in re.finditer(r"ATOMIC_LOAD\(\s*g_cpu_features\s*\)|ATOMIC_STORE\(\s*g_cpu_features\s*,\s*([^)]*)\)|g_cpu_features\s*=\s*([^;]+);", body):
        if m.group(0).startswith("ATOMIC_LOAD"):
            acc.append("load")
        else:
            acc.append("store " + re.sub(r"\s+", "", (m.group(1) or m.group(2) or "")))
    o.append(f"def cDetectAccesses : List String := {lean_strs(acc)}")
    # every mention of the detection cache in the C library OUTSIDE get_cpu_features(): its declaration, and - in the testing build
    # only - nothing else (a second writer makes the dispatch decision depend on what other hashers did)
    outside = []
    for rel in sorted(os.listdir(os.path.join(REPO, "c"))):
        if not (rel.endswith(".c") or rel.endswith(".h") or rel.endswith(".cpp")):
            continue
        t = strip_comments(src("c/" + rel))
        if rel == "blake3_dispatch.c":
            m0 = re.search(r"get_cpu_features\s*\([^)]*\)\s*\{", t)
            if m0:
                b1 = match_brace(t, t.index("{", m0.end() - 1))
                t = t[:m0.start()] + " " * (b1 - m0.start()) + t[b1:]
        for m in re.finditer(r"[^\n]*\bg_cpu_features\b[^\n]*", t):
            outside.append(rel + ": " + re.sub(r"\s+", " ", m.group(0)).strip())
    o.append(f"def cDetectCacheMentionsOutside : List String := {lean_strs([x.replace(chr(34), chr(39)) for x in outside])}")
    # C08: the Join implementations and the join site in compress_subtree_wide (who gets which slice)
    jtxt = strip_comments(src("src/join.rs"))
    bodies = {}
    for ty in ["SerialJoin", "RayonJoin"]:
        m = re.search(r"impl\s+Join\s+for\s+%s\s*\{" % ty, jtxt)
        if not m:
            raise TranslationBroken(A, f"src/join.rs: impl Join for {ty} not found")
        blk = jtxt[m.end() - 1:match_brace(jtxt, m.end() - 1)]
        m2 = re.search(r"fn\s+join\s*<[^{]*\{", blk, re.S)
        if not m2:
            raise TranslationBroken(A, f"src/join.rs: {ty}::join not found")
        fb = blk[m2.end() - 1:match_brace(blk, m2.end() - 1)]
        bodies[ty] = re.sub(r"\s+", "", fb[1:-1])
    o.append(f"def joinBody_Serial : String := {json.dumps(bodies['SerialJoin'])}")
    o.append(f"def joinBody_Rayon : String := {json.dumps(bodies['RayonJoin'])}")
    params, wbody = find_fn(A, L, r"fn\s+compress_subtree_wide\s*<")
    wb = strip_comments(wbody)
    m = re.search(r"let\s*\(\s*(\w+)\s*,\s*(\w+)\s*\)\s*=\s*input\.split_at\(", wb)
    m3 = re.search(r"let\s*\(\s*(\w+)\s*,\s*(\w+)\s*\)\s*=\s*cv_array\.split_at_mut\(\s*([^;]+?)\s*\)\s*;", wb)
    mj = re.search(r"J::join\(\s*\|\|\s*compress_subtree_wide::<J>\(([^)]*)\)\s*,\s*\|\|\s*compress_subtree_wide::<J>\(([^)]*)\)\s*,?\s*\)", wb, re.S)
    if not (m and m3 and mj):
        raise TranslationBroken(A, "compress_subtree_wide: input.split_at / cv_array.split_at_mut / J::join(|| .., || ..) not found in this shape")
    o.append(f"def wideInputSplit : List String := {lean_strs([m.group(1), m.group(2)])}")
    nows = lambda t: re.sub(r"\s+", "", t)
    o.append(f"def wideOutSplit : List String := {lean_strs([m3.group(1), m3.group(2), nows(m3.group(3))])}")
    o.append(f"def wideLeftArgs : List String := {lean_strs([a.strip() for a in mj.group(1).split(',')])}")
    o.append(f"def wideRightArgs : List String := {lean_strs([a.strip() for a in mj.group(2).split(',')])}")
    # C: the same site in c/blake3.c (serial build and TBB seam)
    params, cb = find_fn(A, "c/blake3.c", r"size_t\s+blake3_compress_subtree_wide\s*\(")
    cb = strip_comments(cb)
    mr = re.search(r"uint8_t\s*\*\s*right_cvs\s*=\s*&cv_array\[\s*([^\]]+?)\s*\]\s*;", cb)
    ml = re.search(r"left_n\s*=\s*blake3_compress_subtree_wide\(([^;]*)\)\s*;", cb, re.S)
    mrr = re.search(r"right_n\s*=\s*blake3_compress_subtree_wide\(([^;]*)\)\s*;", cb, re.S)
    mt = re.search(r"blake3_compress_subtree_wide_join_tbb\(([^;]*)\)\s*;", cb, re.S)
    if not (mr and ml and mrr and mt):
        raise TranslationBroken(A, "c/blake3.c blake3_compress_subtree_wide: right_cvs / the two recursive calls / the TBB seam call not found")
    clean = lambda t: [re.sub(r"\s+", "", a) for a in t.split(",")]
    o.append(f"def cWideRightCvs : String := {json.dumps(nows(mr.group(1)))}")
    o.append(f"def cWideLeftArgs : List String := {lean_strs(clean(ml.group(1)))}")
    o.append(f"def cWideRightArgs : List String := {lean_strs(clean(mrr.group(1)))}")
    o.append(f"def cWideTbbArgs : List String := {lean_strs(clean(mt.group(1)))}")
    o.append("")
    o.append("end B3.Gen.Listings")
    return "\n".join(o) + "\n"


# ------------------------------------------------------------------------------------------------

ARTEFACTS = [
    ("Consts.lean", "G1-consts", gen_consts),
    ("RsPortable.lean", "G2-rs-portable", gen_rs_portable),
    ("Arith.lean", "G3-arith", gen_arith),
    ("Regions.lean", "G3b-regions", gen_regions),
    ("Skeleton.lean", "G6-skeleton", gen_skeleton),
    ("RefCompress.lean", "G2-ref-compress", gen_ref_compress),
    ("CPortable.lean", "G2-c-portable", gen_c_portable),
    ("Vectors.lean", "G5-vectors", gen_vectors),
    ("Listings.lean", "G4-listings", gen_listings),
]


def write_if_changed(path, content):
    try:
        with open(path, encoding="utf-8") as f:
            if f.read() == content:
                return False
    except FileNotFoundError:
        pass
    tmp = path + ".tmp"
    with open(tmp, "w", encoding="utf-8") as f:
        f.write(content)
    os.replace(tmp, path)
    return True


def load_extensions():
    """gen/ext_*.py: each defines ARTEFACTS = [(file name under Gen/, artefact id, generator function)] and may import this
    module's helpers (`import extract as X`)"""
    import glob
    import importlib.util
    here = os.path.dirname(os.path.abspath(__file__))
    sys.modules.setdefault("extract", sys.modules[__name__])
    extra = []
    for path in sorted(glob.glob(os.path.join(here, "ext_*.py"))):
        name = os.path.splitext(os.path.basename(path))[0]
        try:
            spec = importlib.util.spec_from_file_location(name, path)
            mod = importlib.util.module_from_spec(spec)
            spec.loader.exec_module(mod)
            extra += list(mod.ARTEFACTS)
        except Exception as ex:
            extra.append((name + ".broken", "EXT-" + name, (lambda ex=ex, name=name: (_ for _ in ()).throw(TranslationBroken("EXT-" + name, f"extension failed to load: {ex!r}")))))
    return extra


def main():
    os.makedirs(OUT, exist_ok=True)
    status = {"ok": [], "broken": [], "changed": []}
    for fname, art, fn in ARTEFACTS + load_extensions():
        try:
            content = fn()
            if write_if_changed(os.path.join(OUT, fname), content):
                status["changed"].append(fname)
            status["ok"].append(art)
        except TranslationBroken as ex:
            status["broken"].append({"artefact": ex.artefact, "reason": ex.reason, "file": fname})
        except Exception as ex:  # an extractor bug is reported the same way, never silently
            status["broken"].append({"artefact": art, "reason": f"extractor error: {ex!r}", "file": fname})
    status["spans"] = [dict(artefact=a, file=f, first_line=l0, last_line=l1, sha256_16=h) for a, f, l0, l1, h in SPANS]
    with open(os.path.join(OUT, "status.json"), "w") as f:
        json.dump(status, f, indent=1)
    json.dump({k: status[k] for k in ("ok", "broken", "changed")}, sys.stdout)
    print()
    return 1 if status["broken"] else 0


if __name__ == "__main__":
    sys.exit(main())
