#!/usr/bin/env python3
"""
Translator: /repo sources  ->  /verif/lean/B3/Gen/*.lean   (run on every check).

Small anchored extractors.  Each one finds a function / constant by name in a source file, parses
its body with a tiny expression parser (Rust and C surface syntax for straight-line integer code)
and emits a Lean definition.  A source span that can no longer be found or parsed raises
TranslationBroken(artefact, reason); the orchestrator reports that for the properties that depend
on the artefact.  Files are written only if their content changed (so lake does no work on an
unchanged tree).

Primitive mapping (trusted, validated by running the generated functions against the real ones):
  Rust  a.wrapping_add(b) -> a + b        (UInt32 arithmetic wraps)
        a.rotate_right(n) -> rotr a n
        a ^ b, a | b, a & b, a >> n, a << n -> ^^^ ||| &&& >>> <<<
        x as u32 (from u64) -> x.toUInt32 ; x as u32 (from u8) -> x.toUInt32
        u32::from_le_bytes(*array_ref!(b, o, 4)) -> le32 b[o] b[o+1] b[o+2] b[o+3]
  C     unsigned + on uint32_t -> + ; rotr32(w, c) -> rotr w c ; (uint32_t)x -> x.toUInt32
        load32(block + 4*i) is the word already (block passed as 16 words; load32 itself is G2c)
"""
import hashlib
import json
import os
import re
import sys

REPO = os.environ.get("VERIF_REPO", "/repo")
OUT = os.path.join(os.path.dirname(os.path.abspath(__file__)), "..", "lean", "B3", "Gen")


class TranslationBroken(Exception):
    def __init__(self, artefact, reason):
        super().__init__(f"{artefact}: {reason}")
        self.artefact = artefact
        self.reason = reason


# ------------------------------------------------------------------------------------------------
# source access

_src_cache = {}
SPANS = []  # (artefact, file, first line, last line, sha256 of span)


def src(rel):
    if rel not in _src_cache:
        with open(os.path.join(REPO, rel), encoding="utf-8") as f:
            _src_cache[rel] = f.read()
    return _src_cache[rel]


def strip_comments(text):
    text = re.sub(r"/\*.*?\*/", lambda m: re.sub(r"[^\n]", " ", m.group(0)), text, flags=re.S)
    text = re.sub(r"//[^\n]*", "", text)
    return text


def record_span(artefact, rel, start, end):
    text = src(rel)
    l0 = text.count("\n", 0, start) + 1
    l1 = text.count("\n", 0, end) + 1
    SPANS.append((artefact, rel, l0, l1, hashlib.sha256(text[start:end].encode()).hexdigest()[:16]))


def match_brace(text, i, open_c="{", close_c="}"):
    """index just after the bracket that closes the one at text[i]"""
    assert text[i] == open_c
    depth = 0
    while i < len(text):
        if text[i] == open_c:
            depth += 1
        elif text[i] == close_c:
            depth -= 1
            if depth == 0:
                return i + 1
        i += 1
    raise ValueError("unbalanced")


def find_fn(artefact, rel, header_re):
    """return (params text, body text without outer braces) of the function whose header matches"""
    text = src(rel)
    m = re.search(header_re, text)
    if not m:
        raise TranslationBroken(artefact, f"function header /{header_re}/ not found in {rel}")
    p0 = text.index("(", m.start())
    p1 = match_brace(text, p0, "(", ")")
    b0 = text.index("{", p1)
    b1 = match_brace(text, b0)
    record_span(artefact, rel, m.start(), b1)
    return strip_comments(text[p0 + 1:p1 - 1]), strip_comments(text[b0 + 1:b1 - 1])


def find_const(artefact, rel, regex):
    text = src(rel)
    m = re.search(regex, text, flags=re.S)
    if not m:
        raise TranslationBroken(artefact, f"constant /{regex}/ not found in {rel}")
    record_span(artefact, rel, m.start(), m.end())
    return m


# ------------------------------------------------------------------------------------------------
# expression parser (Pratt) for the Rust / C subset

TOKEN_RE = re.compile(r"""
    (?P<num>0[xX][0-9a-fA-F_]+|\d[\d_]*)(?P<suffix>u8|u32|u64|usize|UL|ULL|U|L)?
  | (?P<id>[A-Za-z_][A-Za-z0-9_]*(?:::[A-Za-z_][A-Za-z0-9_]*)*!?)
  | (?P<op>>>=|<<=|\^=|\|=|&=|\+=|-=|>>|<<|==|!=|<=|>=|&&|\|\||[-+*/%^|&~!<>=(){}\[\],;.:?])
  | (?P<ws>\s+)
""", re.X)


def tokenize(s):
    out = []
    i = 0
    while i < len(s):
        m = TOKEN_RE.match(s, i)
        if not m:
            raise ValueError(f"cannot tokenize at {s[i:i+30]!r}")
        i = m.end()
        if m.group("ws"):
            continue
        if m.group("num"):
            out.append(("num", int(m.group("num").replace("_", ""), 0)))
        elif m.group("id"):
            out.append(("id", m.group("id")))
        else:
            out.append(("op", m.group("op")))
    return out


BINOPS = {"|": 1, "^": 2, "&": 3, "<<": 5, ">>": 5, "+": 6, "-": 6, "*": 7, "/": 7, "%": 7}


class P:
    def __init__(self, toks):
        self.t = toks
        self.i = 0

    def peek(self, k=0):
        return self.t[self.i + k] if self.i + k < len(self.t) else ("eof", None)

    def next(self):
        x = self.peek()
        self.i += 1
        return x

    def expect(self, op):
        x = self.next()
        if x != ("op", op):
            raise ValueError(f"expected {op} got {x}")

    def at(self, op):
        return self.peek() == ("op", op)

    def args(self, close=")"):
        a = []
        while not self.at(close):
            a.append(self.expr())
            if self.at(","):
                self.next()
        self.expect(close)
        return a

    def primary(self):
        k, v = self.next()
        if k == "num":
            return ("num", v)
        if k == "id":
            if self.at("(") and not v.endswith("!"):
                self.next()
                return ("call", v, self.args())
            if v.endswith("!"):
                self.expect("(")
                return ("macro", v[:-1], self.args())
            return ("var", v)
        if (k, v) == ("op", "("):
            # C cast: (uint32_t)expr
            if self.peek()[0] == "id" and self.peek()[1] in ("uint32_t", "uint64_t", "uint8_t", "size_t") \
                    and self.peek(1) == ("op", ")"):
                ty = self.next()[1]
                self.next()
                return ("cast", self.unary(), ty)
            e = self.expr()
            self.expect(")")
            return ("paren", e)
        if (k, v) == ("op", "["):
            items = self.args("]") if not self._is_repeat() else None
            return ("array", items)
        raise ValueError(f"unexpected token {k} {v}")

    def _is_repeat(self):
        return False

    def unary(self):
        if self.at("&") or self.at("*"):
            self.next()
            if self.peek() == ("id", "mut"):
                self.next()
            return self.unary()
        if self.at("-"):
            self.next()
            return ("neg", self.unary())
        return self.postfix()

    def postfix(self):
        e = self.primary()
        while True:
            if self.at("["):
                self.next()
                idx = self.expr()
                self.expect("]")
                e = ("index", e, idx)
            elif self.at(".") and self.peek(1)[0] == "id":
                self.next()
                name = self.next()[1]
                if self.at("("):
                    self.next()
                    e = ("method", e, name, self.args())
                else:
                    e = ("field", e, name)
            elif self.peek() == ("id", "as"):
                self.next()
                ty = self.next()[1]
                e = ("cast", e, ty)
            else:
                return e

    def expr(self, minp=0):
        lhs = self.unary()
        while True:
            k, v = self.peek()
            if k == "op" and v in BINOPS and BINOPS[v] >= minp and self.peek(1) != ("op", "="):
                self.next()
                rhs = self.expr(BINOPS[v] + 1)
                lhs = ("bin", v, lhs, rhs)
            else:
                return lhs


def parse_expr(s):
    p = P(tokenize(s))
    e = p.expr()
    if p.peek()[0] != "eof":
        raise ValueError(f"trailing tokens in {s!r}: {p.peek()}")
    return e


LEAN_BIN = {"|": "|||", "^": "^^^", "&": "&&&", "<<": "<<<", ">>": ">>>", "+": "+", "-": "-", "*": "*",
            "/": "/", "%": "%"}


class Env:
    """what the emitter needs to know: variable renames, how to render calls/casts"""

    def __init__(self, types=None, rename=None, calls=None):
        self.types = types or {}
        self.rename = rename or {}
        self.calls = calls or {}


def const_eval(e):
    k = e[0]
    if k == "num":
        return e[1]
    if k == "paren":
        return const_eval(e[1])
    if k == "bin":
        a, b = const_eval(e[2]), const_eval(e[3])
        if a is None or b is None:
            return None
        return {"+": a + b, "-": a - b, "*": a * b, "<<": a << b, ">>": a >> b, "|": a | b, "&": a & b,
                "^": a ^ b, "/": a // b if b else None, "%": a % b if b else None}[e[1]]
    return None


def emit(e, env):
    k = e[0]
    c = const_eval(e)
    if c is not None:
        return str(c)
    if k == "var":
        return env.rename.get(e[1], e[1])
    if k == "paren":
        return "(" + emit(e[1], env) + ")"
    if k == "bin":
        return f"({emit(e[2], env)} {LEAN_BIN[e[1]]} {emit(e[3], env)})"
    if k == "index":
        return f"{emit(e[1], env)}[{emit(e[2], env)}]"
    if k == "method":
        recv, name, args = e[1], e[2], e[3]
        if name == "wrapping_add":
            return f"({emit(recv, env)} + {emit(args[0], env)})"
        if name == "rotate_right":
            return f"(rotr {emit(recv, env)} {emit(args[0], env)})"
        raise ValueError(f"unknown method {name}")
    if k == "call":
        name, args = e[1], e[2]
        if name in env.calls:
            return env.calls[name](args, env)
        raise ValueError(f"unknown call {name}")
    if k == "cast":
        inner, ty = e[1], e[2]
        if ty in ("u32", "uint32_t"):
            return f"({emit(inner, env)}).toUInt32"
        if ty in ("u64", "uint64_t"):
            return f"({emit(inner, env)}).toUInt64"
        raise ValueError(f"unknown cast {ty}")
    if k == "array":
        return "#v[" + ", ".join(emit(x, env) for x in e[1]) + "]"
    raise ValueError(f"cannot emit {e}")


# ------------------------------------------------------------------------------------------------
# statements of straight-line code


def split_statements(body):
    """split on ';' at bracket depth 0; returns list of statement strings (the last one may be a
    trailing expression without ';')"""
    out, depth, cur = [], 0, []
    for ch in body:
        if ch in "([{":
            depth += 1
        elif ch in ")]}":
            depth -= 1
        if ch == ";" and depth == 0:
            s = "".join(cur).strip()
            if s:
                out.append(s)
            cur = []
        else:
            cur.append(ch)
    tail = "".join(cur).strip()
    return out, tail


def translate_block(artefact, body, env, mut_calls, result=None, loops=None):
    """body: straight-line statements.  mut_calls: {fname: (lean_name, index of the &mut arg)}.
    Returns Lean `let` lines (list of str) and the final expression (str)."""
    stmts, tail = split_statements(body)
    lines = []
    for s in stmts:
        s = re.sub(r"#\[[^\]]*\]\s*", "", s).strip()
        try:
            m = re.match(r"^(?:let\s+(?:mut\s+)?|(?:const\s+)?(?:uint32_t|uint8_t|uint64_t|size_t)\s+\*?)(\w+)(?:\s*:\s*[^=]+)?\s*=\s*(.+)$", s, re.S)
            if m and not re.match(r"^\[0;\s*\d+\]$", m.group(2).strip()):
                lines.append(f"let {m.group(1)} := {emit(parse_expr(m.group(2)), env)}")
                continue
            m = re.match(r"^let\s+(?:mut\s+)?(\w+)\s*=\s*\[0;\s*(\d+)\]$", s)
            if m:  # Rust array repeat expression
                lines.append(f"let {m.group(1)} : Vector UInt32 {m.group(2)} := Vector.replicate {m.group(2)} 0")
                continue
            m = re.match(r"^\*(\w+)\s*=\s*(\w+)$", s)
            if m:  # `*m = permuted`
                lines.append(f"let {m.group(1)} := {m.group(2)}")
                continue
            m = re.match(r"^(?:uint32_t|uint8_t)\s+(\w+)\[(\d+)\]$", s)
            if m:  # C array declaration without initialiser
                lines.append(f"let {m.group(1)} : Vector UInt32 {m.group(2)} := Vector.replicate {m.group(2)} 0")
                continue
            m = re.match(r"^(\w+)\[([^\]]+)\]\s*(\^?)=\s*(.+)$", s, re.S)
            if m:
                arr, idx, xor, rhs = m.groups()
                a = env.rename.get(arr, arr)
                i = emit(parse_expr(idx), env)
                r = emit(parse_expr(rhs), env)
                if xor:
                    r = f"({a}[{i}] ^^^ {r})"
                lines.append(f"let {a} := {a}.set {i} {r}")
                continue
            m = re.match(r"^(\w+)\((.*)\)$", s, re.S)
            if m and m.group(1) in mut_calls:
                lean_name, mi = mut_calls[m.group(1)]
                p = P(tokenize(m.group(2)))
                args = p.args("eof") if False else None
                # parse the argument list
                p = P(tokenize(m.group(2) + ")"))
                args = p.args(")")
                target = emit(args[mi], env)
                lines.append(f"let {target} := {lean_name} " + " ".join(
                    (lambda t: t if re.match(r"^[\w\[\]\.]+$", t) else f"({t})")(emit(a, env)) for a in args))
                continue
            m = re.match(r"^for\s+(\w+)\s+in\s+(\d+)\.\.(\d+)\s*\{(.*)\}$", s, re.S)
            raise ValueError("unrecognised statement")
        except TranslationBroken:
            raise
        except Exception as ex:
            raise TranslationBroken(artefact, f"statement {s!r}: {ex}")
    final = None
    if tail:
        try:
            final = emit(parse_expr(tail), env)
        except Exception as ex:
            raise TranslationBroken(artefact, f"tail expression {tail!r}: {ex}")
    return lines, final


def unroll_for_loops(body):
    """expand `for i in a..b { … }` (Rust) with constant bounds by substitution"""
    def repl(m):
        var, a, b = m.group(1), int(m.group(2)), int(m.group(3))
        start = m.end() - 1
        return None
    out = body
    while True:
        m = re.search(r"for\s+(\w+)\s+in\s+(\d+)\.\.(\d+)\s*\{", out)
        if not m:
            return out
        b0 = m.end() - 1
        b1 = match_brace(out, b0)
        inner = out[b0 + 1:b1 - 1]
        var = m.group(1)
        pieces = [re.sub(rf"\b{var}\b", str(i), inner) for i in range(int(m.group(2)), int(m.group(3)))]
        out = out[:m.start()] + "\n".join(pieces) + out[b1:]


def lean_def(name, params, ret, lines, final):
    body = "".join("  " + l + "\n" for l in lines)
    return f"def {name} {params} : {ret} :=\n{body}  {final}\n"


# ------------------------------------------------------------------------------------------------
# G1: constants


def parse_int_list(s):
    return [int(x.rstrip("UL").replace("_", ""), 0) for x in re.findall(r"0[xX][0-9a-fA-F_]+(?:UL)?|\d+", s)]


def rust_const_int(artefact, rel, name):
    m = find_const(artefact, rel, rf"(?:pub\s+)?const\s+{name}\s*:\s*\w+\s*=\s*([^;]+);")
    v = const_eval(parse_expr(strip_comments(m.group(1))))
    if v is None:
        raise TranslationBroken(artefact, f"{name} is not a constant expression")
    return v


def c_define_int(artefact, rel, name):
    m = find_const(artefact, rel, rf"#define\s+{name}\s+([^\n]+)")
    v = const_eval(parse_expr(strip_comments(m.group(1))))
    if v is None:
        raise TranslationBroken(artefact, f"{name} is not a constant expression")
    return v


def c_enum_int(artefact, rel, name):
    m = find_const(artefact, rel, rf"\b{name}\s*=\s*([^,\n}}]+)")
    v = const_eval(parse_expr(strip_comments(m.group(1))))
    if v is None:
        raise TranslationBroken(artefact, f"{name} is not a constant expression")
    return v


def vec(items, ty=None):
    return "#v[" + ", ".join(str(x) for x in items) + "]"


FLAG_NAMES = ["CHUNK_START", "CHUNK_END", "PARENT", "ROOT", "KEYED_HASH", "DERIVE_KEY_CONTEXT", "DERIVE_KEY_MATERIAL"]


def gen_consts():
    A = "G1-consts"
    o = ["/- GENERATED by gen/extract.py from /repo -- do not edit -/", "import B3.Prim", "namespace B3.Gen", ""]
    # Rust
    o.append("namespace Rs")
    for n in ["OUT_LEN", "KEY_LEN", "BLOCK_LEN", "CHUNK_LEN", "MAX_DEPTH"]:
        o.append(f"def {n} : Nat := {rust_const_int(A, 'src/lib.rs', n)}")
    for n in FLAG_NAMES:
        o.append(f"def {n} : UInt8 := {rust_const_int(A, 'src/lib.rs', n)}")
    m = find_const(A, "src/lib.rs", r"const\s+IV\s*:\s*&CVWords\s*=\s*&\[(.*?)\];")
    iv = parse_int_list(strip_comments(m.group(1)))
    if len(iv) != 8:
        raise TranslationBroken(A, "IV does not have 8 entries")
    o.append(f"def IV : CV := {vec(iv)}")
    m = find_const(A, "src/lib.rs", r"const\s+MSG_SCHEDULE\s*:\s*\[\[usize;\s*16\];\s*7\]\s*=\s*\[(.*?)\];")
    rows = re.findall(r"\[([^\[\]]*)\]", strip_comments(m.group(1)))
    rows = [parse_int_list(r) for r in rows]
    if len(rows) != 7 or any(len(r) != 16 or max(r) > 15 for r in rows):
        raise TranslationBroken(A, "MSG_SCHEDULE is not 7x16 over 0..15")
    o.append("def MSG_SCHEDULE : Vector (Vector (Fin 16) 16) 7 := #v[\n  " +
             ",\n  ".join(vec(r) for r in rows) + "]")
    m = find_const(A, "src/io.rs", r"const\s+MINIMUM_MMAP_SIZE\s*:\s*u64\s*=\s*([^;]+);")
    o.append(f"def MINIMUM_MMAP_SIZE : Nat := {const_eval(parse_expr(strip_comments(m.group(1))))}")
    m = find_const(A, "src/io.rs", r"let\s+mut\s+buffer\s*=\s*\[0;\s*(\d+)\];")
    o.append(f"def COPY_WIDE_BUF : Nat := {int(m.group(1))}")
    o.append("end Rs\n")
    # C
    o.append("namespace C")
    for n in ["BLAKE3_KEY_LEN", "BLAKE3_OUT_LEN", "BLAKE3_BLOCK_LEN", "BLAKE3_CHUNK_LEN", "BLAKE3_MAX_DEPTH"]:
        o.append(f"def {n} : Nat := {c_define_int(A, 'c/blake3.h', n)}")
    for n in FLAG_NAMES:
        o.append(f"def {n} : UInt8 := {c_enum_int(A, 'c/blake3_impl.h', n)}")
    m = find_const(A, "c/blake3_impl.h", r"static\s+const\s+uint32_t\s+IV\[8\]\s*=\s*\{(.*?)\};")
    iv = parse_int_list(strip_comments(m.group(1)))
    o.append(f"def IV : CV := {vec(iv)}")
    m = find_const(A, "c/blake3_impl.h", r"static\s+const\s+uint8_t\s+MSG_SCHEDULE\[7\]\[16\]\s*=\s*\{(.*?)\};")
    rows = [parse_int_list(r) for r in re.findall(r"\{([^{}]*)\}", strip_comments(m.group(1)))]
    if len(rows) != 7 or any(len(r) != 16 or max(r) > 15 for r in rows):
        raise TranslationBroken(A, "C MSG_SCHEDULE is not 7x16 over 0..15")
    o.append("def MSG_SCHEDULE : Vector (Vector (Fin 16) 16) 7 := #v[\n  " +
             ",\n  ".join(vec(r) for r in rows) + "]")
    o.append("end C\n")
    # reference implementation
    o.append("namespace Ref")
    R = "reference_impl/reference_impl.rs"
    for n in ["OUT_LEN", "KEY_LEN", "BLOCK_LEN", "CHUNK_LEN"]:
        o.append(f"def {n} : Nat := {rust_const_int(A, R, n)}")
    for n in FLAG_NAMES:
        o.append(f"def {n} : UInt32 := {rust_const_int(A, R, n)}")
    m = find_const(A, R, r"const\s+IV\s*:\s*\[u32;\s*8\]\s*=\s*\[(.*?)\];")
    o.append(f"def IV : CV := {vec(parse_int_list(strip_comments(m.group(1))))}")
    m = find_const(A, R, r"const\s+MSG_PERMUTATION\s*:\s*\[usize;\s*16\]\s*=\s*\[(.*?)\];")
    perm = parse_int_list(strip_comments(m.group(1)))
    if len(perm) != 16 or max(perm) > 15:
        raise TranslationBroken(A, "MSG_PERMUTATION is not 16 entries over 0..15")
    o.append(f"def MSG_PERMUTATION : Vector (Fin 16) 16 := {vec(perm)}")
    m = find_const(A, R, r"cv_stack\s*:\s*\[\[u32;\s*8\];\s*(\d+)\]")
    o.append(f"def CV_STACK_CAP : Nat := {int(m.group(1))}")
    o.append("end Ref\n")
    o.append("end B3.Gen")
    return "\n".join(o) + "\n"


# ------------------------------------------------------------------------------------------------
# G2: straight-line compression code

G_PARAMS = "(state : St) (a b c d : Fin 16) (x y : UInt32)"


def call_counter(args, env):
    return None


def gen_rs_portable():
    A = "G2-rs-portable"
    F = "src/portable.rs"
    o = ["/- GENERATED by gen/extract.py from /repo/src/portable.rs, src/lib.rs -- do not edit -/",
         "import B3.Prim", "import B3.Gen.Consts", "namespace B3.Gen.Rs", ""]
    env = Env(calls={
        "counter_low": lambda a, e: f"(counter_low {emit(a[0], e)})",
        "counter_high": lambda a, e: f"(counter_high {emit(a[0], e)})",
        "crate::platform::words_from_le_bytes_64": lambda a, e: emit(a[0], e),
        "crate::platform::le_bytes_from_words_64": lambda a, e: emit(a[0], e),
    })
    # counter_low / counter_high
    for n in ["counter_low", "counter_high"]:
        params, body = find_fn(A, "src/lib.rs", rf"fn\s+{n}\s*\(")
        if not re.match(r"\s*counter\s*:\s*u64\s*$", params):
            raise TranslationBroken(A, f"{n}: unexpected parameters {params!r}")
        lines, final = translate_block(A, body, env, {})
        o.append(lean_def(n, "(counter : UInt64)", "UInt32", lines, final))
    # g
    params, body = find_fn(A, F, r"fn\s+g\s*\(")
    names = re.findall(r"(\w+)\s*:", params)
    if names != ["state", "a", "b", "c", "d", "x", "y"]:
        raise TranslationBroken(A, f"g: unexpected parameters {names}")
    lines, final = translate_block(A, body, env, {})
    o.append(lean_def("g", G_PARAMS, "St", lines, final or "state"))
    # round
    params, body = find_fn(A, F, r"fn\s+round\s*\(")
    names = re.findall(r"(\w+)\s*:", params)
    if names != ["state", "msg", "round"]:
        raise TranslationBroken(A, f"round: unexpected parameters {names}")
    lines, final = translate_block(A, body, env, {"g": ("g", 0)})
    o.append(lean_def("round", "(state msg : St) (round : Fin 7)", "St", lines, final or "state"))
    # compress_pre
    params, body = find_fn(A, F, r"fn\s+compress_pre\s*\(")
    names = re.findall(r"(\w+)\s*:", params)
    if names != ["cv", "block", "block_len", "counter", "flags"]:
        raise TranslationBroken(A, f"compress_pre: unexpected parameters {names}")
    lines, final = translate_block(A, body, env, {"round": ("round", 0)})
    CP = "(cv : CV) (block : St) (block_len : UInt8) (counter : UInt64) (flags : UInt8)"
    o.append(lean_def("compress_pre", CP, "St", lines, final))
    # compress_in_place
    params, body = find_fn(A, F, r"pub\s+fn\s+compress_in_place\s*\(")
    names = re.findall(r"(\w+)\s*:", params)
    if names != ["cv", "block", "block_len", "counter", "flags"]:
        raise TranslationBroken(A, f"compress_in_place: unexpected parameters {names}")
    env2 = Env(calls=dict(env.calls))
    env2.calls["compress_pre"] = lambda a, e: "(compress_pre " + " ".join(emit(x, e) for x in a) + ")"
    lines, final = translate_block(A, body, env2, {})
    o.append(lean_def("compress_in_place", CP, "CV", lines, final or "cv"))
    # compress_xof
    params, body = find_fn(A, F, r"pub\s+fn\s+compress_xof\s*\(")
    names = re.findall(r"(\w+)\s*:", params)
    if names != ["cv", "block", "block_len", "counter", "flags"]:
        raise TranslationBroken(A, f"compress_xof: unexpected parameters {names}")
    lines, final = translate_block(A, body, env2, {})
    o.append(lean_def("compress_xof", CP, "St", lines, final))
    o.append("end B3.Gen.Rs")
    return "\n".join(o) + "\n"


def gen_ref_compress():
    A = "G2-ref-compress"
    F = "reference_impl/reference_impl.rs"
    o = ["/- GENERATED by gen/extract.py from /repo/reference_impl/reference_impl.rs -- do not edit -/",
         "import B3.Prim", "import B3.Gen.Consts", "namespace B3.Gen.Ref", ""]
    env = Env()
    params, body = find_fn(A, F, r"fn\s+g\s*\(")
    names = re.findall(r"(\w+)\s*:", params)
    if names != ["state", "a", "b", "c", "d", "mx", "my"]:
        raise TranslationBroken(A, f"g: unexpected parameters {names}")
    lines, final = translate_block(A, body, env, {})
    o.append(lean_def("g", "(state : St) (a b c d : Fin 16) (mx my : UInt32)", "St", lines, final or "state"))
    params, body = find_fn(A, F, r"fn\s+round\s*\(")
    names = re.findall(r"(\w+)\s*:", params)
    if names != ["state", "m"]:
        raise TranslationBroken(A, f"round: unexpected parameters {names}")
    lines, final = translate_block(A, body, env, {"g": ("g", 0)})
    o.append(lean_def("round", "(state m : St)", "St", lines, final or "state"))
    params, body = find_fn(A, F, r"fn\s+permute\s*\(")
    names = re.findall(r"(\w+)\s*:", params)
    if names != ["m"]:
        raise TranslationBroken(A, f"permute: unexpected parameters {names}")
    lines, final = translate_block(A, unroll_for_loops(body), env, {})
    o.append(lean_def("permute", "(m : St)", "St", lines, final or "m"))
    params, body = find_fn(A, F, r"fn\s+compress\s*\(")
    names = re.findall(r"(\w+)\s*:", params)
    if names != ["chaining_value", "block_words", "counter", "block_len", "flags"]:
        raise TranslationBroken(A, f"compress: unexpected parameters {names}")
    # the function is emitted in two definitions, split where its `for` loop starts: the straight-line
    # part (`compress_rounds`, returns `state`) and the unrolled loop applied to its result
    mfor = re.search(r"for\s+\w+\s+in\s+0\.\.8\s*\{", body)
    if not mfor:
        raise TranslationBroken(A, "compress: the feed-forward `for i in 0..8` loop was not found")
    pre, rest = body[:mfor.start()], body[mfor.start():]
    CPARAMS = "(chaining_value : CV) (block_words : St) (counter : UInt64) (block_len flags : UInt32)"
    lines, final = translate_block(A, pre + "\nstate", env, {"round": ("round", 0), "permute": ("permute", 0)})
    o.append(lean_def("compress_rounds", CPARAMS, "St", lines, final))
    lines, final = translate_block(A, unroll_for_loops(rest), env, {})
    o.append(lean_def("compress", CPARAMS, "St",
                      ["let state := compress_rounds chaining_value block_words counter block_len flags"] + lines, final))
    o.append("end B3.Gen.Ref")
    return "\n".join(o) + "\n"


def gen_c_portable():
    """c/blake3_portable.c: g, round_fn, compress_pre, compress_in_place, compress_xof.
    Mapping: `load32(block + 4 * i)` -> word i of the block (the block is passed as 16 little-endian words; load32
    itself assembles 4 bytes little-endian), `store32(&out[i * 4], e)` -> word i of the output := e,
    `&block_words[0]` -> block_words, unsigned `+` on uint32_t -> wrapping `+`."""
    A = "G2-c-portable"
    F = "c/blake3_portable.c"
    o = ["/- GENERATED by gen/extract.py from /repo/c/blake3_portable.c, c/blake3_impl.h -- do not edit -/",
         "import B3.Prim", "import B3.Gen.Consts", "namespace B3.Gen.C", ""]

    def word_index(arg):
        # block + 4 * i   |   &out[i * 4]
        if arg[0] == "bin" and arg[1] == "+" and arg[2][0] == "var":
            v = const_eval(arg[3])
            if v is not None and v % 4 == 0:
                return arg[2][1], v // 4
        if arg[0] == "index" and arg[1][0] == "var":
            v = const_eval(arg[2])
            if v is not None and v % 4 == 0:
                return arg[1][1], v // 4
        raise ValueError(f"unsupported byte address {arg}")

    def call_load32(args, env):
        name, i = word_index(args[0])
        return f"{name}[{i}]"

    env = Env(calls={
        "rotr32": lambda a, e: f"(rotr {emit(a[0], e)} {emit(a[1], e)})",
        "load32": call_load32,
        "counter_low": lambda a, e: f"(counter_low {emit(a[0], e)})",
        "counter_high": lambda a, e: f"(counter_high {emit(a[0], e)})",
    })
    for n in ["counter_low", "counter_high"]:
        params, body = find_fn(A, "c/blake3_impl.h", rf"INLINE\s+uint32_t\s+{n}\s*\(")
        body = re.sub(r"^\s*return\s+", "", body.strip()).rstrip(";")
        lines, final = translate_block(A, body, env, {})
        o.append(lean_def(n, "(counter : UInt64)", "UInt32", lines, final))
    params, body = find_fn(A, F, r"INLINE\s+void\s+g\s*\(")
    names = re.findall(r"(\w+)\s*(?:,|$)", re.sub(r"\s+", " ", params))
    if names != ["state", "a", "b", "c", "d", "x", "y"]:
        raise TranslationBroken(A, f"g: unexpected parameters {names}")
    lines, final = translate_block(A, body, env, {})
    o.append(lean_def("g", G_PARAMS, "St", lines, final or "state"))
    params, body = find_fn(A, F, r"INLINE\s+void\s+round_fn\s*\(")
    lines, final = translate_block(A, body, env, {"g": ("g", 0)})
    o.append(lean_def("round_fn", "(state msg : St) (round : Fin 7)", "St", lines, final or "state"))
    # compress_pre(state, cv, block, block_len, counter, flags)
    params, body = find_fn(A, F, r"INLINE\s+void\s+compress_pre\s*\(")
    body = body.replace("&block_words[0]", "block_words")
    lines, final = translate_block(A, body, env, {"round_fn": ("round_fn", 0)})
    CP = "(state : St) (cv : CV) (block : St) (block_len : UInt8) (counter : UInt64) (flags : UInt8)"
    o.append(lean_def("compress_pre", CP, "St", lines, final or "state"))
    CA = "(cv : CV) (block : St) (block_len : UInt8) (counter : UInt64) (flags : UInt8)"
    params, body = find_fn(A, F, r"void\s+blake3_compress_in_place_portable\s*\(")
    lines, final = translate_block(A, body, env, {"compress_pre": ("compress_pre", 0)})
    o.append(lean_def("compress_in_place", CA, "CV", lines, final or "cv"))
    params, body = find_fn(A, F, r"void\s+blake3_compress_xof_portable\s*\(")
    # store32(&out[i * 4], e)  ->  out[i] = e   (out as 16 words)
    def repl_store(m):
        inner = m.group(1)
        depth, k = 0, None
        for j, ch in enumerate(inner):
            if ch in "([":
                depth += 1
            elif ch in ")]":
                depth -= 1
            elif ch == "," and depth == 0:
                k = j
                break
        addr, val = inner[:k].strip(), inner[k + 1:].strip()
        name, i = word_index(parse_expr(addr))
        return f"{name}[{i}] = {val};"
    try:
        body = re.sub(r"store32\((.*?)\);", repl_store, body, flags=re.S)
    except Exception as ex:
        raise TranslationBroken(A, f"compress_xof: {ex}")
    body = "uint32_t out[16];" + body
    lines, final = translate_block(A, body, env, {"compress_pre": ("compress_pre", 0)})
    o.append(lean_def("compress_xof", CA, "St", lines, final or "out"))
    o.append("end B3.Gen.C")
    return "\n".join(o) + "\n"


# ------------------------------------------------------------------------------------------------
# G3: arithmetic helpers, translated into checked arithmetic in the monad `R`

RUST_CONSTS = {}


def rust_consts():
    if not RUST_CONSTS:
        for n in ["OUT_LEN", "KEY_LEN", "BLOCK_LEN", "CHUNK_LEN", "MAX_DEPTH"]:
            RUST_CONSTS[n] = rust_const_int("G3-arith", "src/lib.rs", n)
    return RUST_CONSTS


class Anf:
    """emit an integer expression as a sequence of monadic lets over checked operations"""

    def __init__(self, consts, wrapping=False):
        self.lines = []
        self.n = 0
        self.consts = consts
        self.w = "w" if wrapping else "c"   # C unsigned arithmetic wraps; Rust (overflow checks on) panics

    def fresh(self):
        self.n += 1
        return f"t{self.n}"

    def bind(self, rhs):
        v = self.fresh()
        self.lines.append(f"let {v} ← {rhs}")
        return v

    def pure(self, rhs):
        v = self.fresh()
        self.lines.append(f"let {v} := {rhs}")
        return v

    def go(self, e):
        k = e[0]
        c = const_eval(e)
        if c is not None:
            return str(c)
        if k == "var":
            if e[1] in self.consts:
                return str(self.consts[e[1]])
            return e[1]
        if k == "paren":
            return self.go(e[1])
        if k == "cast":
            if e[2] in ("u64", "usize", "uint64_t", "size_t"):
                return self.go(e[1])     # widening / same-width casts only (checked by the caller's whitelist)
            raise ValueError(f"cast to {e[2]} not supported in arithmetic helpers")
        if k == "bin":
            a, b = self.go(e[2]), self.go(e[3])
            op = e[1]
            if op == "+":
                return self.bind(f"Arith.{self.w}add {a} {b}")
            if op == "-":
                return self.bind(f"Arith.{self.w}sub {a} {b}")
            if op == "*":
                return self.bind(f"Arith.{self.w}mul {a} {b}")
            if op == "/":
                return self.bind(f"Arith.cdiv {a} {b}")
            if op == "%":
                return self.bind(f"Arith.cmod {a} {b}")
            if op == "<<":
                return self.bind(f"Arith.cshl {a} {b}")
            if op == "|":
                return self.pure(f"{a} ||| {b}")
            if op == "&":
                return self.pure(f"{a} &&& {b}")
            raise ValueError(f"operator {op}")
        if k == "method":
            r = self.go(e[1])
            if e[2] == "next_power_of_two" and not e[3]:
                return self.bind(f"Arith.npow2 {r}")
            if e[2] == "trailing_zeros" and not e[3]:
                return self.pure(f"Arith.tz {r}")
            if e[2] == "count_ones" and not e[3]:
                return self.pure(f"Arith.popcnt {r}")
            raise ValueError(f"method {e[2]}")
        if k == "call":
            if e[1] == "highest_one":
                return self.pure(f"Arith.highestOne {self.go(e[2][0])}")
            if e[1] == "round_down_to_power_of_2":
                return self.bind(f"round_down_to_power_of_2 {self.go(e[2][0])}")
            if e[1] in getattr(self, "known_calls", ()):
                return self.bind(f"{e[1]} " + " ".join(self.go(a) for a in e[2]))
            raise ValueError(f"call {e[1]}")
        raise ValueError(f"cannot translate {e}")


def translate_arith_fn(artefact, name, params, body, consts, option_result=False, wrapping=False):
    """statements: debug_assert!(a > b) | assert_eq!(a, b) | if x == 0 { return None; } | let v = e; | tail"""
    body = re.sub(r"if\s+(\w+)\s*==\s*0\s*\{\s*return\s+None\s*;\s*\}", r"__ifnone \1;", body)
    stmts, tail = split_statements(body)
    anf = Anf(consts, wrapping)
    out_lines = []
    try:
        pending = []
        for s in stmts:
            s = s.strip()
            m = re.match(r"^__ifnone\s+(\w+)$", s)
            if m:
                pending.append(("ifnone", m.group(1)))
                continue
            if s == "}":
                continue
            s2 = s.lstrip("} \n")
            m = re.match(r"^debug_assert!\((.+?)\s*>\s*(.+)\)$", s2, re.S)
            if m:
                a, b = anf.go(parse_expr(m.group(1))), anf.go(parse_expr(m.group(2)))
                anf.lines.append(f"Arith.assertTrue (decide ({a} > {b}))")
                continue
            m = re.match(r"^assert_eq!\((.+),\s*(\d+)\)$", s2, re.S)
            if m:
                a = anf.go(parse_expr(m.group(1)))
                anf.lines.append(f"Arith.assertEq {a} {m.group(2)}")
                continue
            m = re.match(r"^let\s+(\w+)\s*=\s*(.+)$", s2, re.S)
            if m:
                v = anf.go(parse_expr(m.group(2)))
                # a source-level `let name = e` becomes an alias of the temporary holding e (emitting a
                # Lean `let name := t` would only add a beta-redex that the kernel has to see through)
                anf.consts = dict(anf.consts)
                anf.consts[m.group(1)] = v
                anf.lines.append(f"-- {m.group(1)} = {v}")
                continue
            raise ValueError(f"statement {s!r}")
        tail = tail.strip().lstrip("} \n")
        m = re.match(r"^Some\((.+)\)$", tail, re.S)
        if m:
            v = anf.go(parse_expr(m.group(1)))
            final = f"pure (some {v})"
        else:
            v = anf.go(parse_expr(tail))
            final = f"pure (some {v})" if option_result else f"pure {v}"
        # `if x == 0 { return None; }` guards come first in the source; emit them as an outer `if`
        guard = ""
        for kind, var in pending:
            guard += f"  if {var} = 0 then pure none else\n"
    except TranslationBroken:
        raise
    except Exception as ex:
        raise TranslationBroken(artefact, f"{name}: {ex}")
    ret = "R (Option Nat)" if (option_result or pending) else "R Nat"
    body_txt = "".join("  " + l + "\n" for l in anf.lines)
    return f"def {name} {params} : {ret} :=\n{guard}  do\n" + "".join("    " + l + "\n" for l in anf.lines) + f"    {final}\n"


def gen_arith():
    A = "G3-arith"
    consts = rust_consts()
    o = ["/- GENERATED by gen/extract.py from /repo/src/lib.rs, src/hazmat.rs, c/blake3.c, c/blake3_impl.h -- do not edit -/",
         "import B3.Arith", "namespace B3.Gen", "open B3", "", "namespace Rs"]
    params, body = find_fn(A, "src/lib.rs", r"fn\s+largest_power_of_two_leq\s*\(")
    if not re.match(r"\s*n\s*:\s*usize\s*$", params):
        raise TranslationBroken(A, "largest_power_of_two_leq: unexpected parameters")
    o.append(translate_arith_fn(A, "largest_power_of_two_leq", "(n : Nat)", body, consts))
    params, body = find_fn(A, "src/hazmat.rs", r"pub\s+fn\s+left_subtree_len\s*\(")
    if not re.match(r"\s*input_len\s*:\s*u64\s*$", params):
        raise TranslationBroken(A, "left_subtree_len: unexpected parameters")
    o.append(translate_arith_fn(A, "left_subtree_len", "(input_len : Nat)", body, consts))
    params, body = find_fn(A, "src/hazmat.rs", r"pub\s+fn\s+max_subtree_len\s*\(")
    if not re.match(r"\s*input_offset\s*:\s*u64\s*$", params):
        raise TranslationBroken(A, "max_subtree_len: unexpected parameters")
    o.append(translate_arith_fn(A, "max_subtree_len", "(input_offset : Nat)", body, consts, option_result=True))
    o.append("end Rs\n")
    # C
    cconsts = {"BLAKE3_CHUNK_LEN": c_define_int(A, "c/blake3.h", "BLAKE3_CHUNK_LEN")}
    o.append("namespace C")
    params, body = find_fn(A, "c/blake3_impl.h", r"round_down_to_power_of_2\s*\(")
    body = re.sub(r"^\s*return\s+", "", body.strip()).rstrip(";")
    body = body.replace("1ULL", "1")
    o.append(translate_arith_fn(A, "round_down_to_power_of_2", "(x : Nat)", body, cconsts, wrapping=True))
    params, body = find_fn(A, "c/blake3.c", r"INLINE\s+size_t\s+left_subtree_len\s*\(")
    # C: size_t full_chunks = (input_len - 1) / BLAKE3_CHUNK_LEN; return round_down_to_power_of_2(full_chunks) * BLAKE3_CHUNK_LEN;
    body = re.sub(r"\bsize_t\s+(\w+)\s*=", r"let \1 =", body)
    body = re.sub(r"\breturn\s+([^;]+);\s*$", r"\1", body.strip())
    o.append(translate_arith_fn(A, "left_subtree_len", "(input_len : Nat)", body, cconsts, wrapping=True))
    o.append("end C\n")
    o.append("end B3.Gen")
    return "\n".join(o) + "\n"



# ------------------------------------------------------------------------------------------------
# G3b: arithmetic regions inside larger functions (subtree sizing in update, reader position arithmetic)


def translate_shrink_region(artefact, who, text, consts, wrapping, subst, init_call):
    """`<decl> subtree_len = INIT; <decl> count_so_far = E; while (COND != 0) { subtree_len /= K; }` ->
    a fuel loop in checked (Rust) / wrapping (C) arithmetic and the function computing the subtree length"""
    m = re.search(r"(?:let\s+mut|size_t)\s+subtree_len\s*=\s*([^;]+);\s*(?:let|uint64_t)\s+count_so_far\s*=\s*([^;]+);\s*"
                  r"while\s*(.+?)\s*\{\s*subtree_len\s*/=\s*(\d+)\s*;\s*\}", text, re.S)
    if not m:
        raise TranslationBroken(artefact, f"{who}: subtree-sizing region (subtree_len / count_so_far / while ... /= ) not found in this shape")
    init, csf, cond, div = m.groups()
    record_region = m.span()
    for a, b in subst:
        init, csf, cond = init.replace(a, b), csf.replace(a, b), cond.replace(a, b)
    cond = cond.strip()
    while cond.startswith("(") and match_brace(cond, 0, "(", ")") == len(cond):
        cond = cond[1:-1].strip()
    mc = re.match(r"^(.*)!=\s*0$", cond, re.S)
    if not mc:
        raise TranslationBroken(artefact, f"{who}: loop condition is not of the form `E != 0`: {cond!r}")
    try:
        a1 = Anf(consts, wrapping)
        lhs = a1.go(parse_expr(mc.group(1).strip()))
        a2 = Anf(consts, wrapping)
        a2.known_calls = (init_call,)
        iv = a2.go(parse_expr(init.strip()))
        cv = a2.go(parse_expr(csf.strip()))
    except TranslationBroken:
        raise
    except Exception as ex:
        raise TranslationBroken(artefact, f"{who}: {ex}")
    o = ["def update_shrink_loop : Nat → Nat → Nat → R Nat",
         "  | 0, _, _ => .panic   -- out of fuel (the theorem shows 64 iterations always suffice)",
         "  | fuel + 1, subtree_len, count_so_far => do"]
    o += ["    " + l for l in a1.lines]
    o += [f"    if {lhs} ≠ 0 then do",
          f"      let s ← Arith.cdiv subtree_len {div}",
          "      update_shrink_loop fuel s count_so_far",
          "    else pure subtree_len", "",
          "/-- the subtree length chosen by one iteration of the `while input.len() > CHUNK_LEN` loop of update -/",
          "def update_subtree_len (input_len chunk_counter : Nat) : R Nat := do"]
    o += ["  " + l for l in a2.lines]
    o += [f"  update_shrink_loop 64 {iv} {cv}", ""]
    return "\n".join(o), record_region


def gen_regions():
    A = "G3b-regions"
    consts = rust_consts()
    o = ["/- GENERATED by gen/extract.py from /repo/src/lib.rs, c/blake3.c -- do not edit -/",
         "import B3.Arith", "import B3.Gen.Arith", "namespace B3.Gen", "open B3", "", "namespace Rs"]
    params, body = find_fn(A, "src/lib.rs", r"fn\s+update_with_join\s*<")
    txt, _ = translate_shrink_region(A, "Hasher::update_with_join", strip_comments(body), consts, False,
                                     [("input.len()", "input_len"), ("self.chunk_state.chunk_counter", "chunk_counter")], "largest_power_of_two_leq")
    o.append(txt)
    # OutputReader: position / set_position / Seek::seek
    params, body = find_fn(A, "src/lib.rs", r"pub\s+fn\s+position\s*\(\s*&self\s*\)\s*->\s*u64")
    b = strip_comments(body).replace("self.inner.counter", "counter").replace("self.position_within_block", "position_within_block")
    o.append(translate_arith_fn(A, "reader_position", "(counter position_within_block : Nat)", b, consts))
    params, body = find_fn(A, "src/lib.rs", r"pub\s+fn\s+set_position\s*\(\s*&mut\s+self\s*,\s*position\s*:\s*u64\s*\)")
    b = strip_comments(body)
    m = re.match(r"^\s*self\.position_within_block\s*=\s*\((.+)\)\s*as\s+u8\s*;\s*self\.inner\.counter\s*=\s*(.+?)\s*;\s*$", b, re.S)
    if not m:
        raise TranslationBroken(A, "OutputReader::set_position: expected two assignments (position_within_block as u8, inner.counter)")
    try:
        a = Anf(consts)
        pw = a.go(parse_expr(m.group(1)))
        ct = a.go(parse_expr(m.group(2)))
    except Exception as ex:
        raise TranslationBroken(A, f"OutputReader::set_position: {ex}")
    o += ["/-- `set_position`: the new (counter, position_within_block); the `as u8` cast truncates -/",
          "def reader_set_position (position : Nat) : R (Nat × Nat) := do"] + ["  " + l for l in a.lines] + [f"  pure ({ct}, {pw} % 256)", ""]
    # Seek::seek
    params, body = find_fn(A, "src/lib.rs", r"fn\s+seek\s*\(\s*&mut\s+self\s*,\s*pos\s*:\s*std::io::SeekFrom\s*\)")
    b = strip_comments(body)
    m = re.match(r"^\s*let\s+max_position\s*=\s*u64::max_value\(\)\s*as\s+i128\s*;\s*let\s+target_position\s*:\s*i128\s*=\s*match\s+pos\s*\{(.*)\}\s*;\s*"
                 r"if\s+target_position\s*<\s*0\s*\{\s*return\s+Err\(.*?\)\s*;\s*\}\s*"
                 r"self\.set_position\(\s*cmp::min\(\s*target_position\s*,\s*max_position\s*\)\s*as\s+u64\s*\)\s*;\s*Ok\(\s*self\.position\(\)\s*\)\s*$", b, re.S)
    if not m:
        raise TranslationBroken(A, "Seek::seek: body is not `max_position (i128); target_position: i128 = match pos {..}; if < 0 Err; set_position(min(..) as u64); Ok(position())`")
    arms_txt = m.group(1)
    arms = {}
    for am in re.finditer(r"std::io::SeekFrom::(Start|Current|End)\(\s*(\w+)\s*\)\s*=>\s*(\{.*?\}|[^,{]+),?", arms_txt, re.S):
        arms[am.group(1)] = (am.group(2), am.group(3).strip())
    if set(arms) != {"Start", "Current", "End"}:
        raise TranslationBroken(A, f"Seek::seek: expected arms Start, Current, End; found {sorted(arms)}")

    def arm_expr(kind):
        var, e = arms[kind]
        if e.startswith("{"):
            if re.match(r"^\{\s*return\s+Err\(.*\)\s*;\s*\}$", e, re.S):
                return "none"
            raise TranslationBroken(A, f"Seek::seek: arm {kind} has an unexpected block")
        e = e.replace("self.position()", "position")
        # i128 arithmetic on u64/i64 operands cannot overflow; translate `a as i128 + b as i128` to Int addition
        toks = [t.strip() for t in e.split("+")]
        outs = []
        for t in toks:
            mm = re.match(r"^(\w+)\s+as\s+i128$", t)
            if not mm:
                raise TranslationBroken(A, f"Seek::seek: arm {kind}: term {t!r} is not `<name> as i128`")
            nm = mm.group(1)
            if nm == var:
                outs.append("x" if kind != "Start" else "(Int.ofNat x)")
            elif nm == "position":
                outs.append("(Int.ofNat position)")
            else:
                raise TranslationBroken(A, f"Seek::seek: arm {kind}: unknown name {nm}")
        return "some (" + " + ".join(outs) + ")"

    o += ["inductive SeekFrom where", "  | start (x : Nat)", "  | current (x : Int)", "  | «end» (x : Int)", "",
          "/-- `impl Seek for OutputReader`: the target position as an exact integer (`none` = the arm returns Err) -/",
          "def seek_target (position : Nat) : SeekFrom → Option Int",
          f"  | .start x => {arm_expr('Start')}", f"  | .current x => {arm_expr('Current')}", f"  | .end x => {arm_expr('End')}", "",
          "/-- the position passed to `set_position` (`none` = Err, reader unchanged) -/",
          "def seek (position : Nat) (pos : SeekFrom) : Option Nat :=",
          "  match seek_target position pos with", "  | none => none",
          "  | some target => if target < 0 then none else some (min target ((2 : Int) ^ 64 - 1)).toNat", ""]
    o.append("end Rs\n")
    o.append("namespace C")
    cconsts = {"BLAKE3_CHUNK_LEN": c_define_int(A, "c/blake3.h", "BLAKE3_CHUNK_LEN")}
    params, body = find_fn(A, "c/blake3.c", r"INLINE\s+void\s+blake3_hasher_update_base\s*\(|void\s+blake3_hasher_update_base\s*\(")
    txt, _ = translate_shrink_region(A, "blake3_hasher_update_base", strip_comments(body).replace("(uint64_t)", ""), cconsts, True,
                                     [("self->chunk.chunk_counter", "chunk_counter")], "round_down_to_power_of_2")
    o.append(txt)
    o.append(gen_c_output_plan_body(A))
    o.append("end C\n")
    o.append("end B3.Gen")
    return "\n".join(o) + "\n"


# ------------------------------------------------------------------------------------------------
# G3c: c/blake3.c output_root_bytes as a write plan (which bytes of which output block go where)

W64 = 1 << 64


def c_wexpr(e, names):
    """C size_t / uint64_t expression -> Lean Nat expression with wrap-around made explicit"""
    k = e[0]
    if k == "num":
        return str(e[1])
    if k == "var":
        if e[1] not in names:
            raise ValueError(f"unknown name {e[1]}")
        return e[1]
    if k == "paren":
        return c_wexpr(e[1], names)
    if k == "neg":
        if e[1][0] == "num":
            return str(W64 - e[1][1])
        raise ValueError("unary minus on a non-literal")
    if k == "cast":
        if e[2] in ("uint64_t", "size_t"):
            return c_wexpr(e[1], names)
        raise ValueError(f"cast to {e[2]}")
    if k == "bin":
        a, b = c_wexpr(e[2], names), c_wexpr(e[3], names)
        op = e[1]
        if op == "+":
            return f"(Arith.w64add {a} {b})"
        if op == "-":
            return f"(Arith.w64sub {a} {b})"
        if op == "*":
            return f"(Arith.w64mul {a} {b})"
        if op in ("/", "%"):
            return f"({a} {op} {b})"
        if op == "&":
            return f"({a} &&& {b})"
        if op == "|":
            return f"({a} ||| {b})"
        raise ValueError(f"operator {op}")
    raise ValueError(f"cannot translate {e}")


def c_split_top(s, ch):
    depth = 0
    for i, c in enumerate(s):
        if c in "([":
            depth += 1
        elif c in ")]":
            depth -= 1
        elif c == ch and depth == 0:
            return s[:i], s[i + 1:]
    return None


def c_value(s, names):
    """expression, possibly `a > b ? x : y`"""
    s = s.strip()
    q = c_split_top(s, "?")
    if q:
        cond, rest = q
        xy = c_split_top(rest, ":")
        if not xy:
            raise ValueError("ternary without ':'")
        return f"(if {c_cond(cond, names)} then {c_value(xy[0], names)} else {c_value(xy[1], names)})"
    return c_wexpr(parse_expr(s), names)


def c_cond(s, names):
    s = s.strip()
    for op, lean in ((">=", "≥"), ("<=", "≤"), ("==", "="), ("!=", "≠"), (">", ">"), ("<", "<")):
        i = s.find(op)
        if i > 0 and (op not in (">", "<") or (s[i + 1:i + 2] not in ("=", ">", "<") and s[i - 1] not in ("<", ">"))):
            return f"({c_value(s[:i], names)} {lean} {c_value(s[i + len(op):], names)})"
    return f"({c_value(s, names)} ≠ 0)"


def c_statements(text):
    """split a C block into top-level statements; `if (...) {...}` stays one statement"""
    out = []
    i = 0
    n = len(text)
    while i < n:
        while i < n and text[i].isspace():
            i += 1
        if i >= n:
            break
        m = re.match(r"if\s*\(", text[i:])
        if m:
            j = match_brace(text, i + m.end() - 1, "(", ")")
            k = j
            while text[k].isspace():
                k += 1
            if text[k] != "{":
                raise ValueError("if without a braced block")
            e = match_brace(text, k)
            out.append(("if", text[i + m.end():j - 1], text[k + 1:e - 1]))
            i = e
            continue
        j = text.index(";", i)
        out.append(("stmt", text[i:j].strip()))
        i = j + 1
    return out


def gen_c_output_plan_body(A):
    params, body = find_fn(A, "c/blake3.c", r"INLINE\s+void\s+output_root_bytes\s*\(")
    if not re.match(r"\s*const\s+output_t\s*\*\s*self\s*,\s*uint64_t\s+seek\s*,\s*uint8_t\s*\*\s*out\s*,\s*size_t\s+out_len\s*$", params, re.S):
        raise TranslationBroken(A, "output_root_bytes: unexpected parameters")
    body = strip_comments(body)
    FL = r"(?:self->flags\s*\|\s*ROOT|ROOT\s*\|\s*self->flags|__ROOTFLAGS__)"
    # a local that only names `self->flags | ROOT` is accepted in the flags position
    mfl = re.search(r"(?:const\s+)?uint8_t\s+(\w+)\s*=\s*(?:self->flags\s*\|\s*ROOT|ROOT\s*\|\s*self->flags)\s*;", body)
    if mfl:
        body = body[:mfl.start()] + body[mfl.end():]
        body = re.sub(r"\b%s\b" % re.escape(mfl.group(1)), "__ROOTFLAGS__", body)
    XOF1 = r"^blake3_compress_xof\(\s*self->input_cv\s*,\s*self->block\s*,\s*self->block_len\s*,\s*(.+?)\s*,\s*" + FL + r"\s*,\s*wide_buf\s*\)$"
    XOFN = r"^blake3_xof_many\(\s*self->input_cv\s*,\s*self->block\s*,\s*self->block_len\s*,\s*(.+?)\s*,\s*" + FL + r"\s*,\s*out\s*,\s*(.+)\)$"
    MEMCPY = r"^memcpy\(\s*out\s*,\s*wide_buf\s*(?:\+\s*(.+?))?\s*,\s*(.+)\)$"
    lines = []

    def block(stmts, names, indent, mutable_outer):
        """emit statements; returns the set of outer variables assigned"""
        assigned = set()
        pad = "  " * indent
        for st in stmts:
            if st[0] == "if":
                cond = c_cond(st[1], names)
                inner = c_statements(st[2])
                # which outer variables does the block assign?
                sub_lines_start = len(lines)
                lines.append(None)   # placeholder for the header
                inner_names = set(names)
                asg = block(inner, inner_names, indent + 1, mutable_outer)
                asg = [v for v in mutable_outer if v in asg]
                tup = "(" + ", ".join(asg) + ")" if len(asg) != 1 else asg[0]
                lines[sub_lines_start] = f"{pad}  let {tup} := if {cond} then"
                lines.append(f"{pad}    {tup}")
                lines.append(f"{pad}    else {tup}")
                assigned |= set(asg)
                continue
            t = st[1]
            if t == "":
                continue
            if re.match(r"^uint8_t\s+wide_buf\s*\[\s*64\s*\]$", t):
                continue
            m = re.match(r"^(?:const\s+)?(?:uint64_t|size_t)\s+(\w+)\s*=\s*(.+)$", t, re.S)
            if m:
                lines.append(f"{pad}  let {m.group(1)} := {c_value(m.group(2), names)}")
                names.add(m.group(1))
                continue
            m = re.match(XOF1, t, re.S)
            if m:
                lines.append(f"{pad}  let wide_buf : Option Nat := some {c_value(m.group(1), names)}")
                assigned.add("wide_buf")
                continue
            m = re.match(MEMCPY, t, re.S)
            if m:
                src = c_value(m.group(1), names) if m.group(1) else "0"
                lines.append(f"{pad}  let ev := ev ++ [Ev.copy out wide_buf {src} {c_value(m.group(2), names)}]")
                assigned.add("ev")
                continue
            m = re.match(XOFN, t, re.S)
            if m:
                lines.append(f"{pad}  let ev := ev ++ [Ev.many out {c_value(m.group(1), names)} {c_value(m.group(2), names)}]")
                assigned.add("ev")
                continue
            m = re.match(r"^(\w+)\s*(\+|-)=\s*(.+)$", t, re.S)
            if m:
                v = m.group(1)
                if v not in names:
                    raise ValueError(f"assignment to unknown {v}")
                f = "Arith.w64add" if m.group(2) == "+" else "Arith.w64sub"
                lines.append(f"{pad}  let {v} := {f} {v} {c_value(m.group(3), names)}")
                assigned.add(v)
                continue
            raise ValueError(f"statement {t!r}")
        return assigned

    try:
        stmts = c_statements(body)
        if not (stmts and stmts[0][0] == "if" and re.match(r"^\s*out_len\s*==\s*0\s*$", stmts[0][1]) and re.match(r"^\s*return\s*;\s*$", stmts[0][2])):
            raise ValueError("first statement is not `if (out_len == 0) { return; }`")
        names = {"seek", "out", "out_len"}
        block(stmts[1:], names, 0, ["out", "out_len", "output_block_counter", "wide_buf", "ev"])
    except TranslationBroken:
        raise
    except Exception as ex:
        raise TranslationBroken(A, f"output_root_bytes: {ex}")
    o = ["/-- one write of `output_root_bytes` into the caller's buffer -/",
         "inductive Ev where",
         "  | copy (dst : Nat) (blk : Option Nat) (src n : Nat)   -- memcpy(out + dst, wide_buf + src, n); wide_buf = output block `blk` (none = never filled)",
         "  | many (dst ctr nblocks : Nat)                        -- blake3_xof_many(counter = ctr, out + dst, nblocks)",
         "deriving DecidableEq, Repr", "",
         "/-- `output_root_bytes(self, seek, out, out_len)` as the list of writes it performs; `out` is the offset from the",
         "caller's pointer, all arithmetic is C unsigned 64-bit (wrapping) -/",
         "def output_root_plan (seek out_len : Nat) : List Ev :=",
         "  if out_len = 0 then [] else",
         "  let out := 0", "  let ev : List Ev := []", "  let wide_buf : Option Nat := none"]
    o += lines
    o += ["  ev", ""]
    return "\n".join(o)

# ------------------------------------------------------------------------------------------------
# G5: published test vectors


def gen_vectors():
    A = "G5-vectors"
    rel = "test_vectors/test_vectors.json"
    text = src(rel)
    record_span(A, rel, 0, len(text))
    try:
        d = json.loads(text)
        key = d["key"].encode()
        ctx = d["context_string"].encode()
        cases = d["cases"]
    except Exception as ex:
        raise TranslationBroken(A, f"cannot parse {rel}: {ex}")

    def lst(b):
        return "[" + ", ".join(str(x) for x in b) + "]"
    o = ["/- GENERATED by gen/extract.py from /repo/test_vectors/test_vectors.json -- do not edit -/",
         "namespace B3.Gen.Vectors", "",
         f"def key : List UInt8 := {lst(key)}", f"def context : List UInt8 := {lst(ctx)}",
         f"def inputLens : List Nat := {[c['input_len'] for c in cases]}", ""]
    small = [c for c in cases if c["input_len"] <= 1]
    for c in small:
        n = c["input_len"]
        for f in ("hash", "keyed_hash", "derive_key"):
            try:
                b = bytes.fromhex(c[f])
            except Exception as ex:
                raise TranslationBroken(A, f"case {n} field {f}: {ex}")
            o.append(f"def case{n}_{f} : List UInt8 := {lst(b)}")
    o.append("")
    o.append("end B3.Gen.Vectors")
    return "\n".join(o) + "\n"


# ------------------------------------------------------------------------------------------------
# G4: structural listings (Debug fields, Zeroize fields vs struct fields, SIMD degree tables)


def struct_fields(artefact, rel, name):
    text = src(rel)
    m = re.search(rf"(?:pub\s+)?struct\s+{name}\s*\{{", text)
    if not m:
        raise TranslationBroken(artefact, f"struct {name} not found in {rel}")
    b0 = m.end() - 1
    b1 = match_brace(text, b0)
    record_span(artefact, rel, m.start(), b1)
    body = strip_comments(text[b0 + 1:b1 - 1])
    return re.findall(r"^\s*(?:pub\s+)?(\w+)\s*:", body, flags=re.M)


def impl_body(artefact, rel, header_re):
    text = src(rel)
    m = re.search(header_re, text)
    if not m:
        raise TranslationBroken(artefact, f"/{header_re}/ not found in {rel}")
    b0 = text.index("{", m.end() - 1)
    b1 = match_brace(text, b0)
    record_span(artefact, rel, m.start(), b1)
    return strip_comments(text[b0 + 1:b1 - 1])


def lean_strs(xs):
    return "[" + ", ".join('"' + x + '"' for x in xs) + "]"


def gen_listings():
    A = "G4-listings"
    o = ["/- GENERATED by gen/extract.py from /repo/src/lib.rs, src/platform.rs, c/blake3_dispatch.c, c/blake3_impl.h -- do not edit -/",
         "namespace B3.Gen.Listings", ""]
    L = "src/lib.rs"
    # Debug impls: the names passed to .field(...)
    for ty in ["ChunkState", "Hasher", "OutputReader"]:
        body = impl_body(A, L, rf"impl\s+fmt::Debug\s+for\s+{ty}\b")
        fields = re.findall(r'\.field\(\s*"(\w+)"\s*,\s*([^)]*\)?)\s*\)', body)
        if not fields:
            raise TranslationBroken(A, f"Debug impl of {ty}: no .field(...) calls found")
        o.append(f"def debugFields_{ty} : List String := {lean_strs([f[0] for f in fields])}")
        o.append(f"def debugExprs_{ty} : List String := {lean_strs([re.sub(r'[^A-Za-z0-9_.()&]', '', f[1]) for f in fields])}")
    # struct fields and the fields zeroized by each Zeroize impl
    for ty in ["Output", "ChunkState", "Hasher", "OutputReader"]:
        fs = struct_fields(A, L, ty)
        body = impl_body(A, L, rf"impl\s+Zeroize\s+for\s+{ty}\b")
        z = re.findall(r"^\s*(\w+)\.zeroize\(\)", body, flags=re.M)
        skipped = re.findall(r"(\w+)\s*:\s*_", body)
        o.append(f"def structFields_{ty} : List String := {lean_strs(fs)}")
        o.append(f"def zeroized_{ty} : List String := {lean_strs(z)}")
        o.append(f"def zeroizeSkipped_{ty} : List String := {lean_strs(skipped)}")
    body = impl_body(A, L, r"impl\s+Zeroize\s+for\s+Hash\b")
    zh = re.findall(r"^\s*(\w+)\.zeroize\(\)", body, flags=re.M)
    o.append(f"def zeroized_Hash : List String := {lean_strs(zh)}")
    # Platform::simd_degree arms
    params, body = find_fn(A, "src/platform.rs", r"pub\s+fn\s+simd_degree\s*\(")
    arms = re.findall(r"Platform::(\w+)\s*=>\s*(\d+)", body)
    if not arms:
        raise TranslationBroken(A, "simd_degree: no match arms found")
    o.append("def simdDegrees : List (String × Nat) := [" + ", ".join(f'("{a}", {n})' for a, n in arms) + "]")
    text = strip_comments(src("src/platform.rs"))
    ms = [int(x) for x in re.findall(r"pub\s+const\s+MAX_SIMD_DEGREE\s*:\s*usize\s*=\s*(\d+)", text)]
    ms2 = [int(x) for x in re.findall(r"pub\s+const\s+MAX_SIMD_DEGREE_OR_2\s*:\s*usize\s*=\s*(\d+)", text)]
    if not ms or not ms2:
        raise TranslationBroken(A, "MAX_SIMD_DEGREE tables not found in src/platform.rs")
    o.append(f"def maxSimdDegrees : List Nat := {ms}")
    o.append(f"def maxSimdDegreesOr2 : List Nat := {ms2}")
    # C: blake3_simd_degree return values and MAX_SIMD_DEGREE defines
    params, body = find_fn(A, "c/blake3_dispatch.c", r"size_t\s+blake3_simd_degree\s*\(")
    cdeg = [int(x) for x in re.findall(r"return\s+(\d+)\s*;", body)]
    o.append(f"def cSimdDegrees : List Nat := {cdeg}")
    ctext = strip_comments(src("c/blake3_impl.h"))
    cmax = [int(x) for x in re.findall(r"#define\s+MAX_SIMD_DEGREE\s+(\d+)", ctext)]
    o.append(f"def cMaxSimdDegrees : List Nat := {cmax}")
    # the detection-cache protocol of get_cpu_features(): every access to g_cpu_features, in source order
    params, body = find_fn(A, "c/blake3_dispatch.c", r"get_cpu_features\s*\(")
    acc = []
    for m in re.finditer(r"ATOMIC_LOAD\(\s*g_cpu_features\s*\)|ATOMIC_STORE\(\s*g_cpu_features\s*,\s*([^)]*)\)|g_cpu_features\s*=\s*([^;]+);", body):
        if m.group(0).startswith("ATOMIC_LOAD"):
            acc.append("load")
        else:
            acc.append("store " + re.sub(r"\s+", "", (m.group(1) or m.group(2) or "")))
    o.append(f"def cDetectAccesses : List String := {lean_strs(acc)}")
    o.append("")
    o.append("end B3.Gen.Listings")
    return "\n".join(o) + "\n"


# ------------------------------------------------------------------------------------------------

ARTEFACTS = [
    ("Consts.lean", "G1-consts", gen_consts),
    ("RsPortable.lean", "G2-rs-portable", gen_rs_portable),
    ("Arith.lean", "G3-arith", gen_arith),
    ("Regions.lean", "G3b-regions", gen_regions),
    ("RefCompress.lean", "G2-ref-compress", gen_ref_compress),
    ("CPortable.lean", "G2-c-portable", gen_c_portable),
    ("Vectors.lean", "G5-vectors", gen_vectors),
    ("Listings.lean", "G4-listings", gen_listings),
]


def write_if_changed(path, content):
    try:
        with open(path, encoding="utf-8") as f:
            if f.read() == content:
                return False
    except FileNotFoundError:
        pass
    tmp = path + ".tmp"
    with open(tmp, "w", encoding="utf-8") as f:
        f.write(content)
    os.replace(tmp, path)
    return True


def main():
    os.makedirs(OUT, exist_ok=True)
    status = {"ok": [], "broken": [], "changed": []}
    for fname, art, fn in ARTEFACTS:
        try:
            content = fn()
            if write_if_changed(os.path.join(OUT, fname), content):
                status["changed"].append(fname)
            status["ok"].append(art)
        except TranslationBroken as ex:
            status["broken"].append({"artefact": ex.artefact, "reason": ex.reason, "file": fname})
        except Exception as ex:  # an extractor bug is reported the same way, never silently
            status["broken"].append({"artefact": art, "reason": f"extractor error: {ex!r}", "file": fname})
    status["spans"] = [dict(artefact=a, file=f, first_line=l0, last_line=l1, sha256_16=h) for a, f, l0, l1, h in SPANS]
    with open(os.path.join(OUT, "status.json"), "w") as f:
        json.dump(status, f, indent=1)
    json.dump({k: status[k] for k in ("ok", "broken", "changed")}, sys.stdout)
    print()
    return 1 if status["broken"] else 0


if __name__ == "__main__":
    sys.exit(main())
