#!/usr/bin/env python3
"""
G8-chunkstate: statement-level translation of the state machines of src/lib.rs and src/hazmat.rs

    struct Output        chaining_value, root_hash, root_output_block
    parent_node_output
    struct ChunkState    new, count, fill_buf, start_flag, update, output
    struct OutputReader  new, fill_one_block, fill
    hazmat               Mode::key_words, Mode::flags_byte, hash_derive_key_context, merge_subtrees_inner / non_root / root /
                         root_xof, HasherExt::new_from_context_key, set_input_offset, finalize_non_root
    struct Hasher        new_internal, new, new_keyed, new_derive_key, reset, count, finalize, finalize_xof

into lean/B3/Gen/RsState.lean (namespace B3.Gen.RsState).  The structures are generated from the `struct` / `enum`
definitions; every function is translated from its source text statement by statement into the panic monad `R`
(B3/Arith.lean) over the primitives of B3/RsPrim.lean.

Type mapping (trusted):
    u8 -> UInt8 (arithmetic through RsPrim.cadd8/csub8/cmul8: overflow = panic; `|` `&` `^` are the bit operations)
    u64, usize -> Nat  (arithmetic through Arith.cadd/csub/cmul/cdiv/cmod: overflow = panic; usize is taken to be 64 bits wide)
    x as usize / as u64 (from u8) -> x.toNat      x as u8 (from usize/u64) -> RsPrim.asU8 x (truncation)
    CVWords -> CV      [u8; N], &[u8], &str, CVBytes, ChainingValue, ContextKey, Hash -> List UInt8 (an array's length is a
    fact of the Rust type system and is not carried by the Lean type)      ArrayVec<CVBytes, _> -> List (List UInt8)
    &mut [u8] / &mut &mut [u8] -> RsPrim.MutSlice (the bytes left behind by `buf = &mut buf[n..]` and the current slice)
    Platform -> dropped: `platform.compress_in_place / compress_xof / xof_many` become calls of the section parameters
    `compress_in_place`, `compress_xof`, `xof_many`, which work on words the way src/portable.rs is translated (G2):
    a `&[u8; 64]` block argument is passed as `wordsOfBytes 16 block`, a `u64` counter as `UInt64.ofNat counter`, the
    `[u8; 64]` result of compress_xof is `bytesOfWords` of the 16 result words.
    `hash_all_at_once::<J>(input, key, flags)` and `self.final_output()` are parameters (given functions).
`debug_assert!`, `debug_assert_eq!` lines are dropped (the harness observes them); `assert!`, `assert_eq!`, `assert_ne!`,
slicing, `copy_from_slice`, integer overflow are represented.  `&`, `&mut`, `*` (borrows and dereferences) are erased: a
`&mut self` method returns the new `self`, a `&mut` parameter is returned next to it.
"""
import re

import extract as X

A = "G8-chunkstate"
LIB, HAZ = "src/lib.rs", "src/hazmat.rs"


def broken(fn, what):
    raise X.TranslationBroken(A, f"{fn}: {what}")


# ------------------------------------------------------------------------------------------------
# source access: comments blanked and string literals neutralised without moving any offset

_clean = {}


def clean(rel):
    if rel in _clean:
        return _clean[rel]
    s = X.src(rel)
    out = list(s)
    i, n = 0, len(s)
    while i < n:
        two = s[i:i + 2]
        if two == "//":
            j = s.find("\n", i)
            j = n if j < 0 else j
            for k in range(i, j):
                out[k] = " "
            i = j
        elif two == "/*":
            j = s.find("*/", i + 2)
            j = n if j < 0 else j + 2
            for k in range(i, j):
                if s[k] != "\n":
                    out[k] = " "
            i = j
        elif s[i] == '"':
            j = i + 1
            while j < n and s[j] != '"':
                j += 2 if s[j] == "\\" else 1
            for k in range(i + 1, min(j, n)):
                if s[k] != "\n":
                    out[k] = "_"
            i = j + 1
        else:
            i += 1
    _clean[rel] = "".join(out)
    return _clean[rel]


def block_after(text, i):
    """(start, end) of the inside of the first `{...}` at or after i"""
    b0 = text.index("{", i)
    b1 = X.match_brace(text, b0)
    return b0 + 1, b1 - 1


def depth0_find(text, s, e, regex):
    """first match of regex inside text[s:e] that starts at brace depth 0 (relative to s)"""
    depth = 0
    pos = s
    for m in re.finditer(regex, text[s:e]):
        a = s + m.start()
        for ch in text[pos:a]:
            if ch == "{":
                depth += 1
            elif ch == "}":
                depth -= 1
        pos = a
        if depth == 0:
            return a
    return None


class Fn:
    pass


def find_function(lean, rel, impl_re, name):
    """locate `fn name` (inside an impl block matching impl_re, or at top level of the file), parse its signature"""
    text = clean(rel)
    where = None
    if impl_re:
        for m in re.finditer(impl_re, text):
            s, e = block_after(text, m.end() - 1)
            a = depth0_find(text, s, e, rf"\bfn\s+{name}\s*(?:<[^>(]*>)?\s*\(")
            if a is not None:
                where = a
                break
    else:
        where = depth0_find(text, 0, len(text), rf"\bfn\s+{name}\s*(?:<[^>(]*>)?\s*\(")
    if where is None:
        broken(lean, f"`fn {name}` not found in {rel}" + (f" inside /{impl_re}/" if impl_re else " at top level"))
    p0 = text.index("(", where)
    p1 = X.match_brace(text, p0, "(", ")")
    b0 = text.index("{", p1)
    b1 = X.match_brace(text, b0)
    X.record_span(A, rel, where, b1)
    f = Fn()
    f.lean, f.rel, f.name = lean, rel, name
    f.params_txt = text[p0 + 1:p1 - 1]
    f.ret_txt = text[p1:b0].strip()
    f.body = text[b0 + 1:b1 - 1]
    return f


# ------------------------------------------------------------------------------------------------
# types

LEAN_TY = {"Nat": "Nat", "UInt8": "UInt8", "CV": "CV", "Bytes": "(List UInt8)", "Stack": "(List (List UInt8))",
           "MutSlice": "RsPrim.MutSlice", "Unit": "Unit", "Bool": "Bool"}
STRUCTS = {}     # name -> [(field, ty)]   (fields of type Platform are dropped)
ENUMS = {}       # name -> [(variant, [ty])]
DROPPED = set()  # structs with a dropped `platform` field
BYTES_TYPES = {"&[u8]", "&str", "CVBytes", "&CVBytes", "ChainingValue", "&ChainingValue", "ContextKey", "&ContextKey", "Hash"}


def lean_ty(ty):
    if ty in LEAN_TY:
        return LEAN_TY[ty]
    if ty in STRUCTS or ty in ENUMS:
        return ty
    raise ValueError(f"no Lean type for {ty}")


def map_type(t, self_ty, who):
    """Rust type text -> (type tag, mode) with mode in: in, inout, drop"""
    t = re.sub(r"'\w+", "", t)
    t = re.sub(r"\s+", "", t).replace("<>", "")
    t = t.replace("crate::", "")
    if t in ("&mut&mut[u8]", "&mut[u8]"):
        return "MutSlice", "inout"
    if t == "&mut&[u8]":
        return "Bytes", "inout"
    m = re.match(r"^&mut(\w+)$", t)
    if m:
        n = self_ty if m.group(1) == "Self" else m.group(1)
        if n in STRUCTS:
            return n, "inout"
    if t in BYTES_TYPES or re.match(r"^&?\[u8;[^\]]+\]$", t):
        return "Bytes", "in"
    if t in ("CVWords", "&CVWords"):
        return "CV", "in"
    if t == "u8":
        return "UInt8", "in"
    if t in ("u64", "usize"):
        return "Nat", "in"
    if t == "Platform":
        return "Platform", "drop"
    if re.match(r"^ArrayVec<CVBytes,.*>$", t):
        return "Stack", "in"
    n = t.lstrip("&")
    n = self_ty if n == "Self" else n
    if n in STRUCTS or n in ENUMS:
        return n, "in"
    broken(who, f"type `{t}` is not in the type mapping")


def split_commas(s):
    """split at commas outside (), [], {}, <>"""
    out, depth, cur = [], 0, []
    for i, ch in enumerate(s):
        if ch in "([{<":
            depth += 1
        elif ch in ")]}" or (ch == ">" and s[i - 1:i] not in ("-", "=")):
            depth -= 1
        if ch == "," and depth == 0:
            out.append("".join(cur))
            cur = []
        else:
            cur.append(ch)
    if "".join(cur).strip():
        out.append("".join(cur))
    return out


def parse_struct(rel, name):
    text = clean(rel)
    m = re.search(rf"\bstruct\s+{name}\s*\{{", text)
    if not m:
        broken(f"struct {name}", f"definition not found in {rel}")
    s, e = block_after(text, m.end() - 1)
    X.record_span(A, rel, m.start(), e + 1)
    STRUCTS[name] = []      # allow self reference checks
    fields = []
    for part in split_commas(text[s:e]):
        part = part.strip()
        if not part:
            continue
        mm = re.match(r"^(?:pub(?:\([^)]*\))?\s+)?(\w+)\s*:\s*(.+)$", part, re.S)
        if not mm:
            broken(f"struct {name}", f"field `{part}` not understood")
        ty, mode = map_type(mm.group(2), name, f"struct {name}")
        if mode == "drop":
            DROPPED.add(name)
            continue
        fields.append((mm.group(1), ty))
    STRUCTS[name] = fields


def parse_enum(rel, name):
    text = clean(rel)
    m = re.search(rf"\benum\s+{name}\s*(?:<[^>]*>)?\s*\{{", text)
    if not m:
        broken(f"enum {name}", f"definition not found in {rel}")
    s, e = block_after(text, m.end() - 1)
    X.record_span(A, rel, m.start(), e + 1)
    vs = []
    for part in X.split_args(text[s:e]):
        part = part.strip()
        if not part:
            continue
        mm = re.match(r"^(\w+)\s*(?:\((.*)\))?$", part, re.S)
        if not mm:
            broken(f"enum {name}", f"variant `{part}` not understood")
        tys = [map_type(x, name, f"enum {name}")[0] for x in X.split_args(mm.group(2))] if mm.group(2) else []
        vs.append((mm.group(1), tys))
    ENUMS[name] = vs


# ------------------------------------------------------------------------------------------------
# parser: the expression parser of extract.py extended with ranges, array repeat, struct literals, `.0`, `!`


class P2(X.P):
    def dotdot(self):
        return self.at(".") and self.peek(1) == ("op", ".")

    def primary(self):
        k, v = self.peek()
        if (k, v) == ("op", "["):
            self.next()
            first = self.expr()
            if self.at(";"):
                self.next()
                n = self.expr()
                self.expect("]")
                return ("repeat", first, n)
            items = [first]
            while self.at(","):
                self.next()
                if self.at("]"):
                    break
                items.append(self.expr())
            self.expect("]")
            return ("array", items)
        if k == "id" and (v in STRUCTS or v == "Self") and self.peek(1) == ("op", "{"):
            self.next()
            self.next()
            fields = []
            while not self.at("}"):
                kk, name = self.next()
                if kk != "id":
                    raise ValueError("struct literal: field name expected")
                if self.at(":"):
                    self.next()
                    fields.append((name, self.expr()))
                else:
                    fields.append((name, ("var", name)))
                if self.at(","):
                    self.next()
            self.expect("}")
            return ("struct", v, fields)
        return super().primary()

    def unary(self):
        if self.at("!"):
            self.next()
            return ("not", self.unary())
        return super().unary()

    def postfix(self):
        e = self.primary()
        while True:
            if self.at("["):
                self.next()
                lo = hi = None
                if self.dotdot():
                    self.next()
                    self.next()
                    if not self.at("]"):
                        hi = self.expr()
                    self.expect("]")
                    e = ("slice", e, lo, hi)
                    continue
                lo = self.expr()
                if self.dotdot():
                    self.next()
                    self.next()
                    if not self.at("]"):
                        hi = self.expr()
                    self.expect("]")
                    e = ("slice", e, lo, hi)
                else:
                    self.expect("]")
                    e = ("index", e, lo)
            elif self.at(".") and self.peek(1)[0] == "id":
                self.next()
                name = self.next()[1]
                if self.at("("):
                    self.next()
                    e = ("method", e, name, self.args())
                else:
                    e = ("field", e, name)
            elif self.at(".") and self.peek(1)[0] == "num":
                self.next()
                e = ("tupfield", e, self.next()[1])
            elif self.peek() == ("id", "as"):
                self.next()
                e = ("cast", e, self.next()[1])
            else:
                return e


def parse(s):
    p = P2(X.tokenize(s))
    e = p.expr()
    if p.peek()[0] != "eof":
        raise ValueError(f"trailing tokens in {s!r}: {p.peek()}")
    return e


def split_assign(t):
    """`lhs = rhs` / `lhs op= rhs` at bracket depth 0 -> (lhs, op, rhs), op in '', '+', '-', ...; else None"""
    depth = 0
    for i, c in enumerate(t):
        if c in "([{":
            depth += 1
        elif c in ")]}":
            depth -= 1
        elif c == "=" and depth == 0:
            nxt, prv = t[i + 1:i + 2], t[i - 1:i]
            if nxt in ("=", ">") or prv in ("=", "!", "<", ">"):
                return None
            if prv in "+-*/|&^%":
                return t[:i - 1].strip(), prv, t[i + 1:].strip()
            return t[:i].strip(), "", t[i + 1:].strip()
    return None


# ------------------------------------------------------------------------------------------------
# the translator

SECTION = {   # section parameters (given functions), in the order in which they are listed in every signature
    "compress_in_place": "(compress_in_place : CV → St → UInt8 → UInt64 → UInt8 → CV)",
    "compress_xof": "(compress_xof : CV → St → UInt8 → UInt64 → UInt8 → St)",
    "xof_many": "(xof_many : CV → St → UInt8 → UInt64 → UInt8 → Nat → List UInt8)",
    "hash_all_at_once": "(hash_all_at_once : List UInt8 → CV → UInt8 → Output)",
    "final_output": "(final_output : Hasher → R Output)",
}
FLAG_CONSTS = ["CHUNK_START", "CHUNK_END", "PARENT", "ROOT", "KEYED_HASH", "DERIVE_KEY_CONTEXT", "DERIVE_KEY_MATERIAL"]
FN = {}         # "Type.method" / "function" -> Fn (already translated: signature, section parameters used)
FUEL = {"ChunkState.update": {1: "input.length + 1"}}


def atom(t):
    return t if re.match(r"^[\w.]+$", t) or (t.startswith("(") and X.match_brace(t, 0, "(", ")") == len(t)) else f"({t})"


def norm_path(name, self_ty):
    name = re.sub(r"^(crate::|hazmat::|super::)+", "", name)
    if name.startswith("Self::"):
        name = self_ty + "::" + name[6:]
    return name


class Tr:
    def __init__(self, fn, self_ty, vars_, consts):
        self.fn, self.self_ty, self.vars, self.consts = fn, self_ty, dict(vars_), consts
        self.sect = set()
        self.defs = []
        self.nloops = 0
        self.tmp = [0]
        self.result = None     # (ret type tag, [inout vars])
        self.assigned = []

    def sub(self):
        s = Tr(self.fn, self.self_ty, self.vars, self.consts)
        s.sect, s.defs, s.tmp, s.result = self.sect, self.defs, self.tmp, self.result
        s.nloops = self.nloops
        return s

    def fresh(self):
        self.tmp[0] += 1
        return f"t{self.tmp[0]}"

    def bind(self, lines, pad, rhs):
        v = self.fresh()
        lines.append(f"{pad}let {v} ← {rhs}")
        return v

    def use(self, name):
        self.sect.add(name)
        return name

    def call_fn(self, f, args_terms):
        for s in f.sect:
            self.sect.add(s)
        return " ".join([f.lean] + [s for s in SECTION if s in f.sect] + [atom(a) for a in args_terms])

    # ---- expressions -------------------------------------------------------------------------
    def ex(self, e, lines, pad):
        k = e[0]
        if k == "num":
            return str(e[1]), "lit"
        if k == "var":
            n = norm_path(e[1], self.self_ty)
            if n in self.vars:
                return n, self.vars[n]
            if n in self.consts:
                return str(self.consts[n]), "Nat"
            if n in FLAG_CONSTS:
                return f"Gen.Rs.{n}", "UInt8"
            if n == "IV":
                return "Gen.Rs.IV", "CV"
            raise ValueError(f"unknown name {e[1]}")
        if k == "paren":
            return self.ex(e[1], lines, pad)
        if k == "field":
            r, tr = self.ex(e[1], lines, pad)
            if tr not in STRUCTS:
                raise ValueError(f"field .{e[2]} of a value of type {tr}")
            if e[2] == "platform":
                return None, "Platform"
            for fname, fty in STRUCTS[tr]:
                if fname == e[2]:
                    return f"{r}.{fname}", fty
            raise ValueError(f"struct {tr} has no field {e[2]}")
        if k == "tupfield":
            r, tr = self.ex(e[1], lines, pad)
            if tr == "Bytes" and e[2] == 0:      # Hash(bytes).0
                return r, tr
            raise ValueError(f"tuple field .{e[2]} of {tr}")
        if k == "cast":
            r, tr = self.ex(e[1], lines, pad)
            if e[2] in ("usize", "u64"):
                if tr == "UInt8":
                    return f"{atom(r)}.toNat", "Nat"
                if tr in ("Nat", "lit"):
                    return r, "Nat"
            if e[2] == "u8":
                if tr == "lit":
                    return f"({int(r) % 256} : UInt8)", "UInt8"
                if tr == "Nat":
                    if re.match(r"^\d+$", r):
                        return f"({int(r) % 256} : UInt8)", "UInt8"
                    return f"(RsPrim.asU8 {atom(r)})", "UInt8"
                if tr == "UInt8":
                    return r, tr
            raise ValueError(f"cast of {tr} to {e[2]}")
        if k == "not":
            r, tr = self.ex(e[1], lines, pad)
            if tr != "Bool":
                raise ValueError("`!` on a non-boolean")
            return f"(!{r})", "Bool"
        if k == "bin":
            c = X.const_eval(e)
            if c is not None:
                return str(c), "lit"
            (a, ta), (b, tb) = self.ex(e[2], lines, pad), self.ex(e[3], lines, pad)
            ty = ta if ta != "lit" else tb
            if (tb if tb != "lit" else ty) != ty or ty not in ("Nat", "UInt8", "lit"):
                raise ValueError(f"operator {e[1]} on {ta} and {tb}")
            if ty == "lit":
                ty = "Nat"
            op = e[1]
            if op in ("|", "&", "^"):
                if ty != "UInt8":
                    raise ValueError(f"bit operator {op} on {ty}")
                return f"({a} {X.LEAN_BIN[op]} {b})", "UInt8"
            if ty == "Nat":
                f = {"+": "Arith.cadd", "-": "Arith.csub", "*": "Arith.cmul", "/": "Arith.cdiv", "%": "Arith.cmod"}.get(op)
            else:
                f = {"+": "RsPrim.cadd8", "-": "RsPrim.csub8", "*": "RsPrim.cmul8"}.get(op)
            if not f:
                raise ValueError(f"operator {op} on {ty}")
            return self.bind(lines, pad, f"{f} {atom(a)} {atom(b)}"), ty
        if k == "repeat":
            v, tv = self.ex(e[1], lines, pad)
            n, tn = self.ex(e[2], lines, pad)
            if tv != "lit" or tn not in ("Nat", "lit"):
                raise ValueError("array repeat expression")
            return f"(List.replicate {n} ({v} : UInt8))", "Bytes"
        if k == "slice":
            r, tr = self.ex(e[1], lines, pad)
            if tr != "Bytes":
                raise ValueError(f"slice of a value of type {tr}")
            lo = self.nat(e[2], lines, pad) if e[2] is not None else None
            hi = self.nat(e[3], lines, pad) if e[3] is not None else None
            if lo is not None and hi is not None:
                return self.bind(lines, pad, f"RsPrim.sliceRange {atom(r)} {atom(lo)} {atom(hi)}"), "Bytes"
            if lo is not None:
                return self.bind(lines, pad, f"RsPrim.sliceFrom {atom(r)} {atom(lo)}"), "Bytes"
            if hi is not None:
                return self.bind(lines, pad, f"RsPrim.sliceTo {atom(r)} {atom(hi)}"), "Bytes"
            return r, tr
        if k == "macro" and e[1] == "array_ref" and len(e[2]) == 3:
            r, tr = self.ex(e[2][0], lines, pad)
            if tr != "Bytes":
                raise ValueError("array_ref! of a non-slice")
            off, ln = self.nat(e[2][1], lines, pad), self.nat(e[2][2], lines, pad)
            return self.bind(lines, pad, f"RsPrim.arrayRef {atom(r)} {atom(off)} {atom(ln)}"), "Bytes"
        if k == "struct":
            return self.struct_lit(e, lines, pad)
        if k == "call":
            return self.call(e, lines, pad)
        if k == "method":
            return self.method(e, lines, pad)
        raise ValueError(f"cannot translate expression {e}")

    def nat(self, e, lines, pad):
        r, tr = self.ex(e, lines, pad)
        if tr not in ("Nat", "lit"):
            raise ValueError(f"index of type {tr}")
        return r

    def typed(self, e, want, lines, pad, what):
        r, tr = self.ex(e, lines, pad)
        if tr == "lit" and want in ("Nat", "UInt8"):
            return r
        if tr != want:
            raise ValueError(f"{what}: expected {want}, found {tr}")
        return r

    def struct_lit(self, e, lines, pad):
        name = self.self_ty if e[1] == "Self" else e[1]
        given = {}
        for fname, fe in e[2]:
            if fname in given:
                raise ValueError(f"field {fname} given twice")
            if fname == "platform":
                r, tr = self.ex(fe, lines, pad)
                if tr != "Platform":
                    raise ValueError("field platform is not a Platform")
                given[fname] = None
                continue
            given[fname] = fe
        parts = []
        for fname, fty in STRUCTS[name]:
            if fname not in given:
                raise ValueError(f"struct literal {name}: field {fname} missing")
            parts.append(f"{fname} := {self.typed(given.pop(fname), fty, lines, pad, f'{name}.{fname}')}")
        given.pop("platform", None)
        if given:
            raise ValueError(f"struct literal {name}: unknown fields {sorted(given)}")
        return "{ " + ", ".join(parts) + f" : {name} }}", name

    def args_for(self, f, args, lines, pad, recv=None):
        """terms for the non-dropped parameters of f; returns (terms, [(param name, place expr)] for inout params)"""
        actual = ([recv] if recv is not None else []) + list(args)
        if len(actual) != len(f.params):
            raise ValueError(f"{f.lean}: {len(actual)} arguments for {len(f.params)} parameters")
        terms, inouts = [], []
        for (pname, pty, mode), a in zip(f.params, actual):
            if mode == "drop":
                r, tr = self.ex(a, lines, pad)
                if tr != "Platform":
                    raise ValueError(f"{f.lean}: argument for {pname} is not a Platform")
                continue
            terms.append(self.typed(a, pty, lines, pad, f"{f.lean} argument {pname}"))
            if mode == "inout":
                inouts.append((pname, a))
        return terms, inouts

    def call(self, e, lines, pad):
        name, args = norm_path(e[1], self.self_ty), e[2]
        if name in ("platform::le_bytes_from_words_32",) and len(args) == 1:
            return f"(bytesOfWords {atom(self.typed(args[0], 'CV', lines, pad, name))})", "Bytes"
        if name in ("platform::words_from_le_bytes_32",) and len(args) == 1:
            return f"(wordsOfBytes 8 {atom(self.typed(args[0], 'Bytes', lines, pad, name))})", "CV"
        if name == "cmp::min" and len(args) == 2:
            return f"(min {atom(self.nat(args[0], lines, pad))} {atom(self.nat(args[1], lines, pad))})", "Nat"
        if name == "Hash" and len(args) == 1:
            return self.typed(args[0], "Bytes", lines, pad, "Hash(..)"), "Bytes"
        if name == "Platform::detect" and not args:
            return None, "Platform"
        if name == "ArrayVec::new" and not args:
            return "[]", "Stack"
        if name == "core::mem::take" and len(args) == 1:
            return self.ex(args[0], lines, pad)
        if name == "hash_all_at_once" and len(args) == 3:
            a = [self.typed(args[0], "Bytes", lines, pad, name), self.typed(args[1], "CV", lines, pad, name),
                 self.typed(args[2], "UInt8", lines, pad, name)]
            return f"({self.use('hash_all_at_once')} " + " ".join(atom(x) for x in a) + ")", "Output"
        key = name.replace("::", ".")
        if key in FN:
            f = FN[key]
            terms, inouts = self.args_for(f, args, lines, pad)
            if inouts:
                raise ValueError(f"{key} has &mut parameters and is used as an expression")
            return self.bind(lines, pad, self.call_fn(f, terms)), f.ret
        raise ValueError(f"unknown function {e[1]}")

    def kernel_args(self, args, lines, pad, who):
        cv = self.typed(args[0], "CV", lines, pad, who)
        blk = self.typed(args[1], "Bytes", lines, pad, who)
        bl = self.typed(args[2], "UInt8", lines, pad, who)
        ctr = self.typed(args[3], "Nat", lines, pad, who)
        fl = self.typed(args[4], "UInt8", lines, pad, who)
        return f"{atom(cv)} (wordsOfBytes 16 {atom(blk)}) {atom(bl)} (UInt64.ofNat {atom(ctr)}) {atom(fl)}"

    def method(self, e, lines, pad):
        recv, name, args = e[1], e[2], e[3]
        scratch = []
        save = self.tmp[0]
        r, tr = self.ex(recv, scratch, pad)
        if f"{tr}.{name}" in FN:
            self.tmp[0] = save          # the receiver is evaluated (once) as the first argument
            f = FN[f"{tr}.{name}"]
            terms, inouts = self.args_for(f, args, lines, pad, recv=recv)
            if inouts:
                raise ValueError(f"{tr}.{name} takes &mut and is used as an expression")
            return self.bind(lines, pad, self.call_fn(f, terms)), f.ret
        lines += scratch
        if tr == "Platform":
            if name == "compress_xof" and len(args) == 5:
                return f"(bytesOfWords ({self.use('compress_xof')} {self.kernel_args(args, lines, pad, name)}))", "Bytes"
            raise ValueError(f"platform.{name} in expression position")
        if name == "len" and not args:
            if tr in ("Bytes", "Stack"):
                return f"{atom(r)}.length", "Nat"
            if tr == "MutSlice":
                return f"{atom(r)}.len", "Nat"
        if name == "is_empty" and not args and tr in ("Bytes", "Stack", "MutSlice"):
            return f"{atom(r)}.isEmpty", "Bool"
        if name == "as_bytes" and not args and tr == "Bytes":
            return r, tr
        if tr == "Hasher" and name == "final_output" and not args:
            return self.bind(lines, pad, f"{self.use('final_output')} {atom(r)}"), "Output"
        raise ValueError(f"unknown method {name} on {tr}")

    # ---- places ------------------------------------------------------------------------------
    def place(self, e):
        """(root variable, [fields]) of an assignable expression"""
        if e[0] == "var" and e[1] in self.vars:
            return e[1], []
        if e[0] == "field":
            root, path = self.place(e[1])
            return root, path + [e[2]]
        if e[0] == "paren":
            return self.place(e[1])
        raise ValueError(f"not an assignable place: {e}")

    def place_term(self, root, path):
        return ".".join([root] + path)

    def place_type(self, root, path):
        ty = self.vars[root]
        for f in path:
            d = dict(STRUCTS.get(ty, []))
            if f not in d:
                raise ValueError(f"no field {f} in {ty}")
            ty = d[f]
        return ty

    def set_place(self, root, path, term, lines, pad):
        for i in range(len(path) - 1, -1, -1):
            term = f"{{ {self.place_term(root, path[:i])} with {path[i]} := {term} }}"
        lines.append(f"{pad}let {root} := {term}")
        self.assigned.append(root)

    def window(self, e, lines, pad):
        """a chain of range indexings over a place -> (root, path, window term | None)"""
        chain = []
        while e[0] == "slice":
            chain.append((e[2], e[3]))
            e = e[1]
        root, path = self.place(e)
        ty = self.place_type(root, path)
        if ty not in ("Bytes", "MutSlice"):
            raise ValueError(f"range indexing of a {ty}")
        base = self.place_term(root, path) + (".cur" if ty == "MutSlice" else "")
        w = f"(RsPrim.Win.all {base})"
        for lo, hi in reversed(chain):
            lo_t = self.nat(lo, lines, pad) if lo is not None else None
            hi_t = self.nat(hi, lines, pad) if hi is not None else None
            if lo_t is not None and hi_t is not None:
                w = self.bind(lines, pad, f"RsPrim.Win.range {w} {atom(lo_t)} {atom(hi_t)}")
            elif lo_t is not None:
                w = self.bind(lines, pad, f"RsPrim.Win.from {w} {atom(lo_t)}")
            elif hi_t is not None:
                w = self.bind(lines, pad, f"RsPrim.Win.to {w} {atom(hi_t)}")
        return root, path, ty, w

    def write_window(self, target, src_term, lines, pad):
        root, path, ty, w = self.window(target, lines, pad)
        if ty == "MutSlice":
            v = self.bind(lines, pad, f"RsPrim.MutSlice.write {self.place_term(root, path)} {w} {atom(src_term)}")
        else:
            v = self.bind(lines, pad, f"RsPrim.copyFromSlice {self.place_term(root, path)} {w} {atom(src_term)}")
        self.set_place(root, path, v, lines, pad)

    # ---- conditions --------------------------------------------------------------------------
    def cond(self, s, lines, pad):
        s = s.strip()
        for op, lean in ((">=", "≥"), ("<=", "≤"), ("==", "="), ("!=", "≠"), (">", ">"), ("<", "<")):
            parts = X.split_top(s, op)
            if parts:
                (a, ta), (b, tb) = self.ex(parse(parts[0]), lines, pad), self.ex(parse(parts[1]), lines, pad)
                ty = ta if ta != "lit" else tb
                if (tb if tb != "lit" else ty) != ty or ty not in ("Nat", "UInt8"):
                    raise ValueError(f"comparison of {ta} with {tb}")
                return f"{a} {lean} {b}"
        r, tr = self.ex(parse(s), lines, pad)
        if tr != "Bool":
            raise ValueError(f"condition {s!r} is not boolean")
        return r

    # ---- statements --------------------------------------------------------------------------
    def ret_line(self, tail_term, pad):
        ret, inouts = self.result
        parts = ([tail_term] if ret not in ("Unit", "SelfRef") else []) + inouts
        if ret not in ("Unit", "SelfRef") and tail_term is None:
            raise ValueError("missing return value")
        if not parts:
            return f"{pad}pure ()"
        return f"{pad}pure " + (parts[0] if len(parts) == 1 else "(" + ", ".join(parts) + ")")

    def tail_value(self, text, lines, pad):
        """the value of a tail expression / `return E`; None for unit"""
        text = text.strip()
        ret, inouts = self.result
        if not text:
            return None
        if ret == "SelfRef":
            if text != "self":
                raise ValueError(f"expected `self` as the result, found {text!r}")
            return None
        if ret == "Unit":
            raise ValueError(f"unexpected result expression {text!r}")
        return self.typed(parse(text), ret, lines, pad, "result")

    def block(self, stmts, pad, finish):
        """translate a statement list.  finish: ('fn',) end of the function body -> result line; ('vars', [..]) -> pure tuple;
        ('loop', call) -> recursive call.  Returns lines; self.assigned collects assigned outer roots."""
        lines = []
        idx = 0
        while idx < len(stmts):
            st = stmts[idx]
            idx += 1
            last = idx == len(stmts)
            if st[0] == "while":
                self.do_while(st, lines, pad)
                continue
            if st[0] == "if":
                then = X.rs_statements(st[2])
                # early return
                if st[3] is None and then and then[-1][0] == "stmt" and re.match(r"^return\b", then[-1][1]):
                    c = self.cond(st[1], lines, pad)
                    s1 = self.sub()
                    s1.assigned = []
                    tl = s1.block(then[:-1], pad + "  ", None)
                    v = s1.tail_value(then[-1][1][6:], tl, pad + "  ")
                    tl.append(s1.ret_line(v, pad + "  "))
                    s2 = self.sub()
                    s2.assigned = self.assigned
                    s2.nloops = self.nloops
                    rest = s2.block(stmts[idx:], pad + "  ", finish)
                    self.nloops = s2.nloops
                    lines += [f"{pad}if {c} then do"] + tl + [f"{pad}else do"] + rest
                    return lines
                # value of the function: `if c { A } else { B }` in tail position
                if last and finish == ("fn",) and st[3] is not None and self.result[0] not in ("Unit", "SelfRef"):
                    c = self.cond(st[1], lines, pad)
                    out = [f"{pad}if {c} then do"]
                    for blk in (then, X.rs_statements(st[3])):
                        s1 = self.sub()
                        s1.assigned = []
                        s1.nloops = self.nloops
                        bl = s1.block(blk, pad + "  ", ("fn",))
                        self.nloops = s1.nloops
                        if s1.assigned and set(s1.assigned) & set(self.result[1]):
                            raise ValueError("assignment to a &mut parameter inside a tail `if`")
                        out += bl
                        if blk is then:
                            out.append(f"{pad}else do")
                    lines += out
                    return lines
                self.do_if(st, then, lines, pad)
                continue
            t = st[1].strip()
            if st[0] == "tail":
                if finish != ("fn",):
                    raise ValueError(f"unexpected tail expression {t!r}")
                m = re.match(r"^match\s+(\w+)\s*\{(.*)\}$", t, re.S)
                if m:
                    lines += self.do_match(m.group(1), m.group(2), pad)
                    return lines
                v = self.tail_value(t, lines, pad)
                lines.append(self.ret_line(v, pad))
                return lines
            self.stmt(t, lines, pad)
        if finish is None:
            return lines
        if finish == ("fn",):
            v = self.tail_value("", lines, pad)
            lines.append(self.ret_line(v, pad))
        elif finish[0] == "vars":
            vs = finish[1]
            lines.append(f"{pad}pure " + (vs[0] if len(vs) == 1 else "(" + ", ".join(vs) + ")"))
        elif finish[0] == "loop":
            lines.append(f"{pad}{finish[1]}")
        return lines

    def outer_assigned(self, s):
        """roots assigned in a sub-translation that exist in this scope, in declaration order"""
        return [v for v in self.vars if v in s.assigned]

    def tuple_of(self, vs):
        return vs[0] if len(vs) == 1 else "(" + ", ".join(vs) + ")"

    def do_if(self, st, then, lines, pad):
        els = X.rs_statements(st[3]) if st[3] else []
        c = self.cond(st[1], lines, pad)
        s1, s2 = self.sub(), self.sub()
        s1.assigned, s2.assigned = [], []
        s1.nloops = self.nloops
        tl = s1.block(then, pad + "    ", None)
        s2.nloops = s1.nloops
        el = s2.block(els, pad + "    ", None)
        self.nloops = s2.nloops
        both = self.sub()
        both.assigned = s1.assigned + s2.assigned
        av = self.outer_assigned(both)
        if not av:
            raise ValueError(f"`if {st[1].strip()}` has no effect on the state")
        tup = self.tuple_of(av)
        lines += [f"{pad}let {tup} ← (if {c} then do"] + tl + [f"{pad}    pure {tup}", f"{pad}  else do"] + el + \
                 [f"{pad}    pure {tup}", f"{pad}  )"]
        self.assigned += av

    def do_while(self, st, lines, pad):
        body = X.rs_statements(st[2])
        self.nloops += 1
        k = self.nloops
        lname = f"{self.fn.lean}_loop" + (str(k) if k > 1 else "")
        fuel = FUEL.get(self.fn.lean, {}).get(k)
        if not fuel:
            raise ValueError(f"no fuel bound configured for loop {k}")
        s1 = self.sub()
        s1.assigned = []
        s1.sect = set()
        cl = []
        c = s1.cond(st[1], cl, "      ")
        bl = s1.block(body, "        ", None)
        self.nloops = s1.nloops
        sv = self.outer_assigned(s1)
        if not sv:
            raise ValueError("loop assigns nothing")
        txt = st[1] + " " + st[2]
        ro = [v for v in self.vars if v not in sv and re.search(r"\b%s\b" % re.escape(v), txt)]
        args = sv + ro
        sect = [s for s in SECTION if s in s1.sect]
        self.sect |= s1.sect
        call = " ".join([lname] + sect)
        d = [f"def {lname} " + " ".join(SECTION[s] for s in sect) + (" " if sect else "") + ": Nat → "
             + " → ".join(lean_ty(self.vars[v]) for v in args) + " → R " + self.tuple_type(sv),
             "  | 0, " + ", ".join("_" for _ in args) + " => .panic   -- out of fuel",
             "  | fuel + 1, " + ", ".join(args) + " => do"]
        d += cl + [f"      if {c} then do"] + bl + [f"        {call} fuel " + " ".join(args), f"      else pure {self.tuple_of(sv)}", ""]
        self.defs.append("\n".join(d))
        lines.append(f"{pad}let {self.tuple_of(sv)} ← {call} ({fuel}) " + " ".join(args))
        self.assigned += sv

    def tuple_type(self, vs):
        return lean_ty(self.vars[vs[0]]) if len(vs) == 1 else "(" + " × ".join(lean_ty(self.vars[v]) for v in vs) + ")"

    def do_match(self, scrut, arms_txt, pad):
        if scrut not in self.vars or self.vars[scrut] not in ENUMS:
            raise ValueError(f"match on {scrut}: not an enum value")
        en = self.vars[scrut]
        lines = [f"{pad}match {scrut} with"]
        seen = []
        for arm in X.split_args(arms_txt):
            arm = arm.strip()
            if not arm:
                continue
            m = re.match(r"^(?:%s|Self)::(\w+)\s*(?:\(([^)]*)\))?\s*=>\s*(.+)$" % en, arm, re.S)
            if not m:
                raise ValueError(f"match arm {arm!r}")
            variant = dict(ENUMS[en]).get(m.group(1))
            if variant is None:
                raise ValueError(f"unknown variant {m.group(1)}")
            binders = [b.strip() for b in m.group(2).split(",")] if m.group(2) else []
            if len(binders) != len(variant):
                raise ValueError(f"arm {m.group(1)}: {len(binders)} binders for {len(variant)} fields")
            s1 = self.sub()
            s1.assigned = []
            for b, ty in zip(binders, variant):
                if b != "_":
                    s1.vars[b] = ty
            body = m.group(3).strip()
            if body.startswith("{"):
                raise ValueError("match arm with a block body")
            bl = []
            v = s1.tail_value(body, bl, pad + "    ")
            bl.append(s1.ret_line(v, pad + "    "))
            lines.append(f"{pad}| .{m.group(1)}" + "".join(" " + b for b in binders) + " => do")
            lines += bl
            seen.append(m.group(1))
        if sorted(seen) != sorted(v for v, _ in ENUMS[en]):
            raise ValueError(f"match on {scrut}: arms {seen} do not cover {en} exactly once")
        return lines

    def stmt(self, t, lines, pad):
        if re.match(r"^debug_assert(_eq|_ne)?!\s*\(", t):
            return
        m = re.match(r"^(assert_eq|assert_ne|assert)!\s*\((.*)\)$", t, re.S)
        if m:
            args = [a.strip() for a in X.split_args(m.group(2))]
            if m.group(1) == "assert":
                c = self.cond(args[0], lines, pad)
                lines.append(f"{pad}Arith.assertTrue (decide ({c}))")
                return
            a, b = self.nat(parse(args[0]), lines, pad), self.nat(parse(args[1]), lines, pad)
            lines.append(f"{pad}{'Arith.assertEq' if m.group(1) == 'assert_eq' else 'RsPrim.assertNe'} {atom(a)} {atom(b)}")
            return
        m = re.match(r"^let\s+(mut\s+)?(\w+)\s*(?::\s*([^=]+?))?\s*=\s*(.+)$", t, re.S)
        if m and not X.split_top(m.group(4), "=="):
            name = m.group(2)
            v, ty = self.ex(parse(m.group(4)), lines, pad)
            if ty == "lit":
                ty = "Nat"
            if m.group(3):
                want = map_type(m.group(3), self.self_ty, self.fn.lean)[0]
                if want != ty:
                    raise ValueError(f"let {name}: declared {want}, initialiser is {ty}")
            if ty == "Platform":
                raise ValueError("let of a Platform")
            lines.append(f"{pad}let {name} := {v}")
            self.vars[name] = ty
            return
        sa = split_assign(t)
        if sa and not t.startswith("let "):
            lhs, op, rhs = sa
            root, path = self.place(parse(lhs))
            ty = self.place_type(root, path)
            pt = self.place_term(root, path)
            if op:
                r = self.typed(parse(rhs), ty, lines, pad, f"{lhs} {op}=")
                if ty == "Nat":
                    f = {"+": "Arith.cadd", "-": "Arith.csub", "*": "Arith.cmul", "/": "Arith.cdiv"}.get(op)
                elif ty == "UInt8":
                    f = {"+": "RsPrim.cadd8", "-": "RsPrim.csub8", "*": "RsPrim.cmul8"}.get(op)
                else:
                    f = None
                if not f:
                    raise ValueError(f"`{op}=` on {ty}")
                v = self.bind(lines, pad, f"{f} {pt} {atom(r)}")
                self.set_place(root, path, v, lines, pad)
                return
            if ty == "MutSlice":
                e = parse(rhs)
                if e[0] == "slice" and e[2] is not None and e[3] is None:
                    base = e[1]
                    if base[0] == "call" and norm_path(base[1], self.self_ty) == "core::mem::take" and len(base[2]) == 1:
                        base = base[2][0]
                    if self.place(base) == (root, path):
                        n = self.nat(e[2], lines, pad)
                        v = self.bind(lines, pad, f"RsPrim.MutSlice.advance {pt} {atom(n)}")
                        self.set_place(root, path, v, lines, pad)
                        return
                raise ValueError(f"assignment to a &mut [u8] that is not `&mut x[n..]` of itself: {t!r}")
            r = self.typed(parse(rhs), ty, lines, pad, f"assignment to {lhs}")
            self.set_place(root, path, r, lines, pad)
            return
        e = parse(t)
        if e[0] == "method":
            recv, name, args = e[1], e[2], e[3]
            if name == "copy_from_slice" and len(args) == 1:
                src = self.typed(args[0], "Bytes", lines, pad, "copy_from_slice source")
                self.write_window(recv, src, lines, pad)
                return
            if name == "clear" and not args:
                root, path = self.place(recv)
                if self.place_type(root, path) != "Stack":
                    raise ValueError("clear() on a non-ArrayVec")
                self.set_place(root, path, "[]", lines, pad)
                return
            save = self.tmp[0]
            r, tr = self.ex(recv, [], pad)
            self.tmp[0] = save
            if tr == "Platform" and name == "compress_in_place" and len(args) == 5:
                root, path = self.place(args[0])
                rhs = f"{self.use('compress_in_place')} {self.kernel_args(args, lines, pad, name)}"
                self.set_place(root, path, rhs, lines, pad)
                return
            if tr == "Platform" and name == "xof_many" and len(args) == 6:
                ka = self.kernel_args(args[:5], lines, pad, name)
                root, path, ty, w = self.window(args[5], lines, pad)
                if ty != "MutSlice":
                    raise ValueError("xof_many output is not a &mut [u8]")
                v = self.bind(lines, pad, f"RsPrim.MutSlice.write {self.place_term(root, path)} {w} ({self.use('xof_many')} {ka} {w}.len)")
                self.set_place(root, path, v, lines, pad)
                return
            key = f"{tr}.{name}"
            if key in FN:
                f = FN[key]
                lines2 = []
                terms, inouts = self.args_for(f, args, lines2, pad, recv=recv)
                lines += lines2
                if not inouts:
                    raise ValueError(f"call of {key} has no effect")
                places = [self.place(a) for _, a in inouts]
                names = [self.fresh() if p[1] else p[0] for p in places]
                pre = ["_"] if f.ret not in ("Unit", "SelfRef") else []
                lines.append(f"{pad}let {self.tuple_of(pre + names)} ← {self.call_fn(f, terms)}")
                for (root, path), n in zip(places, names):
                    if path:
                        self.set_place(root, path, n, lines, pad)
                    else:
                        self.assigned.append(root)
                return
        raise ValueError(f"statement {t!r} not understood")


# ------------------------------------------------------------------------------------------------
# one function


def translate_fn(lean, rel, impl_re, name, self_ty, doc):
    f = find_function(lean, rel, impl_re, name)
    consts = X.rust_consts()
    try:
        f.params = []     # (name, type tag, mode), including self
        vars_ = {}
        for p in X.split_args(f.params_txt):
            p = p.strip()
            if not p:
                continue
            if p in ("&self", "self"):
                f.params.append(("self", self_ty, "in"))
                vars_["self"] = self_ty
                continue
            if p == "&mut self":
                f.params.append(("self", self_ty, "inout"))
                vars_["self"] = self_ty
                continue
            m = re.match(r"^(?:mut\s+)?(\w+)\s*:\s*(.+)$", p, re.S)
            if not m:
                raise ValueError(f"parameter {p!r}")
            ty, mode = map_type(m.group(2), self_ty, lean)
            f.params.append((m.group(1), ty, mode))
            if mode != "drop":
                vars_[m.group(1)] = ty
            else:
                vars_[m.group(1)] = "Platform"
        rt = f.ret_txt
        if not rt:
            f.ret = "Unit"
        else:
            m = re.match(r"^->\s*(.+)$", rt, re.S)
            if not m:
                raise ValueError(f"return type {rt!r}")
            r = re.sub(r"\s+", "", m.group(1))
            if r in ("&mutSelf", "&mut" + (self_ty or "?")):
                f.ret = "SelfRef"
            else:
                f.ret = map_type(m.group(1), self_ty, lean)[0]
        inouts = [n for n, _, mode in f.params if mode == "inout"]
        if f.ret == "SelfRef" and "self" not in inouts:
            raise ValueError("returns &mut Self without taking &mut self")
        tr = Tr(f, self_ty, vars_, consts)
        tr.result = (f.ret, inouts)
        tr.assigned = []
        body = re.sub(r'"_*"', "__str", f.body)
        body = re.sub(r"::<[\w:\s]+>", "", body)          # turbofish (`hash_all_at_once::<SerialJoin>`)
        lines = tr.block(X.rs_statements(body), "  ", ("fn",))
    except X.TranslationBroken:
        raise
    except Exception as ex:
        broken(lean, str(ex))
    f.sect = set(tr.sect)
    parts = ([lean_ty(f.ret)] if f.ret not in ("Unit", "SelfRef") else []) + [lean_ty(dict((n, t) for n, t, _ in f.params)[v]) for v in inouts]
    f.ret_lean = "Unit" if not parts else (parts[0] if len(parts) == 1 else "(" + " × ".join(parts) + ")")
    sig = " ".join(SECTION[s] for s in SECTION if s in f.sect)
    ps = " ".join(f"({n} : {lean_ty(t)})" for n, t, mode in f.params if mode != "drop")
    out = list(tr.defs)
    out.append(f"/-- {doc} -/")
    out.append(f"def {lean} " + " ".join(x for x in (sig, ps) if x) + f" : R {f.ret_lean} := do")
    out += lines
    out.append("")
    FN[lean] = f
    return out


def gen_rs_state():
    STRUCTS.clear()
    ENUMS.clear()
    FN.clear()
    o = ["/- GENERATED by gen/ext_cs.py from /repo/src/lib.rs, src/hazmat.rs -- do not edit -/",
         "import B3.Prim", "import B3.Arith", "import B3.RsPrim", "import B3.Gen.Consts", "set_option linter.unusedVariables false", "namespace B3.Gen.RsState", "open B3", ""]
    for name in ["Output", "ChunkState", "OutputReader", "Hasher"]:
        parse_struct(LIB, name)
        o.append(f"/-- `struct {name}` of src/lib.rs" + (" (the `platform` field is dropped)" if name in DROPPED else "") + " -/")
        o.append(f"structure {name} where")
        for fn_, ty in STRUCTS[name]:
            o.append(f"  {fn_} : {lean_ty(ty)}")
        o.append("deriving DecidableEq")
        o.append("")
    parse_enum(HAZ, "Mode")
    o.append("/-- `enum Mode` of src/hazmat.rs -/")
    o.append("inductive Mode where")
    for v, tys in ENUMS["Mode"]:
        o.append(f"  | {v}" + "".join(f" (x{i} : {lean_ty(t)})" for i, t in enumerate(tys)))
    o.append("deriving DecidableEq")
    o.append("")
    IO, IC, IH, IR = r"\bimpl\s+Output\s*\{", r"\bimpl\s+ChunkState\s*\{", r"\bimpl\s+Hasher\s*\{", r"\bimpl\s+OutputReader\s*\{"
    IX, IM = r"\bimpl\s+HasherExt\s+for\s+Hasher\s*\{", r"\bimpl\s*(?:<[^>]*>)?\s*Mode\s*(?:<[^>]*>)?\s*\{"
    plan = [
        ("Output.chaining_value", LIB, IO, "chaining_value", "Output", "`Output::chaining_value`"),
        ("Output.root_hash", LIB, IO, "root_hash", "Output", "`Output::root_hash` (the `debug_assert_eq!(self.counter, 0)` is dropped)"),
        ("Output.root_output_block", LIB, IO, "root_output_block", "Output", "`Output::root_output_block`"),
        ("parent_node_output", LIB, None, "parent_node_output", None, "`parent_node_output`"),
        ("ChunkState.new", LIB, IC, "new", "ChunkState", "`ChunkState::new`"),
        ("ChunkState.count", LIB, IC, "count", "ChunkState", "`ChunkState::count`"),
        ("ChunkState.fill_buf", LIB, IC, "fill_buf", "ChunkState", "`ChunkState::fill_buf`: the new state and the rest of `input`"),
        ("ChunkState.start_flag", LIB, IC, "start_flag", "ChunkState", "`ChunkState::start_flag`"),
        ("ChunkState.update", LIB, IC, "update", "ChunkState", "`ChunkState::update` (the three `debug_assert`s are dropped)"),
        ("ChunkState.output", LIB, IC, "output", "ChunkState", "`ChunkState::output`"),
        ("OutputReader.new", LIB, IR, "new", "OutputReader", "`OutputReader::new`"),
        ("OutputReader.fill_one_block", LIB, IR, "fill_one_block", "OutputReader", "`OutputReader::fill_one_block`: the new reader and the advanced destination"),
        ("OutputReader.fill", LIB, IR, "fill", "OutputReader", "`OutputReader::fill`: the new reader and the destination (`done` = the bytes written when it returns with `cur` empty)"),
        ("Mode.key_words", HAZ, IM, "key_words", "Mode", "`hazmat::Mode::key_words`"),
        ("Mode.flags_byte", HAZ, IM, "flags_byte", "Mode", "`hazmat::Mode::flags_byte`"),
        ("hash_derive_key_context", HAZ, None, "hash_derive_key_context", None, "`hazmat::hash_derive_key_context` (`hash_all_at_once::<SerialJoin>` is the parameter)"),
        ("Hasher.new_internal", LIB, IH, "new_internal", "Hasher", "`Hasher::new_internal`"),
        ("Hasher.new", LIB, IH, "new", "Hasher", "`Hasher::new`"),
        ("Hasher.new_keyed", LIB, IH, "new_keyed", "Hasher", "`Hasher::new_keyed`"),
        ("Hasher.new_derive_key", LIB, IH, "new_derive_key", "Hasher", "`Hasher::new_derive_key`"),
        ("Hasher.reset", LIB, IH, "reset", "Hasher", "`Hasher::reset`"),
        ("Hasher.count", LIB, IH, "count", "Hasher", "`Hasher::count`"),
        ("Hasher.finalize", LIB, IH, "finalize", "Hasher", "`Hasher::finalize` (`self.final_output()` is the parameter)"),
        ("Hasher.finalize_xof", LIB, IH, "finalize_xof", "Hasher", "`Hasher::finalize_xof`"),
        ("Hasher.new_from_context_key", HAZ, IX, "new_from_context_key", "Hasher", "`HasherExt::new_from_context_key`"),
        ("Hasher.set_input_offset", HAZ, IX, "set_input_offset", "Hasher", "`HasherExt::set_input_offset`"),
        ("Hasher.finalize_non_root", HAZ, IX, "finalize_non_root", "Hasher", "`HasherExt::finalize_non_root`"),
        ("merge_subtrees_inner", HAZ, None, "merge_subtrees_inner", None, "`hazmat::merge_subtrees_inner`"),
        ("merge_subtrees_non_root", HAZ, None, "merge_subtrees_non_root", None, "`hazmat::merge_subtrees_non_root`"),
        ("merge_subtrees_root", HAZ, None, "merge_subtrees_root", None, "`hazmat::merge_subtrees_root`"),
        ("merge_subtrees_root_xof", HAZ, None, "merge_subtrees_root_xof", None, "`hazmat::merge_subtrees_root_xof`"),
    ]
    for lean, rel, impl_re, name, self_ty, doc in plan:
        o += translate_fn(lean, rel, impl_re, name, self_ty, doc)
    o.append("end B3.Gen.RsState")
    return "\n".join(o) + "\n"


ARTEFACTS = [("RsState.lean", A, gen_rs_state)]
