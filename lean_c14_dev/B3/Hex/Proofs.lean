/-
C14 — helper lemmas for B3.Hex.Props.  Core only.
-/
import B3.Hex.Model

namespace B3.Hex

/-! ## generalities -/

@[simp] theorem Outcome.ok_bind {ε α β : Type} (a : α) (f : α → Outcome ε β) :
    (Outcome.ok a : Outcome ε α).bind f = f a := rfl
@[simp] theorem Outcome.err_bind {ε α β : Type} (e : ε) (f : α → Outcome ε β) :
    (Outcome.err e : Outcome ε α).bind f = .err e := rfl
@[simp] theorem Outcome.panic_bind {ε α β : Type} (p : Panic) (f : α → Outcome ε β) :
    (Outcome.panic p : Outcome ε α).bind f = .panic p := rfl

/-- a statement about every byte follows from the statement about `UInt8.ofNat n` for `n : Fin 256`
    (which `decide` can enumerate) -/
theorem forall_byte {P : UInt8 → Prop} (h : ∀ n : Fin 256, P (UInt8.ofNat n.val)) : ∀ b : UInt8, P b := by
  intro b
  have := h ⟨b.toNat, b.toNat_lt⟩
  simpa using this

theorem forall_nibble {P : UInt8 → Prop} (h : ∀ n : Fin 16, P (UInt8.ofNat n.val)) :
    ∀ b : UInt8, b.toNat < 16 → P b := by
  intro b hb
  have := h ⟨b.toNat, hb⟩
  simpa using this

/-! ## hex digits -/

/-- value of a hex digit, `none` for every other byte -/
def digitVal? (b : UInt8) : Option UInt8 :=
  if 0x30 ≤ b ∧ b ≤ 0x39 then some (b - 0x30)
  else if 0x61 ≤ b ∧ b ≤ 0x66 then some (b - 0x61 + 10)
  else if 0x41 ≤ b ∧ b ≤ 0x46 then some (b - 0x41 + 10)
  else none

/-- `0-9a-fA-F` -/
def isHexDigit (b : UInt8) : Bool :=
  (0x30 ≤ b && b ≤ 0x39) || (0x61 ≤ b && b ≤ 0x66) || (0x41 ≤ b && b ≤ 0x46)

/-- `0-9a-f` -/
def isLowerHex (b : UInt8) : Bool := (0x30 ≤ b && b ≤ 0x39) || (0x61 ≤ b && b ≤ 0x66)

theorem hexVal_eq : ∀ b : UInt8, hexVal b =
    match digitVal? b with
    | some v => .ok v
    | none => .err (.invalidByte b) := by
  apply forall_byte; decide +kernel

theorem digitVal?_isSome : ∀ b : UInt8, (digitVal? b).isSome = isHexDigit b := by
  apply forall_byte; decide +kernel

theorem digitVal?_lt : ∀ b : UInt8, ∀ v, digitVal? b = some v → v.toNat < 16 := by
  apply forall_byte; decide +kernel


theorem cmul_cadd_nibbles : ∀ x : UInt8, x.toNat < 16 → ∀ y : UInt8, y.toNat < 16 →
    (cmul 16 x : Outcome HexError UInt8) = .ok (16 * x) ∧
    (cadd (16 * x) y : Outcome HexError UInt8) = .ok (16 * x + y) := by
  apply forall_nibble; intro n
  apply forall_nibble; revert n
  decide +kernel

/-- digit value with 0 for non-digits (only used where the byte is known to be a digit) -/
def dv (b : UInt8) : UInt8 := (digitVal? b).getD 0

/-- the two hex_val calls and the arithmetic of one loop iteration -/
theorem pair_eq (a b : UInt8) :
    ((hexVal a).bind fun va => (cmul 16 va).bind fun hi => (hexVal b).bind fun vb => cadd hi vb) =
    if isHexDigit a then
      if isHexDigit b then .ok (16 * dv a + dv b) else .err (.invalidByte b)
    else .err (.invalidByte a) := by
  rw [hexVal_eq a, hexVal_eq b, ← digitVal?_isSome a, ← digitVal?_isSome b]
  cases ha : digitVal? a with
  | none => simp
  | some x =>
    cases hb : digitVal? b with
    | none =>
      have := (cmul_cadd_nibbles x (digitVal?_lt a x ha) 0 (by decide)).1
      simp [this]
    | some y =>
      have := cmul_cadd_nibbles x (digitVal?_lt a x ha) y (digitVal?_lt b y hb)
      simp [this.1, this.2, dv, ha, hb]

end B3.Hex
