/-
C14 — helper lemmas for B3.Hex.Props.  Core only.
-/
import B3.Hex.Model

namespace B3.Hex

/-! ## generalities -/

@[simp] theorem Outcome.ok_bind {ε α β : Type} (a : α) (f : α → Outcome ε β) :
    (Outcome.ok a : Outcome ε α).bind f = f a := rfl
@[simp] theorem Outcome.err_bind {ε α β : Type} (e : ε) (f : α → Outcome ε β) :
    (Outcome.err e : Outcome ε α).bind f = .err e := rfl
@[simp] theorem Outcome.panic_bind {ε α β : Type} (p : Panic) (f : α → Outcome ε β) :
    (Outcome.panic p : Outcome ε α).bind f = .panic p := rfl

/-- a statement about every byte follows from the statement about `UInt8.ofNat n` for `n : Fin 256`
    (which `decide` can enumerate) -/
theorem forall_byte {P : UInt8 → Prop} (h : ∀ n : Fin 256, P (UInt8.ofNat n.val)) : ∀ b : UInt8, P b := by
  intro b
  have := h ⟨b.toNat, b.toNat_lt⟩
  simpa using this

theorem forall_nibble {P : UInt8 → Prop} (h : ∀ n : Fin 16, P (UInt8.ofNat n.val)) :
    ∀ b : UInt8, b.toNat < 16 → P b := by
  intro b hb
  have := h ⟨b.toNat, hb⟩
  simpa using this

/-! ## hex digits -/

/-- value of a hex digit, `none` for every other byte -/
def digitVal? (b : UInt8) : Option UInt8 :=
  if 0x30 ≤ b ∧ b ≤ 0x39 then some (b - 0x30)
  else if 0x61 ≤ b ∧ b ≤ 0x66 then some (b - 0x61 + 10)
  else if 0x41 ≤ b ∧ b ≤ 0x46 then some (b - 0x41 + 10)
  else none

/-- `0-9a-fA-F` -/
def isHexDigit (b : UInt8) : Bool :=
  (0x30 ≤ b && b ≤ 0x39) || (0x61 ≤ b && b ≤ 0x66) || (0x41 ≤ b && b ≤ 0x46)

/-- `0-9a-f` -/
def isLowerHex (b : UInt8) : Bool := (0x30 ≤ b && b ≤ 0x39) || (0x61 ≤ b && b ≤ 0x66)

theorem hexVal_eq : ∀ b : UInt8, hexVal b =
    match digitVal? b with
    | some v => .ok v
    | none => .err (.invalidByte b) := by
  apply forall_byte; decide +kernel

theorem digitVal?_isSome : ∀ b : UInt8, (digitVal? b).isSome = isHexDigit b := by
  apply forall_byte; decide +kernel

theorem digitVal?_lt : ∀ b : UInt8, ∀ v, digitVal? b = some v → v.toNat < 16 := by
  apply forall_byte; decide +kernel


theorem cmul_cadd_nibbles : ∀ x : UInt8, x.toNat < 16 → ∀ y : UInt8, y.toNat < 16 →
    (cmul 16 x : Outcome HexError UInt8) = .ok (16 * x) ∧
    (cadd (16 * x) y : Outcome HexError UInt8) = .ok (16 * x + y) := by
  apply forall_nibble; intro n
  apply forall_nibble; revert n
  decide +kernel

/-- digit value with 0 for non-digits (only used where the byte is known to be a digit) -/
def dv (b : UInt8) : UInt8 := (digitVal? b).getD 0

/-- the two hex_val calls and the arithmetic of one loop iteration -/
theorem pair_eq (a b : UInt8) :
    ((hexVal a).bind fun va => (cmul 16 va).bind fun hi => (hexVal b).bind fun vb => cadd hi vb) =
    if isHexDigit a then
      if isHexDigit b then .ok (16 * dv a + dv b) else .err (.invalidByte b)
    else .err (.invalidByte a) := by
  rw [hexVal_eq a, hexVal_eq b, ← digitVal?_isSome a, ← digitVal?_isSome b]
  cases ha : digitVal? a with
  | none => simp
  | some x =>
    cases hb : digitVal? b with
    | none =>
      have := (cmul_cadd_nibbles x (digitVal?_lt a x ha) 0 (by decide)).1
      simp [this]
    | some y =>
      have := cmul_cadd_nibbles x (digitVal?_lt a x ha) y (digitVal?_lt b y hb)
      simp [this.1, this.2, dv, ha, hb]

/-! ## from_hex: the loop and its closed form -/

def pairVal (s : List UInt8) (k : Nat) : UInt8 := 16 * dv (s[2 * k]?.getD 0) + dv (s[2 * k + 1]?.getD 0)

def fill (s : List UInt8) (i : Nat) (acc : Vector UInt8 32) : Vector UInt8 32 :=
  Vector.ofFn fun k => if k.val < i then acc[k] else pairVal s k.val

theorem Outcome.bind_assoc {ε α β γ : Type} (x : Outcome ε α) (f : α → Outcome ε β) (g : β → Outcome ε γ) :
    (x.bind f).bind g = x.bind fun a => (f a).bind g := by
  cases x <;> rfl

theorem idx_ok {ε : Type} (s : List UInt8) (i : Nat) (h : i < s.length) : (idx s i : Outcome ε UInt8) = .ok s[i] := by
  simp [idx, h]

theorem body_eq (s : List UInt8) (hs : s.length = 64) (i : Nat) (hi : i < 32) (acc : Vector UInt8 32) :
    fromHexBody s i acc =
      if isHexDigit (s[2 * i]?.getD 0) then
        if isHexDigit (s[2 * i + 1]?.getD 0) then .ok (acc.set i (pairVal s i) hi)
        else .err (.invalidByte (s[2 * i + 1]?.getD 0))
      else .err (.invalidByte (s[2 * i]?.getD 0)) := by
  have h1 : 2 * i < s.length := by omega
  have h2 : 2 * i + 1 < s.length := by omega
  have hm : (umul 2 i : Outcome HexError Nat) = .ok (2 * i) := by
    have : 2 * i < 2 ^ 64 := by omega
    simp [umul, this]
  have ha : (uadd (2 * i) 1 : Outcome HexError Nat) = .ok (2 * i + 1) := by
    have : 2 * i + 1 < 2 ^ 64 := by omega
    simp [uadd, this]
  have g1 : s[2 * i]?.getD 0 = s[2 * i] := by simp [h1]
  have g2 : s[2 * i + 1]?.getD 0 = s[2 * i + 1] := by simp [h2]
  have P := pair_eq s[2 * i] s[2 * i + 1]
  have assoc : fromHexBody s i acc =
      ((hexVal s[2 * i]).bind fun va => (cmul 16 va).bind fun hi => (hexVal s[2 * i + 1]).bind fun vb =>
        cadd hi vb).bind (setIdx acc i) := by
    unfold fromHexBody
    simp only [hm, ha, Outcome.ok_bind, idx_ok s _ h1, idx_ok s _ h2, Outcome.bind_assoc]
  rw [assoc, P, g1, g2]
  by_cases ca : isHexDigit s[2 * i] = true
  · by_cases cb : isHexDigit s[2 * i + 1] = true
    · simp [ca, cb, setIdx, hi, pairVal, h1, h2]
    · simp [ca, cb]
  · simp [ca]

def notHex (b : UInt8) : Bool := !isHexDigit b

theorem fill_full (s : List UInt8) (acc : Vector UInt8 32) : fill s 32 acc = acc := by
  apply Vector.ext; intro k hk
  simp [fill]

theorem fill_step (s : List UInt8) (i : Nat) (hi : i < 32) (acc : Vector UInt8 32) :
    fill s (i + 1) (acc.set i (pairVal s i) hi) = fill s i acc := by
  apply Vector.ext; intro k hk
  simp only [fill, Vector.getElem_ofFn]
  by_cases h1 : k < i
  · have : k < i + 1 := by omega
    have : ¬ i = k := by omega
    simp [*]
  · by_cases h2 : k = i
    · subst h2; simp
    · have : ¬ k < i + 1 := by omega
      simp [*]

theorem loop_eq (s : List UInt8) (hs : s.length = 64) : ∀ n i acc, i + n = 32 →
    forCount (fromHexBody s) n i acc =
      match (s.drop (2 * i)).find? notHex with
      | some b => .err (.invalidByte b)
      | none => .ok (fill s i acc) := by
  intro n
  induction n with
  | zero =>
    intro i acc h
    have : i = 32 := by omega
    subst this
    have : s.drop (2 * 32) = [] := by simp [hs]
    simp [forCount, this, fill_full]
  | succ n ih =>
    intro i acc h
    have hi : i < 32 := by omega
    have h1 : 2 * i < s.length := by omega
    have h2 : 2 * i + 1 < s.length := by omega
    have hd : s.drop (2 * i) = s[2 * i] :: s[2 * i + 1] :: s.drop (2 * (i + 1)) := by
      rw [List.drop_eq_getElem_cons h1, List.drop_eq_getElem_cons h2]
      have : 2 * i + 1 + 1 = 2 * (i + 1) := by omega
      rw [this]
    rw [forCount, body_eq s hs i hi, hd]
    have g1 : s[2 * i]?.getD 0 = s[2 * i] := by simp [h1]
    have g2 : s[2 * i + 1]?.getD 0 = s[2 * i + 1] := by simp [h2]
    rw [g1, g2]
    by_cases ca : isHexDigit s[2 * i] = true
    · by_cases cb : isHexDigit s[2 * i + 1] = true
      · simp only [ca, cb, if_true, Outcome.ok_bind, List.find?_cons, notHex, Bool.not_true]
        rw [ih (i + 1) _ (by omega), fill_step]
      · simp [ca, cb, notHex]
    · simp [ca, notHex]

theorem fromHex_eq (s : List UInt8) :
    fromHex s =
      if s.length ≠ 64 then .err (.invalidLen s.length)
      else match s.find? notHex with
        | some b => .err (.invalidByte b)
        | none => .ok ⟨Vector.ofFn fun k => pairVal s k.val⟩ := by
  unfold fromHex
  by_cases hl : s.length = 64
  · have := loop_eq s hl 32 0 (Vector.replicate 32 0) (by omega)
    simp only [OUT_LEN, hl, forRange, Nat.sub_zero, this]
    simp only [Nat.mul_zero, List.drop_zero]
    cases s.find? notHex with
    | some b => simp
    | none => simp [fill, Hash.ofArray, Hash.fromBytes]
  · simp [OUT_LEN, hl]

/-! ## to_hex -/

theorem table_lookup : ∀ b : UInt8,
    (idx TABLE (b >>> 4).toNat : Outcome Empty UInt8) = .ok (lowerDigit (b >>> 4)) ∧
    (idx TABLE (b &&& 0xf).toNat : Outcome Empty UInt8) = .ok (lowerDigit (b &&& 0xf)) ∧
    charUtf8 (lowerDigit (b >>> 4)) = [lowerDigit (b >>> 4)] ∧
    charUtf8 (lowerDigit (b &&& 0xf)) = [lowerDigit (b &&& 0xf)] := by
  apply forall_byte; decide +kernel

theorem digits_of_byte : ∀ b : UInt8,
    isLowerHex (lowerDigit (b >>> 4)) = true ∧ isLowerHex (lowerDigit (b &&& 0xf)) = true ∧
    (16 : UInt8) * dv (lowerDigit (b >>> 4)) + dv (lowerDigit (b &&& 0xf)) = b := by
  apply forall_byte; decide +kernel

theorem isLowerHex_isHexDigit : ∀ b : UInt8, isLowerHex b = true → isHexDigit b = true := by
  apply forall_byte; decide +kernel

def hexPairs (l : List UInt8) : List UInt8 :=
  l.flatMap fun (b : UInt8) => [lowerDigit (b >>> 4), lowerDigit (b &&& 0xf)]

theorem hexPairs_cons (b : UInt8) (l : List UInt8) :
    hexPairs (b :: l) = lowerDigit (b >>> 4) :: lowerDigit (b &&& 0xf) :: hexPairs l := by
  simp [hexPairs]

theorem hexPairs_length (l : List UInt8) : (hexPairs l).length = 2 * l.length := by
  induction l with
  | nil => rfl
  | cons b l ih => rw [hexPairs_cons]; simp [ih]; omega

theorem hexPairs_lower (l : List UInt8) : ∀ c ∈ hexPairs l, isLowerHex c = true := by
  induction l with
  | nil => intro c hc; simp [hexPairs] at hc
  | cons b l ih =>
    intro c hc
    rw [hexPairs_cons] at hc
    have := digits_of_byte b
    simp only [List.mem_cons] at hc
    rcases hc with rfl | rfl | hc
    · exact this.1
    · exact this.2.1
    · exact ih c hc

theorem hexPairs_getElem? (l : List UInt8) : ∀ k,
    (hexPairs l)[2 * k]? = l[k]?.map (fun (b : UInt8) => lowerDigit (b >>> 4)) ∧
    (hexPairs l)[2 * k + 1]? = l[k]?.map (fun (b : UInt8) => lowerDigit (b &&& 0xf)) := by
  induction l with
  | nil => intro k; simp [hexPairs]
  | cons b l ih =>
    intro k
    rw [hexPairs_cons]
    cases k with
    | zero => simp
    | succ k =>
      have e1 : 2 * (k + 1) = (2 * k) + 1 + 1 := by omega
      rw [e1]
      simp only [List.getElem?_cons_succ]
      exact ih k

theorem toHexLoop_eq (l : List UInt8) : ∀ s : List UInt8, s.length + 2 * l.length ≤ 64 →
    toHexLoop l s = .ok (s ++ hexPairs l) := by
  induction l with
  | nil => intro s _; simp [toHexLoop, hexPairs]
  | cons b l ih =>
    intro s hs
    have T := table_lookup b
    simp only [List.length_cons] at hs
    have p1 : (pushChar s (lowerDigit (b >>> 4)) : Outcome Empty _) = .ok (s ++ [lowerDigit (b >>> 4)]) := by
      have : s.length + 1 ≤ 2 * 32 := by omega
      simp [pushChar, T.2.2.1, OUT_LEN, this]
    have p2 : (pushChar (s ++ [lowerDigit (b >>> 4)]) (lowerDigit (b &&& 0xf)) : Outcome Empty _) =
        .ok (s ++ [lowerDigit (b >>> 4)] ++ [lowerDigit (b &&& 0xf)]) := by
      have : s.length + 1 + 1 ≤ 2 * 32 := by omega
      simp [pushChar, T.2.2.2, OUT_LEN, this]
    rw [toHexLoop, T.1, Outcome.ok_bind, p1, Outcome.ok_bind, T.2.1, Outcome.ok_bind, p2, Outcome.ok_bind,
      ih _ (by simp; omega), hexPairs_cons]
    simp

theorem toHex_eq (h : Hash) : toHex h = hexPairs h.bytes.toList := rfl

theorem toHexO_eq (h : Hash) : toHexO h = .ok (toHex h) := by
  have := toHexLoop_eq h.bytes.toList [] (by simp)
  simpa [toHexO, toHex_eq] using this

theorem toHex_length (h : Hash) : (toHex h).length = 64 := by
  simp [toHex_eq, hexPairs_length]

theorem toHex_find (h : Hash) : (toHex h).find? notHex = none := by
  rw [List.find?_eq_none]
  intro c hc
  have := isLowerHex_isHexDigit c (hexPairs_lower _ c hc)
  simp [notHex, this]

theorem toHex_pairVal (h : Hash) (k : Nat) (hk : k < 32) : pairVal (toHex h) k = h.bytes[k] := by
  have G := hexPairs_getElem? h.bytes.toList k
  have hk' : k < h.bytes.toList.length := by simp [hk]
  have e : h.bytes.toList[k]? = some h.bytes[k] := by
    rw [List.getElem?_eq_getElem hk']; simp
  rw [e] at G
  simp only [pairVal, toHex_eq, G.1, G.2, Option.map_some, Option.getD_some]
  exact (digits_of_byte _).2.2

theorem fromHex_toHex (h : Hash) : fromHex (toHex h) = .ok h := by
  rw [fromHex_eq, toHex_find]
  have hl : ¬ (toHex h).length ≠ 64 := by simp [toHex_length]
  rw [if_neg hl]
  have : (Vector.ofFn fun k : Fin 32 => pairVal (toHex h) k.val) = h.bytes := by
    apply Vector.ext; intro k hk
    simp [toHex_pairVal h k hk]
  simp only [this]
end B3.Hex
