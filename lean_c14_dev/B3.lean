import B3.Hex.Model
import B3.Hex.Drv
