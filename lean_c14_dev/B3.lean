import B3.Hex.Model
import B3.Hex.Proofs
import B3.Hex.Props
import B3.Hex.Drv
