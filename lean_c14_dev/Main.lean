import B3.Hex.Drv

partial def loop (hin hout : IO.FS.Stream) : IO Unit := do
  let line ← hin.getLine
  if line.isEmpty then return
  let l := String.ofList (line.toList.reverse.dropWhile (· == '\n')).reverse
  let toks := l.splitOn " "
  match B3.Hex.stepLine toks with
  | some s => hout.putStrLn s
  | none => hout.putStrLn "bad-op"
  loop hin hout

def main : IO Unit := do
  let hin ← IO.getStdin
  let hout ← IO.getStdout
  loop hin hout
  hout.flush
