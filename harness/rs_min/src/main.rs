//! Line-protocol driver over the `blake3` crate built without any optional feature (see Cargo.toml).
//! One op per input line, one answer per line; ops outside the subset answer `unsupported`
//! (the comparison skips those), malformed ops `bad-op`, panics `PANIC`.

use blake3::hazmat::{self, HasherExt, Mode};
use std::collections::HashMap;
use std::io::{BufRead, Write};
use std::panic::{catch_unwind, AssertUnwindSafe};

fn hex(b: &[u8]) -> String {
    let mut s = String::with_capacity(b.len() * 2);
    for x in b {
        s.push_str(&format!("{:02x}", x));
    }
    s
}

fn unhex(s: &str) -> Option<Vec<u8>> {
    if s == "-" {
        return Some(vec![]);
    }
    if s.len() % 2 != 0 {
        return None;
    }
    let b = s.as_bytes();
    let mut out = Vec::with_capacity(b.len() / 2);
    for i in (0..b.len()).step_by(2) {
        let h = (b[i] as char).to_digit(16)?;
        let l = (b[i + 1] as char).to_digit(16)?;
        out.push((h * 16 + l) as u8);
    }
    Some(out)
}

fn pat(n: usize, seed: u64) -> Vec<u8> {
    let mut s = seed;
    let mut v = Vec::with_capacity(n);
    for _ in 0..n {
        s = s.wrapping_mul(6364136223846793005).wrapping_add(1442695040888963407);
        v.push((s >> 56) as u8);
    }
    v
}

fn parse_data(t: &[&str]) -> Option<(Vec<u8>, usize)> {
    match t.first()? {
        &"pat" => Some((pat(t.get(1)?.parse().ok()?, t.get(2)?.parse().ok()?), 3)),
        &"pats" => {
            let n: usize = t.get(1)?.parse().ok()?;
            let skip: usize = t.get(3)?.parse().ok()?;
            let mut v = pat(n + skip, t.get(2)?.parse().ok()?);
            v.drain(..skip);
            Some((v, 4))
        }
        &"hex" => Some((unhex(t.get(1)?)?, 2)),
        _ => None,
    }
}

#[derive(Clone)]
enum ModeArg {
    Hash,
    Keyed([u8; 32]),
    Derive(Vec<u8>),
}

fn parse_mode(t: &[&str]) -> Option<(ModeArg, usize)> {
    match t.first()? {
        &"hash" => Some((ModeArg::Hash, 1)),
        &"keyed" => Some((ModeArg::Keyed(unhex(t.get(1)?)?.try_into().ok()?), 2)),
        &"derive" => Some((ModeArg::Derive(unhex(t.get(1)?)?), 2)),
        _ => None,
    }
}

fn new_hasher(m: &ModeArg) -> Option<blake3::Hasher> {
    Some(match m {
        ModeArg::Hash => blake3::Hasher::new(),
        ModeArg::Keyed(k) => blake3::Hasher::new_keyed(k),
        ModeArg::Derive(c) => blake3::Hasher::new_derive_key(std::str::from_utf8(c).ok()?),
    })
}

fn hz_mode<'a>(m: &'a ModeArg, ck: &'a mut [u8; 32]) -> Option<Mode<'a>> {
    Some(match m {
        ModeArg::Hash => Mode::Hash,
        ModeArg::Keyed(k) => Mode::KeyedHash(k),
        ModeArg::Derive(c) => {
            *ck = hazmat::hash_derive_key_context(std::str::from_utf8(c).ok()?);
            Mode::DeriveKeyMaterial(ck)
        }
    })
}

#[derive(Default)]
struct St {
    hs: HashMap<String, blake3::Hasher>,
    xs: HashMap<String, blake3::OutputReader>,
    vs: HashMap<String, [u8; 32]>,
}

fn step(st: &mut St, t: &[&str]) -> Option<String> {
    let ok = Some("ok".to_string());
    match t {
        ["H", "new", r, rest @ ..] => {
            let (m, n) = parse_mode(rest)?;
            if n != rest.len() {
                return None;
            }
            st.hs.insert(r.to_string(), new_hasher(&m)?);
            ok
        }
        ["H", "newck", r, ck] => {
            let k: [u8; 32] = unhex(ck)?.try_into().ok()?;
            st.hs.insert(r.to_string(), blake3::Hasher::new_from_context_key(&k));
            ok
        }
        ["H", "upd", r, rest @ ..] => {
            let (d, n) = parse_data(rest)?;
            if n != rest.len() {
                return None;
            }
            st.hs.get_mut(*r)?.update(&d);
            ok
        }
        ["H", "fin", r] => Some(hex(st.hs.get(*r)?.finalize().as_bytes())),
        ["H", "xof", r, x] => {
            let rd = st.hs.get(*r)?.finalize_xof();
            st.xs.insert(x.to_string(), rd);
            ok
        }
        ["H", "cnt", r] => Some(st.hs.get(*r)?.count().to_string()),
        ["H", "clone", r, r2] => {
            let h = st.hs.get(*r)?.clone();
            st.hs.insert(r2.to_string(), h);
            ok
        }
        ["H", "clonefrom", src, dst] => {
            let s = st.hs.get(*src)?.clone();
            st.hs.get_mut(*dst)?.clone_from(&s);
            ok
        }
        ["H", "reset", r] => {
            st.hs.get_mut(*r)?.reset();
            ok
        }
        ["H", "off", r, o] => {
            st.hs.get_mut(*r)?.set_input_offset(o.parse().ok()?);
            ok
        }
        ["H", "cvnr", r] => Some(hex(&st.hs.get(*r)?.finalize_non_root())),
        ["H", "cvnr", r, v] => {
            let cv = st.hs.get(*r)?.finalize_non_root();
            st.vs.insert(v.to_string(), cv);
            Some(hex(&cv))
        }
        ["X", "fill", x, n] => {
            let mut buf = vec![0u8; n.parse().ok()?];
            st.xs.get_mut(*x)?.fill(&mut buf);
            Some(hex(&buf))
        }
        ["X", "pos", x] => Some(st.xs.get(*x)?.position().to_string()),
        ["X", "setpos", x, p] => {
            st.xs.get_mut(*x)?.set_position(p.parse().ok()?);
            ok
        }
        ["X", "clone", x, x2] => {
            let r = st.xs.get(*x)?.clone();
            st.xs.insert(x2.to_string(), r);
            ok
        }
        ["O", "hash", rest @ ..] => {
            let (m, n) = parse_mode(rest)?;
            let (d, _) = parse_data(&rest[n..])?;
            Some(match m {
                ModeArg::Hash => hex(blake3::hash(&d).as_bytes()),
                ModeArg::Keyed(k) => hex(blake3::keyed_hash(&k, &d).as_bytes()),
                ModeArg::Derive(c) => hex(&blake3::derive_key(std::str::from_utf8(&c).ok()?, &d)),
            })
        }
        ["Z", "merge", kind, rest @ ..] => {
            let (m, n) = parse_mode(rest)?;
            let l: [u8; 32] = unhex(rest.get(n)?)?.try_into().ok()?;
            let r: [u8; 32] = unhex(rest.get(n + 1)?)?.try_into().ok()?;
            let mut ck = [0u8; 32];
            let mode = hz_mode(&m, &mut ck)?;
            match *kind {
                "nonroot" => Some(hex(&hazmat::merge_subtrees_non_root(&l, &r, mode))),
                "root" => Some(hex(hazmat::merge_subtrees_root(&l, &r, mode).as_bytes())),
                "rootxof" => {
                    let x = rest.get(n + 2)?;
                    st.xs.insert(x.to_string(), hazmat::merge_subtrees_root_xof(&l, &r, mode));
                    ok
                }
                _ => None,
            }
        }
        // everything else (platform override hook, std::io entry points, rayon, mmap, traits, serde, zeroize, kernels ...)
        [fam, ..] if ["P", "H", "X", "O", "Z", "K", "R", "G", "T", "D", "E"].contains(fam) => Some("unsupported".into()),
        _ => None,
    }
}

fn main() {
    std::panic::set_hook(Box::new(|_| {}));
    let stdin = std::io::stdin();
    let stdout = std::io::stdout();
    let mut out = std::io::BufWriter::new(stdout.lock());
    let mut st = St::default();
    for line in stdin.lock().lines() {
        let line = match line {
            Ok(l) => l,
            Err(_) => break,
        };
        let mut toks: Vec<&str> = line.split(' ').filter(|s| !s.is_empty()).collect();
        if toks.first() == Some(&"NR") {
            toks.remove(0); // this driver never restores a register after a panic
        }
        let res = catch_unwind(AssertUnwindSafe(|| step(&mut st, &toks)));
        let s = match res {
            Ok(Some(s)) => s,
            Ok(None) => "bad-op".to_string(),
            Err(_) => "PANIC".to_string(),
        };
        let _ = writeln!(out, "{}", s);
    }
    let _ = out.flush();
}
