/* Line-protocol driver for the BLAKE3 C library in /repo/c (see ../PROTOCOL.md, "C library ops").
 *
 * One op per stdin line, exactly one output line per op, output flushed at end of input.
 * See README.md for the list of ops, the guard page / canary / trampoline machinery and the
 * deviations from PROTOCOL.md.
 */
#define _GNU_SOURCE
#include <errno.h>
#include <pthread.h>
#include <sched.h>
#include <setjmp.h>
#include <signal.h>
#include <stdatomic.h>
#include <stdbool.h>
#include <stdint.h>
#include <stdio.h>
#include <stdlib.h>
#include <string.h>
#include <sys/mman.h>
#include <unistd.h>

#pragma GCC diagnostic push
#pragma GCC diagnostic ignored "-Wunused-function"
#pragma GCC diagnostic ignored "-Wunused-variable"
#pragma GCC diagnostic ignored "-Wunused-const-variable"
#include "blake3.h"
#include "blake3_impl.h"
#pragma GCC diagnostic pop

#include "tramp.h"

/* ------------------------------------------------------------------------------------------- */
/* symbols of the code under test                                                               */

/* blake3_dispatch.c, -DBLAKE3_TESTING: `ATOMIC_INT g_cpu_features` with ATOMIC_INT = _Atomic int
 * whenever <stdatomic.h> exists (it does here).  Bits: see enum cpu_feature in blake3_dispatch.c;
 * the enum is private to that file, so the values are repeated here; `C feat detect` followed by
 * `C featmask` shows what the library's own detection produces next to the harness's idea. */
extern _Atomic int g_cpu_features;
enum {
  CF_SSE2 = 1 << 0,
  CF_SSSE3 = 1 << 1,
  CF_SSE41 = 1 << 2,
  CF_AVX = 1 << 3,
  CF_AVX2 = 1 << 4,
  CF_AVX512F = 1 << 5,
  CF_AVX512VL = 1 << 6,
  CF_UNDEFINED = 1 << 30
};

/* Second copy of blake3.c, compiled with -DBLAKE3_USE_TBB; every global it defines carries the
 * prefix tbb_ (see Makefile).  It calls the un-prefixed join seam, which this file implements. */
void tbb_blake3_hasher_update_tbb(blake3_hasher *self, const void *input, size_t input_len);
size_t tbb_blake3_compress_subtree_wide(const uint8_t *input, size_t input_len,
                                        const uint32_t key[8], uint64_t chunk_counter,
                                        uint8_t flags, uint8_t *out, bool use_tbb);
void blake3_compress_subtree_wide_join_tbb(const uint32_t key[8], uint8_t flags, bool use_tbb,
                                           const uint8_t *l_input, size_t l_input_len,
                                           uint64_t l_chunk_counter, uint8_t *l_cvs, size_t *l_n,
                                           const uint8_t *r_input, size_t r_input_len,
                                           uint64_t r_chunk_counter, uint8_t *r_cvs, size_t *r_n);

/* Kernel flavours.  Everything is declared weak: a kernel that a flavour does not define is a
 * NULL pointer and reported as `unsupported` (`CK list` shows what was linked). */
#define MSABI __attribute__((ms_abi))
#define SYSV
#define KDECL(ABI, NAME)                                                                         \
  ABI void blake3_compress_in_place_##NAME(uint32_t cv[8], const uint8_t block[64],              \
                                           uint8_t block_len, uint64_t counter, uint8_t flags)   \
      __attribute__((weak));                                                                     \
  ABI void blake3_compress_xof_##NAME(const uint32_t cv[8], const uint8_t block[64],             \
                                      uint8_t block_len, uint64_t counter, uint8_t flags,        \
                                      uint8_t out[64]) __attribute__((weak));                    \
  ABI void blake3_hash_many_##NAME(const uint8_t *const *inputs, size_t num_inputs,              \
                                   size_t blocks, const uint32_t key[8], uint64_t counter,       \
                                   bool increment_counter, uint8_t flags, uint8_t flags_start,   \
                                   uint8_t flags_end, uint8_t *out) __attribute__((weak));       \
  ABI void blake3_xof_many_##NAME(const uint32_t cv[8], const uint8_t block[64],                 \
                                  uint8_t block_len, uint64_t counter, uint8_t flags,            \
                                  uint8_t *out, size_t outblocks) __attribute__((weak));
#define KDECL_PFX(ABI, PFX, NAME)                                                                \
  ABI void PFX##blake3_compress_in_place_##NAME(uint32_t cv[8], const uint8_t block[64],         \
                                                uint8_t block_len, uint64_t counter,             \
                                                uint8_t flags) __attribute__((weak));            \
  ABI void PFX##blake3_compress_xof_##NAME(const uint32_t cv[8], const uint8_t block[64],        \
                                           uint8_t block_len, uint64_t counter, uint8_t flags,   \
                                           uint8_t out[64]) __attribute__((weak));               \
  ABI void PFX##blake3_hash_many_##NAME(const uint8_t *const *inputs, size_t num_inputs,         \
                                        size_t blocks, const uint32_t key[8], uint64_t counter,  \
                                        bool increment_counter, uint8_t flags,                   \
                                        uint8_t flags_start, uint8_t flags_end, uint8_t *out)    \
      __attribute__((weak));                                                                     \
  ABI void PFX##blake3_xof_many_##NAME(const uint32_t cv[8], const uint8_t block[64],            \
                                       uint8_t block_len, uint64_t counter, uint8_t flags,       \
                                       uint8_t *out, size_t outblocks) __attribute__((weak));

KDECL(SYSV, portable)
KDECL(SYSV, sse2)
KDECL(SYSV, sse41)
KDECL(SYSV, avx2)
KDECL(SYSV, avx512)
KDECL_PFX(SYSV, ci_, sse2)
KDECL_PFX(SYSV, ci_, sse41)
KDECL_PFX(SYSV, ci_, avx2)
KDECL_PFX(SYSV, ci_, avx512)
#ifndef NO_WIN_ASM
KDECL_PFX(MSABI, win_, sse2)
KDECL_PFX(MSABI, win_, sse41)
KDECL_PFX(MSABI, win_, avx2)
KDECL_PFX(MSABI, win_, avx512)
#endif

enum { LV_PORTABLE, LV_SSE2, LV_SSE41, LV_AVX2, LV_AVX512 };
enum { ABI_SYSV, ABI_WIN64 };

typedef struct {
  const char *name;
  int abi;
  int level;
  void *cip, *cxof, *hmany, *xofmany;
} flavour_t;

#define FL(STR, ABI, LV, SYM)                                                                    \
  {                                                                                              \
    STR, ABI, LV, (void *)blake3_compress_in_place_##SYM, (void *)blake3_compress_xof_##SYM,     \
        (void *)blake3_hash_many_##SYM, (void *)blake3_xof_many_##SYM                            \
  }
#define FLP(STR, ABI, LV, PFX, SYM)                                                              \
  {                                                                                              \
    STR, ABI, LV, (void *)PFX##blake3_compress_in_place_##SYM,                                   \
        (void *)PFX##blake3_compress_xof_##SYM, (void *)PFX##blake3_hash_many_##SYM,             \
        (void *)PFX##blake3_xof_many_##SYM                                                       \
  }

static const flavour_t FLAVOURS[] = {
    FL("portable", ABI_SYSV, LV_PORTABLE, portable),
    FL("sse2_asm", ABI_SYSV, LV_SSE2, sse2),
    FL("sse41_asm", ABI_SYSV, LV_SSE41, sse41),
    FL("avx2_asm", ABI_SYSV, LV_AVX2, avx2),
    FL("avx512_asm", ABI_SYSV, LV_AVX512, avx512),
    FLP("sse2_c", ABI_SYSV, LV_SSE2, ci_, sse2),
    FLP("sse41_c", ABI_SYSV, LV_SSE41, ci_, sse41),
    FLP("avx2_c", ABI_SYSV, LV_AVX2, ci_, avx2),
    FLP("avx512_c", ABI_SYSV, LV_AVX512, ci_, avx512),
#ifndef NO_WIN_ASM
    FLP("win_sse2_asm", ABI_WIN64, LV_SSE2, win_, sse2),
    FLP("win_sse41_asm", ABI_WIN64, LV_SSE41, win_, sse41),
    FLP("win_avx2_asm", ABI_WIN64, LV_AVX2, win_, avx2),
    FLP("win_avx512_asm", ABI_WIN64, LV_AVX512, win_, avx512),
#endif
};
#define NFLAVOURS (sizeof FLAVOURS / sizeof FLAVOURS[0])

static bool cpu_has(int level) {
  __builtin_cpu_init();
  if (level >= LV_SSE2 && !__builtin_cpu_supports("sse2")) return false;
  if (level >= LV_SSE41 && !(__builtin_cpu_supports("ssse3") && __builtin_cpu_supports("sse4.1")))
    return false;
  if (level >= LV_AVX2 && !(__builtin_cpu_supports("avx") && __builtin_cpu_supports("avx2")))
    return false;
  if (level >= LV_AVX512 &&
      !(__builtin_cpu_supports("avx512f") && __builtin_cpu_supports("avx512vl")))
    return false;
  return true;
}

/* ------------------------------------------------------------------------------------------- */
/* sanitizer hooks: in the asan/tsan builds a report sets a flag which the op prints as ` SAN`   */

static atomic_int g_san_reports;
void __asan_on_error(void);
void __asan_on_error(void) { atomic_fetch_add(&g_san_reports, 1); }
void __ubsan_on_report(void);
void __ubsan_on_report(void) { atomic_fetch_add(&g_san_reports, 1); }
void __tsan_on_report(void *rep);
void __tsan_on_report(void *rep) {
  (void)rep;
  atomic_fetch_add(&g_san_reports, 1);
}
const char *__asan_default_options(void);
const char *__asan_default_options(void) {
  return "halt_on_error=0:detect_leaks=0:handle_segv=0:handle_sigbus=0:handle_abort=0:"
         "handle_sigill=0:handle_sigfpe=0:use_sigaltstack=0:allow_user_segv_handler=1:"
         "detect_stack_use_after_return=0";
}
const char *__ubsan_default_options(void);
const char *__ubsan_default_options(void) { return "halt_on_error=0:print_stacktrace=1"; }
const char *__tsan_default_options(void);
const char *__tsan_default_options(void) { return "halt_on_error=0:report_signal_unsafe=0"; }

/* ------------------------------------------------------------------------------------------- */
/* fault containment                                                                            */

typedef struct tnode {
  atomic_int live_children; /* threads started by this thread that have not finished yet */
  struct tnode *parent;
} tnode;

/* Everything an op touches is per thread (`cdriver --threads` runs one op script per thread):
 * jump target, thread tree node, output stream, guard arenas, registers, trampoline block. */
static __thread sigjmp_buf *cur_jmp;
static __thread tnode *cur_node;
static __thread tnode root_node; /* of a thread that executes ops (main or a section thread) */
static __thread FILE *g_out;     /* where the op output of this thread goes */
#define OUT g_out
static __thread bool g_in_section; /* --threads: inside a #thread section (`C feat` is refused) */

/* Give up the work of the current thread: wait until no thread started from the frames that are
 * about to be abandoned is still running (they write into those frames), then unwind. */
static void abandon(int sig) {
  tnode *n = cur_node;
  if (n != NULL) {
    while (atomic_load(&n->live_children) > 0) sched_yield();
  }
  siglongjmp(*cur_jmp, sig);
}

static void on_signal(int sig, siginfo_t *si, void *uc) {
  (void)si;
  (void)uc;
  if (cur_jmp == NULL) {
    /* not inside an op: a bug of the driver itself */
    static const char msg[] = "cdriver: fatal signal outside a guarded call\n";
    ssize_t w = write(2, msg, sizeof msg - 1);
    (void)w;
    fflush(stdout);
    signal(sig, SIG_DFL);
    raise(sig);
    return;
  }
  abandon(sig);
}

static const int SIGS[] = {SIGSEGV, SIGBUS, SIGILL, SIGFPE, SIGABRT};
#define NSIGS (sizeof SIGS / sizeof SIGS[0])

/* run fn(arg); returns 0 or the number of the signal that interrupted it */
static int guarded(void (*fn)(void *), void *arg) {
  sigjmp_buf jb;
  int sig;
  cur_jmp = &jb;
  /* savemask = 0 keeps the common path free of system calls; the handler's signal mask is undone
   * by hand on the (rare) fault path */
  sig = sigsetjmp(jb, 0);
  if (sig == 0) {
    fn(arg);
  } else {
    sigset_t set;
    sigemptyset(&set);
    for (size_t i = 0; i < NSIGS; i++) sigaddset(&set, SIGS[i]);
    pthread_sigmask(SIG_UNBLOCK, &set, NULL);
  }
  cur_jmp = NULL;
  return sig;
}

#define ALTSTACK_SIZE ((size_t)1 << 16)
/* the alternate signal stack is a per-thread attribute */
static void *altstack_install(void) {
  stack_t ss;
  void *p = malloc(ALTSTACK_SIZE);
  if (!p) return NULL;
  ss.ss_sp = p;
  ss.ss_size = ALTSTACK_SIZE;
  ss.ss_flags = 0;
  sigaltstack(&ss, NULL);
  return p;
}
static void altstack_remove(void *p) {
  stack_t ss;
  ss.ss_sp = NULL;
  ss.ss_size = 0;
  ss.ss_flags = SS_DISABLE;
  sigaltstack(&ss, NULL);
  free(p);
}

static void install_handlers(void) {
  struct sigaction sa;
  memset(&sa, 0, sizeof sa);
  sa.sa_sigaction = on_signal;
  sa.sa_flags = SA_SIGINFO | SA_ONSTACK;
  sigemptyset(&sa.sa_mask);
  for (size_t i = 0; i < NSIGS; i++) sigaction(SIGS[i], &sa, NULL);
}

enum {
  FLAG_CANARY = 1,
  FLAG_REGS = 2,
  FLAG_FAULT = 4,
  FLAG_MISMATCH = 8,
  FLAG_MUTATED = 16,
  FLAG_PANIC = 32,
  FLAG_SAN = 64
};

static int sig_flag(int sig) {
  if (sig == 0) return 0;
  return sig == SIGABRT ? FLAG_PANIC : FLAG_FAULT;
}

/* ------------------------------------------------------------------------------------------- */
/* guard page arenas: [PROT_NONE page][cap bytes read/write][PROT_NONE page]                     */

static size_t PAGE;
#define CANARY_BYTE 0xAA
#define CANARY_WINDOW 4096 /* at most this many canary bytes are written/checked on a side */
#define MAX_DATA ((size_t)1 << 30)

typedef struct {
  uint8_t *base;
  size_t cap;
} arena_t;

static __thread arena_t AR_CV, AR_BLK, AR_PTR, AR_IN, AR_OUT, AR_HASHER, AR_DATA;

static bool arena_need(arena_t *a, size_t len) {
  if (len > MAX_DATA + (1 << 20)) return false;
  size_t want = (len + PAGE - 1) / PAGE * PAGE;
  if (want == 0) want = PAGE;
  if (a->base != NULL && a->cap >= want && !(a->cap > ((size_t)16 << 20) && want * 4 < a->cap))
    return true;
  if (a->base != NULL) {
    munmap(a->base, a->cap + 2 * PAGE);
    a->base = NULL;
    a->cap = 0;
  }
  uint8_t *p = mmap(NULL, want + 2 * PAGE, PROT_NONE, MAP_PRIVATE | MAP_ANONYMOUS, -1, 0);
  if (p == MAP_FAILED) return false;
  if (mprotect(p + PAGE, want, PROT_READ | PROT_WRITE) != 0) {
    munmap(p, want + 2 * PAGE);
    return false;
  }
  a->base = p;
  a->cap = want;
  return true;
}
static uint8_t *arena_lo(const arena_t *a) { return a->base + PAGE; }
static uint8_t *arena_end(const arena_t *a) { return a->base + PAGE + a->cap; }
/* len bytes whose last byte is the last accessible byte before the upper guard page */
static uint8_t *arena_hi(const arena_t *a, size_t len) { return arena_end(a) - len; }

/* an input of len bytes flush against the upper guard page */
static uint8_t *input_flush(arena_t *a, const void *src, size_t len) {
  if (!arena_need(a, len)) return NULL;
  uint8_t *p = arena_hi(a, len);
  if (len) memcpy(p, src, len);
  return p;
}

/* Output placement inside an arena; canaries on both sides (up to CANARY_WINDOW bytes, or up to
 * the guard page, whichever comes first). */
typedef struct {
  uint8_t *out;
  size_t len;
  uint8_t *below; /* canary bytes [below, out) */
  uint8_t *above_end; /* canary bytes [out+len, above_end) */
} outbuf_t;

static void outbuf_arm(const arena_t *a, outbuf_t *o, uint8_t *out, size_t len, uint8_t prefill) {
  o->out = out;
  o->len = len;
  size_t avail_below = (size_t)(out - arena_lo(a));
  size_t avail_above = (size_t)(arena_end(a) - (out + len));
  o->below = out - (avail_below < CANARY_WINDOW ? avail_below : CANARY_WINDOW);
  o->above_end = out + len + (avail_above < CANARY_WINDOW ? avail_above : CANARY_WINDOW);
  memset(o->below, CANARY_BYTE, (size_t)(o->above_end - o->below));
  if (len) memset(out, prefill, len);
}
static bool outbuf_intact(const outbuf_t *o) {
  for (const uint8_t *p = o->below; p < o->out; p++)
    if (*p != CANARY_BYTE) return false;
  for (const uint8_t *p = o->out + o->len; p < o->above_end; p++)
    if (*p != CANARY_BYTE) return false;
  return true;
}
enum { PLACE_HI, PLACE_LO, PLACE_MID };
/* PLACE_HI: ends at the upper guard page.  PLACE_LO: starts right after the lower guard page.
 * PLACE_MID: starts `off` bytes after a 64-byte aligned address, as high as possible. */
static uint8_t *place(const arena_t *a, int where, size_t len, size_t off) {
  switch (where) {
  case PLACE_HI:
    return arena_hi(a, len);
  case PLACE_LO:
    return arena_lo(a);
  default: {
    uintptr_t top = (uintptr_t)arena_end(a) - len - off;
    return (uint8_t *)(top & ~(uintptr_t)63) + off;
  }
  }
}

/* ------------------------------------------------------------------------------------------- */
/* output                                                                                       */

static void put_hex(const uint8_t *p, size_t n) {
  static const char dig[] = "0123456789abcdef";
  char buf[8192];
  while (n) {
    size_t k = n < sizeof buf / 2 ? n : sizeof buf / 2;
    for (size_t i = 0; i < k; i++) {
      buf[2 * i] = dig[p[i] >> 4];
      buf[2 * i + 1] = dig[p[i] & 15];
    }
    fwrite(buf, 1, 2 * k, OUT);
    p += k;
    n -= k;
  }
}
static void put_flags(int flags) {
  if (flags & FLAG_CANARY) fputs(" CANARY", OUT);
  if (flags & FLAG_REGS) fputs(" REGS", OUT);
  if (flags & FLAG_FAULT) fputs(" FAULT", OUT);
  if (flags & FLAG_MISMATCH) fputs(" MISMATCH", OUT);
  if (flags & FLAG_MUTATED) fputs(" MUTATED", OUT);
  if (flags & FLAG_PANIC) fputs(" PANIC", OUT);
  if (flags & FLAG_SAN) fputs(" SAN", OUT);
}

/* ------------------------------------------------------------------------------------------- */
/* parsing                                                                                      */

static bool parse_u64(const char *s, uint64_t *out) {
  if (s[0] < '0' || s[0] > '9') return false;
  char *end;
  errno = 0;
  unsigned long long v = strtoull(s, &end, 10);
  if (errno != 0 || *end != '\0') return false;
  *out = (uint64_t)v;
  return true;
}
static bool parse_u8(const char *s, uint8_t *out) {
  uint64_t v;
  if (!parse_u64(s, &v) || v > 255) return false;
  *out = (uint8_t)v;
  return true;
}
static bool parse_size(const char *s, size_t max, size_t *out) {
  uint64_t v;
  if (!parse_u64(s, &v) || v > max) return false;
  *out = (size_t)v;
  return true;
}
static int hexval(int c) {
  if (c >= '0' && c <= '9') return c - '0';
  if (c >= 'a' && c <= 'f') return c - 'a' + 10;
  if (c >= 'A' && c <= 'F') return c - 'A' + 10;
  return -1;
}
/* length of the byte string written in hex (`-` = empty), or -1 */
static ssize_t hex_len(const char *s) {
  if (strcmp(s, "-") == 0) return 0;
  size_t n = strlen(s);
  if (n % 2 != 0) return -1;
  for (size_t i = 0; i < n; i++)
    if (hexval((unsigned char)s[i]) < 0) return -1;
  return (ssize_t)(n / 2);
}
static void hex_decode(const char *s, uint8_t *dst, size_t n) {
  for (size_t i = 0; i < n; i++)
    dst[i] = (uint8_t)(hexval((unsigned char)s[2 * i]) * 16 + hexval((unsigned char)s[2 * i + 1]));
}
static bool parse_hex_exact(const char *s, uint8_t *dst, size_t n) {
  if (hex_len(s) != (ssize_t)n) return false;
  hex_decode(s, dst, n);
  return true;
}

#define LCG_A 6364136223846793005ULL
#define LCG_C 1442695040888963407ULL
static void lcg_fill(uint8_t *dst, size_t n, uint64_t seed) {
  uint64_t s = seed;
  for (size_t i = 0; i < n; i++) {
    s = s * LCG_A + LCG_C;
    dst[i] = (uint8_t)(s >> 56);
  }
}
static uint64_t lcg_skip(uint64_t s, uint64_t n) {
  uint64_t acc_a = 1, acc_c = 0, cur_a = LCG_A, cur_c = LCG_C;
  while (n) {
    if (n & 1) {
      acc_a *= cur_a;
      acc_c = acc_c * cur_a + cur_c;
    }
    cur_c = (cur_a + 1) * cur_c;
    cur_a *= cur_a;
    n >>= 1;
  }
  return acc_a * s + acc_c;
}

typedef struct {
  enum { D_PAT, D_HEX } kind;
  size_t len;
  uint64_t seed;
  const char *hex;
} data_t;

/* returns the number of tokens consumed, or -1 */
static int parse_data(char **t, int nt, data_t *d) {
  if (nt < 1) return -1;
  if (strcmp(t[0], "pat") == 0) {
    if (nt < 3 || !parse_size(t[1], MAX_DATA, &d->len) || !parse_u64(t[2], &d->seed)) return -1;
    d->kind = D_PAT;
    return 3;
  }
  if (strcmp(t[0], "pats") == 0) {
    uint64_t skip;
    if (nt < 4 || !parse_size(t[1], MAX_DATA, &d->len) || !parse_u64(t[2], &d->seed) ||
        !parse_u64(t[3], &skip))
      return -1;
    d->kind = D_PAT;
    d->seed = lcg_skip(d->seed, skip);
    return 4;
  }
  if (strcmp(t[0], "hex") == 0) {
    if (nt < 2) return -1;
    ssize_t n = hex_len(t[1]);
    if (n < 0) return -1;
    d->kind = D_HEX;
    d->len = (size_t)n;
    d->hex = t[1];
    return 2;
  }
  return -1;
}
static void data_fill(const data_t *d, uint8_t *dst) {
  if (d->kind == D_PAT)
    lcg_fill(dst, d->len, d->seed);
  else
    hex_decode(d->hex, dst, d->len);
}
/* the data, flush against the upper guard page of AR_DATA */
static uint8_t *data_flush(const data_t *d) {
  if (!arena_need(&AR_DATA, d->len)) return NULL;
  uint8_t *p = arena_hi(&AR_DATA, d->len);
  data_fill(d, p);
  return p;
}

/* ------------------------------------------------------------------------------------------- */
/* hasher registers                                                                             */

typedef struct reg {
  struct reg *next;
  blake3_hasher h;
  char name[];
} reg_t;
#define NBUCKETS 1024
static __thread reg_t *buckets[NBUCKETS]; /* every thread has its own registers */
#define MAX_NAME 64

static unsigned name_hash(const char *s) {
  unsigned h = 2166136261u;
  for (; *s; s++) h = (h ^ (unsigned char)*s) * 16777619u;
  return h % NBUCKETS;
}
static bool name_ok(const char *s) {
  size_t n = strlen(s);
  return n >= 1 && n <= MAX_NAME;
}
static reg_t *reg_find(const char *name) {
  for (reg_t *r = buckets[name_hash(name)]; r; r = r->next)
    if (strcmp(r->name, name) == 0) return r;
  return NULL;
}
static reg_t *reg_get_or_create(const char *name) {
  reg_t *r = reg_find(name);
  if (r) return r;
  size_t n = strlen(name);
  r = calloc(1, sizeof *r + n + 1);
  if (!r) return NULL;
  memcpy(r->name, name, n + 1);
  unsigned b = name_hash(name);
  r->next = buckets[b];
  buckets[b] = r;
  return r;
}

/* The working copy of a hasher lives flush against the upper guard page of AR_HASHER, so that
 * an access beyond the end of the struct (cv_stack overflow) faults. */
static blake3_hasher *hslot(void) {
  return (blake3_hasher *)(void *)arena_hi(&AR_HASHER, sizeof(blake3_hasher));
}

static int san_begin(void) { return atomic_load(&g_san_reports); }
static int san_flag(int before) { return atomic_load(&g_san_reports) != before ? FLAG_SAN : 0; }

/* prints ok / FAULT / PANIC (+ SAN) for an op without other output; returns true if it is ok to
 * commit the working copy */
static bool finish_simple(int sig, int sanb) {
  int fl = sig_flag(sig) | san_flag(sanb);
  if (fl & FLAG_FAULT)
    fputs("FAULT", OUT);
  else if (fl & FLAG_PANIC)
    fputs("PANIC", OUT);
  else
    fputs("ok", OUT);
  if (fl & FLAG_SAN) fputs(" SAN", OUT);
  return sig == 0;
}

/* ---- C init / initraw */

struct init_arg {
  int kind; /* 0 hash, 1 keyed, 2 derive (NUL-terminated), 3 derive raw */
  const uint8_t *p;
  size_t len;
};
static void do_init(void *v) {
  struct init_arg *a = v;
  blake3_hasher *h = hslot();
  switch (a->kind) {
  case 0:
    blake3_hasher_init(h);
    break;
  case 1:
    blake3_hasher_init_keyed(h, a->p);
    break;
  case 2:
    blake3_hasher_init_derive_key(h, (const char *)a->p);
    break;
  default:
    blake3_hasher_init_derive_key_raw(h, a->p, a->len);
    break;
  }
}

static int run_init(const char *rname, struct init_arg *a) {
  reg_t *r = reg_get_or_create(rname);
  if (!r) return -1;
  /* a freshly initialised register starts from an all-zero struct: the library does not write
   * padding bytes nor the unused part of cv_stack, and `C same` compares whole structs */
  memset(hslot(), 0, sizeof(blake3_hasher));
  int sanb = san_begin();
  int sig = guarded(do_init, a);
  if (finish_simple(sig, sanb)) memcpy(&r->h, hslot(), sizeof(blake3_hasher));
  return 0;
}

static int op_init(char **t, int nt) {
  /* t: <r> <mode...> */
  if (nt < 2 || !name_ok(t[0])) return -1;
  struct init_arg a = {0, NULL, 0};
  if (strcmp(t[1], "hash") == 0) {
    if (nt != 2) return -1;
    a.kind = 0;
  } else if (strcmp(t[1], "keyed") == 0) {
    uint8_t key[32];
    if (nt != 3 || !parse_hex_exact(t[2], key, 32)) return -1;
    a.kind = 1;
    /* the key at every address modulo 8: flush against the guard page (slack 0) or 1..7 bytes before it */
    uint8_t padded[40];
    size_t slack = key[1] % 8;
    memset(padded, 0, sizeof padded);
    memcpy(padded, key, 32);
    a.p = input_flush(&AR_CV, padded, 32 + slack);
    if (!a.p) return -1;
  } else if (strcmp(t[1], "derive") == 0) {
    if (nt != 3) return -1;
    ssize_t n = hex_len(t[2]);
    if (n < 0 || (size_t)n > MAX_DATA) return -1;
    if (!arena_need(&AR_DATA, (size_t)n + 1)) return -1;
    uint8_t *p = arena_hi(&AR_DATA, (size_t)n + 1);
    hex_decode(t[2], p, (size_t)n);
    p[n] = 0; /* the terminator is the last accessible byte */
    if (memchr(p, 0, (size_t)n) != NULL) return -1;
    a.kind = 2;
    a.p = p;
    a.len = (size_t)n;
  } else
    return -1;
  return run_init(t[0], &a);
}

static int op_initraw(char **t, int nt) {
  if (nt != 2 || !name_ok(t[0])) return -1;
  ssize_t n = hex_len(t[1]);
  if (n < 0 || (size_t)n > MAX_DATA) return -1;
  if (!arena_need(&AR_DATA, (size_t)n)) return -1;
  uint8_t *p = arena_hi(&AR_DATA, (size_t)n);
  hex_decode(t[1], p, (size_t)n);
  struct init_arg a = {3, p, (size_t)n};
  return run_init(t[0], &a);
}

/* ---- C upd / updtbb */

struct upd_arg {
  const uint8_t *p;
  size_t len;
  bool tbb;
};
static void do_upd(void *v) {
  struct upd_arg *a = v;
  if (a->tbb)
    tbb_blake3_hasher_update_tbb(hslot(), a->p, a->len);
  else
    blake3_hasher_update(hslot(), a->p, a->len);
}

/* join script of the `C updtbb` in progress; the threads started by the join seam inherit the
 * pointer of the thread that executes the op */
typedef struct {
  uint8_t script[256];
  size_t len;
  atomic_ulong joins;
} tbbctx;
static __thread tbbctx my_tbb;
static __thread tbbctx *cur_tbb;
static atomic_int g_live_threads; /* process-wide cap on threads started by the join seam */
#define MAX_LIVE_THREADS 128

static int op_upd(char **t, int nt, bool tbb) {
  /* t: <r> [<script>] <data...> */
  int need = tbb ? 2 : 1;
  if (nt < need + 1) return -1;
  reg_t *r = reg_find(t[0]);
  if (!r) return -1;
  if (tbb) {
    const char *s = t[1];
    size_t n = strlen(s);
    if (strcmp(s, "-") == 0) {
      my_tbb.len = 0;
    } else {
      if (n == 0 || n > sizeof my_tbb.script) return -1;
      for (size_t i = 0; i < n; i++)
        if (s[i] < '0' || s[i] > '2') return -1;
      for (size_t i = 0; i < n; i++) my_tbb.script[i] = (uint8_t)(s[i] - '0');
      my_tbb.len = n;
    }
  }
  data_t d;
  int used = parse_data(t + need, nt - need, &d);
  if (used < 0 || used != nt - need) return -1;
  uint8_t *p = data_flush(&d);
  if (!p) return -1;
  memcpy(hslot(), &r->h, sizeof(blake3_hasher));
  struct upd_arg a = {p, d.len, tbb};
  atomic_store(&my_tbb.joins, 0);
  cur_tbb = &my_tbb;
  int sanb = san_begin();
  int sig = guarded(do_upd, &a);
  int fl = sig_flag(sig) | san_flag(sanb);
  if (sig == 0) memcpy(&r->h, hslot(), sizeof(blake3_hasher));
  if (fl & FLAG_FAULT)
    fputs("FAULT", OUT);
  else if (fl & FLAG_PANIC)
    fputs("PANIC", OUT);
  else if (tbb)
    fprintf(OUT, "ok %lu", (unsigned long)atomic_load(&my_tbb.joins));
  else
    fputs("ok", OUT);
  if (fl & FLAG_SAN) fputs(" SAN", OUT);
  return 0;
}

/* ---- the BLAKE3_USE_TBB join seam */

struct jarg {
  const uint32_t *key;
  uint8_t flags;
  bool use_tbb;
  const uint8_t *input;
  size_t input_len;
  uint64_t chunk_counter;
  uint8_t *cvs;
  size_t *n;
  tnode node;
  tbbctx *ctx;
  int sig;
};
static void jrun(void *v) {
  struct jarg *a = v;
  *a->n = tbb_blake3_compress_subtree_wide(a->input, a->input_len, a->key, a->chunk_counter,
                                           a->flags, a->cvs, a->use_tbb);
}
static void *jthread(void *v) {
  struct jarg *a = v;
  cur_node = &a->node;
  cur_tbb = a->ctx;
  a->sig = guarded(jrun, a);
  tnode *parent = a->node.parent;
  atomic_fetch_sub(&g_live_threads, 1);
  atomic_fetch_sub(&parent->live_children, 1); /* last access to the parent's frame */
  return NULL;
}

void blake3_compress_subtree_wide_join_tbb(const uint32_t key[8], uint8_t flags, bool use_tbb,
                                           const uint8_t *l_input, size_t l_input_len,
                                           uint64_t l_chunk_counter, uint8_t *l_cvs, size_t *l_n,
                                           const uint8_t *r_input, size_t r_input_len,
                                           uint64_t r_chunk_counter, uint8_t *r_cvs, size_t *r_n) {
  int mode = 0;
  tbbctx *ctx = cur_tbb;
  if (use_tbb && ctx != NULL) {
    unsigned long idx = atomic_fetch_add(&ctx->joins, 1);
    if (ctx->len) mode = ctx->script[idx % ctx->len];
  }
  if (mode == 2) {
    struct jarg a = {key,   flags, use_tbb, r_input, r_input_len, r_chunk_counter,
                     r_cvs, r_n,   {0, NULL}, ctx, 0};
    pthread_t th;
    pthread_attr_t at;
    bool started = false;
    a.node.parent = cur_node;
    atomic_init(&a.node.live_children, 0);
    if (atomic_fetch_add(&g_live_threads, 1) < MAX_LIVE_THREADS) {
      pthread_attr_init(&at);
      pthread_attr_setstacksize(&at, (size_t)1 << 20);
      atomic_fetch_add(&cur_node->live_children, 1);
      started = pthread_create(&th, &at, jthread, &a) == 0;
      pthread_attr_destroy(&at);
      if (!started) atomic_fetch_sub(&cur_node->live_children, 1);
    }
    if (!started) {
      atomic_fetch_sub(&g_live_threads, 1);
      mode = 0; /* too many live threads (or pthread_create failed): run inline */
    } else {
      *l_n = tbb_blake3_compress_subtree_wide(l_input, l_input_len, key, l_chunk_counter, flags,
                                              l_cvs, use_tbb);
      pthread_join(th, NULL);
      if (a.sig != 0) abandon(a.sig); /* the right half faulted: propagate */
      return;
    }
  }
  if (mode == 1) {
    *r_n = tbb_blake3_compress_subtree_wide(r_input, r_input_len, key, r_chunk_counter, flags,
                                            r_cvs, use_tbb);
    *l_n = tbb_blake3_compress_subtree_wide(l_input, l_input_len, key, l_chunk_counter, flags,
                                            l_cvs, use_tbb);
  } else {
    *l_n = tbb_blake3_compress_subtree_wide(l_input, l_input_len, key, l_chunk_counter, flags,
                                            l_cvs, use_tbb);
    *r_n = tbb_blake3_compress_subtree_wide(r_input, r_input_len, key, r_chunk_counter, flags,
                                            r_cvs, use_tbb);
  }
}

/* ---- C updnull: blake3_hasher_update(h, NULL, 0), the documented "empty vector" call (visible to the sanitizer builds) */
static void do_updnull(void *v) {
  (void)v;
  blake3_hasher_update(hslot(), NULL, 0);
}
static int op_updnull(char **t, int nt) {
  if (nt != 1) return -1;
  reg_t *r = reg_find(t[0]);
  if (!r) return -1;
  memcpy(hslot(), &r->h, sizeof(blake3_hasher));
  int sanb = san_begin();
  int sig = guarded(do_updnull, NULL);
  int fl = sig_flag(sig) | san_flag(sanb);
  if (sig == 0 && memcmp(hslot(), &r->h, sizeof(blake3_hasher)) != 0) fl |= FLAG_MUTATED;
  if (fl & FLAG_FAULT)
    fputs("FAULT", OUT);
  else
    fputs("ok", OUT);
  if (fl & FLAG_MUTATED) fputs(" MUTATED", OUT);
  if (fl & FLAG_SAN) fputs(" SAN", OUT);
  return 0;
}

/* ---- C fin / finseek */

struct fin_arg {
  bool seek_api;
  uint64_t seek;
  uint8_t *out;
  size_t len;
};
static void do_fin(void *v) {
  struct fin_arg *a = v;
  if (a->seek_api)
    blake3_hasher_finalize_seek(hslot(), a->seek, a->out, a->len);
  else
    blake3_hasher_finalize(hslot(), a->out, a->len);
}

#define MAX_OUT ((size_t)1 << 28)

static int op_fin(char **t, int nt, bool seek_api) {
  /* t: <r> [<seek>] <outlen> */
  if (nt != (seek_api ? 3 : 2)) return -1;
  reg_t *r = reg_find(t[0]);
  if (!r) return -1;
  uint64_t seek = 0;
  size_t len;
  if (seek_api && !parse_u64(t[1], &seek)) return -1;
  if (!parse_size(t[nt - 1], MAX_OUT, &len)) return -1;
  if (!arena_need(&AR_OUT, len + CANARY_WINDOW)) return -1;
  uint8_t *first = malloc(len ? len : 1);
  if (!first) return -1;
  int flags = 0;
  int sanb = san_begin();
  for (int run = 0; run < 2; run++) {
    outbuf_t ob;
    memcpy(hslot(), &r->h, sizeof(blake3_hasher));
    outbuf_arm(&AR_OUT, &ob, place(&AR_OUT, run == 0 ? PLACE_HI : PLACE_LO, len, 0), len,
               run == 0 ? 0x55 : 0xCC);
    struct fin_arg a = {seek_api, seek, ob.out, len};
    flags |= sig_flag(guarded(do_fin, &a));
    if (!outbuf_intact(&ob)) flags |= FLAG_CANARY;
    if (memcmp(hslot(), &r->h, sizeof(blake3_hasher)) != 0) flags |= FLAG_MUTATED;
    if (run == 0)
      memcpy(first, ob.out, len);
    else if (memcmp(first, ob.out, len) != 0)
      flags |= FLAG_MISMATCH;
  }
  flags |= san_flag(sanb);
  if (flags & FLAG_FAULT) {
    fputs("FAULT", OUT);
    put_flags(flags & ~FLAG_FAULT);
  } else if (flags & FLAG_PANIC) {
    fputs("PANIC", OUT);
    put_flags(flags & ~FLAG_PANIC);
  } else {
    put_hex(first, len);
    put_flags(flags);
  }
  free(first);
  return 0;
}

/* ---- C reset / clone / same */

static void do_reset(void *v) {
  (void)v;
  blake3_hasher_reset(hslot());
}
static int op_reset(char **t, int nt) {
  if (nt != 1) return -1;
  reg_t *r = reg_find(t[0]);
  if (!r) return -1;
  memcpy(hslot(), &r->h, sizeof(blake3_hasher));
  int sanb = san_begin();
  int sig = guarded(do_reset, NULL);
  if (finish_simple(sig, sanb)) memcpy(&r->h, hslot(), sizeof(blake3_hasher));
  return 0;
}
static int op_clone(char **t, int nt) {
  if (nt != 2 || !name_ok(t[1])) return -1;
  reg_t *r = reg_find(t[0]);
  if (!r) return -1;
  reg_t *r2 = reg_get_or_create(t[1]);
  if (!r2) return -1;
  if (r != r2) r2->h = r->h; /* struct copy */
  fputs("ok", OUT);
  return 0;
}
static int op_same(char **t, int nt, bool live_only) {
  if (nt != 2) return -1;
  reg_t *a = reg_find(t[0]), *b = reg_find(t[1]);
  if (!a || !b) return -1;
  bool eq;
  if (!live_only) {
    eq = memcmp(&a->h, &b->h, sizeof(blake3_hasher)) == 0;
  } else {
    /* the fields the library reads: key, chunk state, stack length, live part of the stack */
    const blake3_hasher *x = &a->h, *y = &b->h;
    eq = memcmp(x->key, y->key, 32) == 0 && memcmp(x->chunk.cv, y->chunk.cv, 32) == 0 &&
         x->chunk.chunk_counter == y->chunk.chunk_counter &&
         memcmp(x->chunk.buf, y->chunk.buf, 64) == 0 && x->chunk.buf_len == y->chunk.buf_len &&
         x->chunk.blocks_compressed == y->chunk.blocks_compressed &&
         x->chunk.flags == y->chunk.flags && x->cv_stack_len == y->cv_stack_len &&
         memcmp(x->cv_stack, y->cv_stack,
                32 * (size_t)(x->cv_stack_len <= BLAKE3_MAX_DEPTH + 1 ? x->cv_stack_len
                                                                      : BLAKE3_MAX_DEPTH + 1)) == 0;
  }
  fputs(eq ? "eq" : "ne", OUT);
  return 0;
}

/* ---- C rdp2 / popcnt: the arithmetic helpers of blake3_impl.h on their whole 64-bit domain */
static int op_arith(char **t, int nt, bool pop) {
  if (nt != 1) return -1;
  char *end = NULL;
  errno = 0;
  unsigned long long x = strtoull(t[0], &end, 10);
  if (errno || !end || *end) return -1;
  if (pop) fprintf(OUT, "%u", popcnt((uint64_t)x));
  else fprintf(OUT, "%llu", (unsigned long long)round_down_to_power_of_2((uint64_t)x));
  return 0;
}

/* ---- C feat */

static int level_mask(int level) {
  int m = 0;
  if (level >= LV_SSE2) m |= CF_SSE2;
  if (level >= LV_SSE41) m |= CF_SSSE3 | CF_SSE41;
  if (level >= LV_AVX2) m |= CF_AVX | CF_AVX2;
  if (level >= LV_AVX512) m |= CF_AVX512F | CF_AVX512VL;
  return m;
}
static int parse_level(const char *s) {
  static const char *names[] = {"portable", "sse2", "sse41", "avx2", "avx512"};
  for (int i = 0; i < 5; i++)
    if (strcmp(s, names[i]) == 0) return i;
  return -1;
}
static int op_feat(char **t, int nt) {
  if (nt != 1 || g_in_section) return -1; /* --threads: only the preamble may set the level */
  if (strcmp(t[0], "detect") == 0) {
    atomic_store(&g_cpu_features, CF_UNDEFINED);
    fputs("ok", OUT);
    return 0;
  }
  int lv = parse_level(t[0]);
  if (lv < 0) return -1;
  if (!cpu_has(lv)) {
    fputs("unsupported", OUT);
    return 0;
  }
  atomic_store(&g_cpu_features, level_mask(lv));
  fputs("ok", OUT);
  return 0;
}
/* extension: `<mask the dispatcher works with> <blake3_simd_degree()> <mask according to
 * __builtin_cpu_supports>`; runs the library's detection if the mask is undefined */
static int op_featmask(int nt) {
  if (nt != 0) return -1;
  (void)blake3_simd_degree(); /* calls get_cpu_features() */
  int lv = LV_PORTABLE;
  while (lv < LV_AVX512 && cpu_has(lv + 1)) lv++;
  fprintf(OUT, "%d %zu %d", (int)atomic_load(&g_cpu_features), blake3_simd_degree(), level_mask(lv));
  return 0;
}

/* ------------------------------------------------------------------------------------------- */
/* kernel ops                                                                                   */

static __thread struct tramp g_tramp;
static __thread uint64_t g_sentinel_ctr;
static __thread int g_align; /* CK align <0|16|32|48>: position of rsp within a 64-byte line at the call */
static __thread int g_dirty; /* CK dirty <0|1|2>: garbage in the unused upper bits of 8-bit arguments */

static uint64_t narrow_arg(uint64_t v) {
  switch (g_dirty) {
  case 1:
    return v | 0xA5C3A5C300000000ULL; /* keeps the de-facto zero extension to 32 bits */
  case 2:
    return v | 0xA5C3A5C3A5C3A500ULL; /* only what the psABI text guarantees: the low 8 bits */
  default:
    return v;
  }
}

static void tramp_go(void *v) {
  const flavour_t *f = v;
  if (f->abi == ABI_WIN64)
    tramp_win64(&g_tramp);
  else
    tramp_sysv(&g_tramp);
}

/* call fn(a[0..9]) through the trampoline of the flavour's ABI; returns FLAG_REGS / FLAG_FAULT */
static int call_kernel(const flavour_t *f, void *fn, const uint64_t a[10]) {
  struct tramp *t = &g_tramp;
  t->fn = fn;
  memcpy(t->a, a, sizeof t->a);
  for (int i = 0; i < TR_NGPR; i++) {
    g_sentinel_ctr = g_sentinel_ctr * LCG_A + LCG_C;
    t->sent[i] = g_sentinel_ctr | 0x8000000000000001ULL;
    t->got[i] = 0;
  }
  lcg_fill(&t->xmm_sent[0][0], sizeof t->xmm_sent, g_sentinel_ctr);
  memset(t->xmm_got, 0, sizeof t->xmm_got);
  t->rsp_before = t->rsp_after = 0;
  t->rflags_after = 0;
  t->align_off = (uint64_t)g_align;
  int sig = guarded(tramp_go, (void *)(uintptr_t)f);
  if (sig != 0) return sig_flag(sig);
  int flags = 0;
  int ngpr = f->abi == ABI_WIN64 ? TR_NGPR : TR_RSI;
  if (memcmp(t->sent, t->got, (size_t)ngpr * 8) != 0) flags |= FLAG_REGS;
  if (f->abi == ABI_WIN64 && memcmp(t->xmm_sent, t->xmm_got, sizeof t->xmm_sent) != 0)
    flags |= FLAG_REGS;
  if (t->rsp_before != t->rsp_after) flags |= FLAG_REGS;
  if (t->rflags_after & 0x400) flags |= FLAG_REGS; /* DF */
  /* MXCSR: control bits (mask 0xffc0) are callee-saved, status bits are not */
  if ((t->mxcsr_before ^ t->mxcsr_after) & 0xffc0) flags |= FLAG_REGS;
  return flags;
}

static const flavour_t *find_flavour(const char *s) {
  for (size_t i = 0; i < NFLAVOURS; i++)
    if (strcmp(FLAVOURS[i].name, s) == 0) return &FLAVOURS[i];
  return NULL;
}

static const uint8_t PREFILL[3] = {0x55, 0xCC, 0x33};

/* CK cip|cxof <sym> <cv> <block> <block_len> <counter> <flags> */
static int ck_single(char **t, int nt, bool xof) {
  if (nt != 6) return -1;
  const flavour_t *f = find_flavour(t[0]);
  uint8_t cv[32], block[64], block_len, flags;
  uint64_t counter;
  if (!f) return -1;
  if (!parse_hex_exact(t[1], cv, 32) || !parse_hex_exact(t[2], block, 64) ||
      !parse_u8(t[3], &block_len) || !parse_u64(t[4], &counter) || !parse_u8(t[5], &flags))
    return -1;
  void *fn = xof ? f->cxof : f->cip;
  if (fn == NULL || !cpu_has(f->level)) {
    fputs("unsupported", OUT);
    return 0;
  }
  size_t outlen = xof ? 64 : 32;
  if (!arena_need(&AR_OUT, outlen + CANARY_WINDOW)) return -1;
  uint8_t first[64];
  int fl = 0;
  int sanb = san_begin();
  for (int run = 0; run < 2; run++) {
    outbuf_t ob;
    uint8_t *pblock = input_flush(&AR_BLK, block, 64);
    if (!pblock) return -1;
    outbuf_arm(&AR_OUT, &ob, place(&AR_OUT, run == 0 ? PLACE_HI : PLACE_LO, outlen, 0), outlen,
               PREFILL[run]);
    uint64_t a[10] = {0};
    /* the chaining value is a uint32_t[8]: 4-byte alignment is all a caller owes.  Run 0 has it flush against the guard page
     * (16-aligned), run 1 at 4, 8 or 12 modulo 16 (chosen by block_len) */
    size_t cvshift = run == 0 ? 0 : 4 * (size_t)(1 + block_len % 3);
    if (xof) {
      uint8_t padded[48];
      memcpy(padded, cv, 32);
      memset(padded + 32, 0xC3, 16);
      uint8_t *pcv = input_flush(&AR_CV, padded, 32 + cvshift);
      if (!pcv) return -1;
      a[0] = (uint64_t)(uintptr_t)pcv;
      a[5] = (uint64_t)(uintptr_t)ob.out;
    } else if (cvshift) {
      /* in place, at an address that is not 16-aligned: own buffer with canaries on both sides */
      static uint8_t inplace[16 + 32 + 16 + 16] __attribute__((aligned(16)));
      memset(inplace, 0xC3, sizeof inplace);
      memcpy(inplace + 16 + cvshift, cv, 32);
      a[0] = (uint64_t)(uintptr_t)(inplace + 16 + cvshift);
    } else {
      memcpy(ob.out, cv, 32); /* in place */
      a[0] = (uint64_t)(uintptr_t)ob.out;
    }
    a[1] = (uint64_t)(uintptr_t)pblock;
    a[2] = narrow_arg(block_len);
    a[3] = counter;
    a[4] = narrow_arg(flags);
    fl |= call_kernel(f, fn, a);
    if (!outbuf_intact(&ob)) fl |= FLAG_CANARY;
    const uint8_t *res = ob.out;
    if (!xof && cvshift) {
      const uint8_t *ip = (const uint8_t *)(uintptr_t)a[0];
      for (size_t i = 1; i <= 16; i++)
        if (ip[-(ptrdiff_t)i] != 0xC3 || ip[31 + i] != 0xC3) fl |= FLAG_CANARY;
      res = ip;
    }
    if (run == 0)
      memcpy(first, res, outlen);
    else if (memcmp(first, res, outlen) != 0)
      fl |= FLAG_MISMATCH;
  }
  fl |= san_flag(sanb);
  put_hex(first, outlen);
  put_flags(fl);
  return 0;
}

#define MAX_OFF 4096
#define MAX_KERNEL_BYTES ((size_t)1 << 28)

/* CK hmany <sym> <n> <blocks> <seed> <key> <counter> <incr> <flags> <fstart> <fend> <inoff> <outoff> */
static int ck_hmany(char **t, int nt) {
  if (nt != 12) return -1;
  const flavour_t *f = find_flavour(t[0]);
  size_t n, blocks, inoff, outoff;
  uint64_t seed, counter;
  uint8_t key[32], flags, fstart, fend;
  bool incr;
  if (!f) return -1;
  if (!parse_size(t[1], 1 << 20, &n) || !parse_size(t[2], 1 << 20, &blocks) ||
      !parse_u64(t[3], &seed) || !parse_hex_exact(t[4], key, 32) || !parse_u64(t[5], &counter))
    return -1;
  if (strcmp(t[6], "0") == 0)
    incr = false;
  else if (strcmp(t[6], "1") == 0)
    incr = true;
  else
    return -1;
  if (!parse_u8(t[7], &flags) || !parse_u8(t[8], &fstart) || !parse_u8(t[9], &fend) ||
      !parse_size(t[10], MAX_OFF, &inoff) || !parse_size(t[11], MAX_OFF, &outoff))
    return -1;
  size_t len = blocks * 64;
  if (n != 0 && len > MAX_KERNEL_BYTES / n) return -1;
  size_t total_in = n * len, total_out = n * 32;
  if (f->hmany == NULL || !cpu_has(f->level)) {
    fputs("unsupported", OUT);
    return 0;
  }
  if (!arena_need(&AR_IN, total_in + MAX_OFF + 64) ||
      !arena_need(&AR_OUT, total_out + MAX_OFF + 64 + CANARY_WINDOW) ||
      !arena_need(&AR_PTR, n * sizeof(uint8_t *)))
    return -1;
  uint8_t *src = malloc(total_in ? total_in : 1);
  uint8_t *first = malloc(total_out ? total_out : 1);
  if (!src || !first) {
    free(src);
    free(first);
    return -1;
  }
  for (size_t i = 0; i < n; i++) lcg_fill(src + i * len, len, seed + (uint64_t)i);
  int fl = 0;
  int sanb = san_begin();
  /* run 0: inputs flush against a guard page, output flush against the upper guard page
   * run 1: inputs as in run 0, output flush after the lower guard page
   * run 2: inputs inoff bytes and output outoff bytes after a 64-byte aligned address */
  for (int run = 0; run < 3; run++) {
    outbuf_t ob;
    uint8_t *in = place(&AR_IN, run == 2 ? PLACE_MID : PLACE_HI, total_in, inoff);
    if (total_in) memcpy(in, src, total_in);
    const uint8_t **ptrs = (const uint8_t **)(void *)arena_hi(&AR_PTR, n * sizeof(uint8_t *));
    for (size_t i = 0; i < n; i++) ptrs[i] = in + i * len;
    uint8_t *pkey = input_flush(&AR_CV, key, 32);
    if (!pkey) {
      free(src);
      free(first);
      return -1;
    }
    int where = run == 0 ? PLACE_HI : run == 1 ? PLACE_LO : PLACE_MID;
    outbuf_arm(&AR_OUT, &ob, place(&AR_OUT, where, total_out, outoff), total_out, PREFILL[run]);
    uint64_t a[10];
    a[0] = (uint64_t)(uintptr_t)ptrs;
    a[1] = n;
    a[2] = blocks;
    a[3] = (uint64_t)(uintptr_t)pkey;
    a[4] = counter;
    a[5] = narrow_arg(incr ? 1 : 0);
    a[6] = narrow_arg(flags);
    a[7] = narrow_arg(fstart);
    a[8] = narrow_arg(fend);
    a[9] = (uint64_t)(uintptr_t)ob.out;
    fl |= call_kernel(f, f->hmany, a);
    if (!outbuf_intact(&ob)) fl |= FLAG_CANARY;
    if (run == 0)
      memcpy(first, ob.out, total_out);
    else if (memcmp(first, ob.out, total_out) != 0)
      fl |= FLAG_MISMATCH;
  }
  fl |= san_flag(sanb);
  put_hex(first, total_out);
  put_flags(fl);
  free(src);
  free(first);
  return 0;
}

/* ---- CK hmanysep: every input in its own guarded buffer ------------------------------------
 * One mapping per thread, carved into regions  G D..D G D..D G ...  (G = PROT_NONE page, D..D =
 * `dpages` read/write pages).  Input i ends `slack` bytes before the guard page that follows
 * region i (slack = 0: its last byte is the last accessible byte); it is preceded by the previous
 * guard page when it fills its region exactly, otherwise by unused readable bytes. */
typedef struct {
  uint8_t *base;
  size_t nregions, dpages;
} seps_t;
static __thread seps_t SEPS;

static void seps_free(void) {
  if (SEPS.base) munmap(SEPS.base, (SEPS.nregions * (SEPS.dpages + 1) + 1) * PAGE);
  SEPS.base = NULL;
  SEPS.nregions = SEPS.dpages = 0;
}
static bool seps_need(size_t n, size_t dpages) {
  if (SEPS.base && SEPS.dpages == dpages && SEPS.nregions >= n) return true;
  seps_free();
  if (n < 32) n = 32;
  size_t total = (n * (dpages + 1) + 1) * PAGE;
  uint8_t *p = mmap(NULL, total, PROT_NONE, MAP_PRIVATE | MAP_ANONYMOUS, -1, 0);
  if (p == MAP_FAILED) return false;
  for (size_t i = 0; i < n; i++)
    if (mprotect(p + (i * (dpages + 1) + 1) * PAGE, dpages * PAGE, PROT_READ | PROT_WRITE) != 0) {
      munmap(p, total);
      return false;
    }
  SEPS.base = p;
  SEPS.nregions = n;
  SEPS.dpages = dpages;
  return true;
}
/* first byte after the data pages of region i (= start of the guard page that follows it) */
static uint8_t *seps_end(size_t i) { return SEPS.base + (i + 1) * (SEPS.dpages + 1) * PAGE; }

#define SEP_MAX_N 256
#define SEP_MAX_BLOCKS 1024
#define SEP_OTHER_SLACK 512

/* CK hmanysep <sym> <n> <blocks> <seed> <key> <counter> <incr> <flags> <fstart> <fend> [<slack> [<idx>]]
 * extension: <slack> readable bytes follow every input (default 0); with <idx> only input idx gets
 * <slack>, all others SEP_OTHER_SLACK bytes (to find out which input is over-read by how much) */
static int ck_hmanysep(char **t, int nt) {
  if (nt < 10 || nt > 12) return -1;
  const flavour_t *f = find_flavour(t[0]);
  size_t n, blocks, slack = 0, idx = SIZE_MAX;
  uint64_t seed, counter;
  uint8_t key[32], flags, fstart, fend;
  bool incr;
  if (!f) return -1;
  if (!parse_size(t[1], SEP_MAX_N, &n) || !parse_size(t[2], SEP_MAX_BLOCKS, &blocks) ||
      !parse_u64(t[3], &seed) || !parse_hex_exact(t[4], key, 32) || !parse_u64(t[5], &counter))
    return -1;
  if (strcmp(t[6], "0") == 0)
    incr = false;
  else if (strcmp(t[6], "1") == 0)
    incr = true;
  else
    return -1;
  if (!parse_u8(t[7], &flags) || !parse_u8(t[8], &fstart) || !parse_u8(t[9], &fend)) return -1;
  if (nt >= 11 && !parse_size(t[10], MAX_OFF, &slack)) return -1;
  if (nt == 12 && (!parse_size(t[11], SEP_MAX_N, &idx) || idx >= n)) return -1;
  if (f->hmany == NULL || !cpu_has(f->level)) {
    fputs("unsupported", OUT);
    return 0;
  }
  size_t len = blocks * 64, total_out = n * 32;
  size_t maxslack = nt == 12 && SEP_OTHER_SLACK > slack ? SEP_OTHER_SLACK : slack;
  size_t dpages = (len + maxslack + PAGE - 1) / PAGE;
  if (dpages == 0) dpages = 1;
  if (!seps_need(n, dpages) || !arena_need(&AR_OUT, total_out + CANARY_WINDOW) ||
      !arena_need(&AR_PTR, n * sizeof(uint8_t *)))
    return -1;
  uint8_t *first = malloc(total_out ? total_out : 1);
  if (!first) return -1;
  int fl = 0;
  int sanb = san_begin();
  for (int run = 0; run < 2; run++) {
    outbuf_t ob;
    const uint8_t **ptrs = (const uint8_t **)(void *)arena_hi(&AR_PTR, n * sizeof(uint8_t *));
    for (size_t i = 0; i < n; i++) {
      size_t sl = nt == 12 && i != idx ? SEP_OTHER_SLACK : slack;
      uint8_t *end = seps_end(i);
      memset(end - dpages * PAGE, 0xEE, dpages * PAGE);
      uint8_t *in = end - sl - len;
      lcg_fill(in, len, seed + (uint64_t)i);
      ptrs[i] = in;
    }
    uint8_t *pkey = input_flush(&AR_CV, key, 32);
    if (!pkey) {
      free(first);
      return -1;
    }
    outbuf_arm(&AR_OUT, &ob, place(&AR_OUT, run == 0 ? PLACE_HI : PLACE_LO, total_out, 0),
               total_out, PREFILL[run]);
    uint64_t a[10];
    a[0] = (uint64_t)(uintptr_t)ptrs;
    a[1] = n;
    a[2] = blocks;
    a[3] = (uint64_t)(uintptr_t)pkey;
    a[4] = counter;
    a[5] = narrow_arg(incr ? 1 : 0);
    a[6] = narrow_arg(flags);
    a[7] = narrow_arg(fstart);
    a[8] = narrow_arg(fend);
    a[9] = (uint64_t)(uintptr_t)ob.out;
    fl |= call_kernel(f, f->hmany, a);
    if (!outbuf_intact(&ob)) fl |= FLAG_CANARY;
    if (run == 0)
      memcpy(first, ob.out, total_out);
    else if (memcmp(first, ob.out, total_out) != 0)
      fl |= FLAG_MISMATCH;
  }
  fl |= san_flag(sanb);
  put_hex(first, total_out);
  put_flags(fl);
  free(first);
  return 0;
}

/* CK xofmany <sym> <cv> <block> <block_len> <counter> <flags> <n> */
static int ck_xofmany(char **t, int nt) {
  if (nt != 7) return -1;
  const flavour_t *f = find_flavour(t[0]);
  uint8_t cv[32], block[64], block_len, flags;
  uint64_t counter;
  size_t n;
  if (!f) return -1;
  if (!parse_hex_exact(t[1], cv, 32) || !parse_hex_exact(t[2], block, 64) ||
      !parse_u8(t[3], &block_len) || !parse_u64(t[4], &counter) || !parse_u8(t[5], &flags) ||
      !parse_size(t[6], MAX_KERNEL_BYTES / 64, &n))
    return -1;
  if (f->xofmany == NULL || !cpu_has(f->level)) {
    fputs("unsupported", OUT);
    return 0;
  }
  size_t outlen = n * 64;
  if (!arena_need(&AR_OUT, outlen + CANARY_WINDOW)) return -1;
  uint8_t *first = malloc(outlen ? outlen : 1);
  if (!first) return -1;
  int fl = 0;
  int sanb = san_begin();
  for (int run = 0; run < 2; run++) {
    outbuf_t ob;
    uint8_t *pcv = input_flush(&AR_CV, cv, 32);
    uint8_t *pblock = input_flush(&AR_BLK, block, 64);
    if (!pcv || !pblock) {
      free(first);
      return -1;
    }
    outbuf_arm(&AR_OUT, &ob, place(&AR_OUT, run == 0 ? PLACE_HI : PLACE_LO, outlen, 0), outlen,
               PREFILL[run]);
    uint64_t a[10] = {0};
    a[0] = (uint64_t)(uintptr_t)pcv;
    a[1] = (uint64_t)(uintptr_t)pblock;
    a[2] = narrow_arg(block_len);
    a[3] = counter;
    a[4] = narrow_arg(flags);
    a[5] = (uint64_t)(uintptr_t)ob.out;
    a[6] = n;
    fl |= call_kernel(f, f->xofmany, a);
    if (!outbuf_intact(&ob)) fl |= FLAG_CANARY;
    if (run == 0)
      memcpy(first, ob.out, outlen);
    else if (memcmp(first, ob.out, outlen) != 0)
      fl |= FLAG_MISMATCH;
  }
  fl |= san_flag(sanb);
  put_hex(first, outlen);
  put_flags(fl);
  free(first);
  return 0;
}

/* extension: `CK list` -> name:cip,cxof,hmany,xofmany presence and CPU support, one token each */
static int ck_list(int nt) {
  if (nt != 0) return -1;
  for (size_t i = 0; i < NFLAVOURS; i++) {
    const flavour_t *f = &FLAVOURS[i];
    fprintf(OUT, "%s%s:%c%c%c%c:%s", i ? " " : "", f->name, f->cip ? 'i' : '-', f->cxof ? 'x' : '-',
           f->hmany ? 'h' : '-', f->xofmany ? 'm' : '-', cpu_has(f->level) ? "cpu" : "nocpu");
  }
  return 0;
}

static int ck_dirty(char **t, int nt) {
  uint64_t v;
  if (nt != 1 || !parse_u64(t[0], &v) || v > 2) return -1;
  g_dirty = (int)v;
  fputs("ok", OUT);
  return 0;
}

static int ck_align(char **t, int nt) {
  uint64_t v;
  if (nt != 1 || !parse_u64(t[0], &v) || v > 48 || v % 16 != 0) return -1;
  g_align = (int)v;
  fputs("ok", OUT);
  return 0;
}

/* ------------------------------------------------------------------------------------------- */

#define MAX_TOKENS 32

/* returns 0 when the op printed its output, -1 for bad-op (nothing printed) */
static int dispatch(char **t, int nt) {
  if (nt >= 2 && strcmp(t[0], "C") == 0) {
    const char *op = t[1];
    char **r = t + 2;
    int n = nt - 2;
    if (strcmp(op, "feat") == 0) return op_feat(r, n);
    if (strcmp(op, "featmask") == 0) return op_featmask(n);
    if (strcmp(op, "init") == 0) return op_init(r, n);
    if (strcmp(op, "initraw") == 0) return op_initraw(r, n);
    if (strcmp(op, "upd") == 0) return op_upd(r, n, false);
    if (strcmp(op, "updtbb") == 0) return op_upd(r, n, true);
    if (strcmp(op, "updnull") == 0) return op_updnull(r, n);
    if (strcmp(op, "fin") == 0) return op_fin(r, n, false);
    if (strcmp(op, "finseek") == 0) return op_fin(r, n, true);
    if (strcmp(op, "reset") == 0) return op_reset(r, n);
    if (strcmp(op, "clone") == 0) return op_clone(r, n);
    if (strcmp(op, "same") == 0) return op_same(r, n, false);
    if (strcmp(op, "samelive") == 0) return op_same(r, n, true);
    if (strcmp(op, "rdp2") == 0) return op_arith(r, n, false);
    if (strcmp(op, "popcnt") == 0) return op_arith(r, n, true);
    return -1;
  }
  if (nt >= 2 && strcmp(t[0], "CK") == 0) {
    const char *op = t[1];
    char **r = t + 2;
    int n = nt - 2;
    if (strcmp(op, "cip") == 0) return ck_single(r, n, false);
    if (strcmp(op, "cxof") == 0) return ck_single(r, n, true);
    if (strcmp(op, "hmany") == 0) return ck_hmany(r, n);
    if (strcmp(op, "hmanysep") == 0) return ck_hmanysep(r, n);
    if (strcmp(op, "xofmany") == 0) return ck_xofmany(r, n);
    if (strcmp(op, "list") == 0) return ck_list(n);
    if (strcmp(op, "dirty") == 0) return ck_dirty(r, n);
    if (strcmp(op, "align") == 0) return ck_align(r, n);
    return -1;
  }
  return -1;
}

/* per-thread set-up of everything an op needs; returns the alternate stack (NULL = failure) */
static void *thread_setup(FILE *out) {
  cur_node = &root_node;
  g_out = out;
  if (!arena_need(&AR_HASHER, sizeof(blake3_hasher)) || !arena_need(&AR_CV, 32) ||
      !arena_need(&AR_BLK, 64) || !arena_need(&AR_PTR, 8) || !arena_need(&AR_IN, 1) ||
      !arena_need(&AR_OUT, 1) || !arena_need(&AR_DATA, 1))
    return NULL;
  return altstack_install();
}
static void thread_teardown(void *alt) {
  seps_free();
  arena_t *all[] = {&AR_CV, &AR_BLK, &AR_PTR, &AR_IN, &AR_OUT, &AR_HASHER, &AR_DATA};
  for (size_t i = 0; i < sizeof all / sizeof all[0]; i++)
    if (all[i]->base) munmap(all[i]->base, all[i]->cap + 2 * PAGE);
  for (size_t b = 0; b < NBUCKETS; b++)
    for (reg_t *r = buckets[b], *nx; r; r = nx) {
      nx = r->next;
      free(r);
    }
  altstack_remove(alt);
}

/* one input line (n bytes, without the newline; the buffer is modified) -> one output line */
static void process_line(char *line, size_t n) {
  /* a NUL inside the line would hide the rest from the tokenizer */
  bool has_nul = memchr(line, 0, n) != NULL;
  line[n] = 0;
  while (n && (line[n - 1] == '\n' || line[n - 1] == '\r' || line[n - 1] == ' ' ||
               line[n - 1] == '\t'))
    line[--n] = 0;
  char *s = line;
  while (*s == ' ' || *s == '\t') s++;
  if (*s == 0 && !has_nul) { /* empty line: empty output, like the Rust driver */
    fputc('\n', OUT);
    return;
  }
  char *tok[MAX_TOKENS];
  int nt = 0;
  bool bad = has_nul;
  while (!bad) {
    if (nt == MAX_TOKENS) {
      bad = true;
      break;
    }
    tok[nt++] = s;
    char *sp = strchr(s, ' ');
    if (!sp) break;
    *sp = 0;
    s = sp + 1;
  }
  if (bad || dispatch(tok, nt) != 0) fputs("bad-op", OUT);
  fputc('\n', OUT);
}

/* ---- cdriver --threads ----------------------------------------------------------------------
 * stdin = [preamble lines] { "#thread" section-lines }.  The preamble runs on the main thread;
 * then one thread per section, all released by a barrier; the output is printed afterwards in
 * input order with a `#thread` line before every section. */
typedef struct {
  char **lines; /* pointers into the input buffer */
  size_t *lens;
  size_t nlines;
  char *out; /* open_memstream */
  size_t outlen;
  pthread_t th;
  int err;
} section_t;
static pthread_barrier_t g_barrier;

static void *section_thread(void *v) {
  section_t *sec = v;
  FILE *f = open_memstream(&sec->out, &sec->outlen);
  void *alt = f ? thread_setup(f) : NULL;
  if (!alt) sec->err = 1;
  g_in_section = true;
  pthread_barrier_wait(&g_barrier); /* everybody is set up: go */
  if (!sec->err)
    for (size_t i = 0; i < sec->nlines; i++) process_line(sec->lines[i], sec->lens[i]);
  if (f) fclose(f);
  if (alt) thread_teardown(alt);
  return NULL;
}

static int threads_main(void) {
  /* read everything */
  size_t cap = 1 << 16, len = 0;
  char *buf = malloc(cap + 1);
  if (!buf) return 2;
  for (;;) {
    size_t k = fread(buf + len, 1, cap - len, stdin);
    len += k;
    if (k == 0) break;
    if (len == cap) {
      cap *= 2;
      char *nb = realloc(buf, cap + 1);
      if (!nb) return 2;
      buf = nb;
    }
  }
  /* split into lines; a final line without newline counts */
  size_t nl = 0;
  for (size_t i = 0; i < len; i++) nl += buf[i] == '\n';
  if (len && buf[len - 1] != '\n') nl++;
  char **lines = malloc((nl + 1) * sizeof *lines);
  size_t *lens = malloc((nl + 1) * sizeof *lens);
  section_t *secs = malloc((nl + 1) * sizeof *secs);
  if (!lines || !lens || !secs) return 2;
  size_t n = 0;
  for (size_t st = 0; st < len;) {
    char *e = memchr(buf + st, '\n', len - st);
    size_t ll = e ? (size_t)(e - (buf + st)) : len - st;
    lines[n] = buf + st;
    lens[n] = ll;
    n++;
    st += ll + 1;
  }
  /* sections */
  size_t nsec = 0, npre = n;
  for (size_t i = 0; i < n; i++) {
    size_t ll = lens[i];
    while (ll && (lines[i][ll - 1] == '\r' || lines[i][ll - 1] == ' ')) ll--;
    if (ll == 7 && memcmp(lines[i], "#thread", 7) == 0) {
      if (nsec == 0) npre = i;
      memset(&secs[nsec], 0, sizeof secs[nsec]);
      secs[nsec].lines = lines + i + 1;
      secs[nsec].lens = lens + i + 1;
      nsec++;
    } else if (nsec) {
      secs[nsec - 1].nlines++;
    }
  }
  /* preamble on the main thread (this is where `C feat <level>` goes).  Without a preamble
   * nothing has called into the library yet: g_cpu_features is still UNDEFINED. */
  for (size_t i = 0; i < npre; i++) process_line(lines[i], lens[i]);
  if (nsec) {
    if (pthread_barrier_init(&g_barrier, NULL, (unsigned)nsec) != 0) return 2;
    for (size_t i = 0; i < nsec; i++)
      if (pthread_create(&secs[i].th, NULL, section_thread, &secs[i]) != 0) {
        fputs("cdriver: pthread_create failed\n", stderr);
        _exit(2); /* the threads already started wait on the barrier */
      }
    for (size_t i = 0; i < nsec; i++) pthread_join(secs[i].th, NULL);
    pthread_barrier_destroy(&g_barrier);
  }
  int rc = 0;
  for (size_t i = 0; i < nsec; i++) {
    fputs("#thread\n", stdout);
    if (secs[i].err) {
      fputs("cdriver: thread set-up failed\n", stderr);
      rc = 2;
    }
    if (secs[i].out) fwrite(secs[i].out, 1, secs[i].outlen, stdout);
    free(secs[i].out);
  }
  fflush(stdout);
  free(secs);
  free(lens);
  free(lines);
  free(buf);
  return rc;
}

int main(int argc, char **argv) {
  PAGE = (size_t)sysconf(_SC_PAGESIZE);
  install_handlers();
  static char outbuf[1 << 16];
  setvbuf(stdout, outbuf, _IOFBF, sizeof outbuf);
  if (!thread_setup(stdout)) {
    fputs("cdriver: cannot allocate guard arenas\n", stderr);
    return 2;
  }
  if (argc == 2 && strcmp(argv[1], "--threads") == 0) return threads_main();
  if (argc != 1) {
    fputs("usage: cdriver [--threads] < ops\n", stderr);
    return 2;
  }

  char *line = NULL;
  size_t cap = 0;
  ssize_t got;
  while ((got = getline(&line, &cap, stdin)) >= 0) process_line(line, (size_t)got);
  free(line);
  fflush(stdout);
  return 0;
}
