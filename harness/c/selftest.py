#!/usr/bin/env python3
"""Self-test of the C harness.

  selftest.py <cdriver> [<rust driver>] [--seed=N] [--kernel-calls=N] [--threads-reps=N]
              [--threads-only=N] [--max-print=N]

1. protocol robustness: malformed lines give bad-op, one output line per input line
2. C ops against the Rust driver (H new / H upd / H fin / H xof + X setpos + X fill) over many
   lengths, all modes, all feature levels, split updates, finseek, reset, clone, same
3. C updtbb with every script against C upd
4. every CK flavour against CK portable on random arguments; no flag may fire
5. CK hmanysep (separately guarded inputs): clean with 64 bytes of slack, known over-reads listed
6. `cdriver --threads`: 16 sections x 50 ops per run, every section's output equal to the
   single-threaded run of that section (fresh process per repetition)
Exit status 0 iff everything agrees.
"""
import random
import subprocess
import sys

RS_DEFAULT = "/verif/harness/rs/target/release/b3-verif-harness"
LEVELS = ["portable", "sse2", "sse41", "avx2", "avx512"]
FLAVOURS = ["portable", "sse2_asm", "sse2_c", "sse41_asm", "sse41_c", "avx2_asm", "avx2_c",
            "avx512_asm", "avx512_c", "win_sse2_asm", "win_sse41_asm", "win_avx2_asm",
            "win_avx512_asm"]
FLAGWORDS = {"CANARY", "REGS", "FAULT", "MISMATCH", "MUTATED", "PANIC", "SAN"}


def run(exe, lines):
    p = subprocess.run([exe], input=("\n".join(lines) + "\n").encode(), stdout=subprocess.PIPE,
                       stderr=subprocess.PIPE)
    out = p.stdout.decode().split("\n")
    assert out[-1] == ""
    out = out[:-1]
    if p.returncode != 0 or len(out) != len(lines):
        print("driver %s: rc=%d, %d lines for %d ops\n%s" % (exe, p.returncode, len(out), len(lines),
                                                          p.stderr.decode()[-2000:]))
        sys.exit(1)
    if p.stderr:
        check(False, "driver %s wrote to stderr:\n%s" % (exe, p.stderr.decode()[:3000]))
    return out


fails = 0
MAXPRINT = 30


def check(cond, msg):
    global fails
    if not cond:
        fails += 1
        if fails < MAXPRINT:
            print("FAIL:", msg)


def rhex(rng, n):
    return "".join("%02x" % rng.randrange(256) for _ in range(n))


def test_protocol(cd):
    bad = ["foo", "C", "C fin", "C init", "C init a", "C init a keyed", "C init a keyed 00",
           "C init a keyed " + "0" * 63, "C init a keyed " + "g" * 64, "C init a derive 6100",
           "C init a derive 0", "C init a hash x", "C upd nosuch pat 1 1", "C upd", "C fin a -1",
           "C fin a 1 2", "C fin a 1x", "C fin a 18446744073709551616", "C fin a +1", "C fin a  1",
           "C finseek a 1", "C finseek a -1 1", "C feat avx", "C feat", "C clone a", "C same a",
           "C same a zz", "C updtbb a 3 pat 1 1", "C updtbb a pat 1 1", "C updtbb a 01",
           "C upd a pat 1", "C upd a pat x 1", "C upd a pats 1 1", "C upd a hex 0",
           "C upd a hex zz", "C upd a hex 00 00", "C upd a pat 1 1 1", "C upd a pat 99999999999 1",
           "CK", "CK cip", "CK cip portable", "CK cip nosuch " + "00" * 32 + " " + "00" * 64 + " 64 0 0",
           "CK cip portable " + "00" * 31 + " " + "00" * 64 + " 64 0 0",
           "CK cip portable " + "00" * 32 + " " + "00" * 64 + " 256 0 0",
           "CK cip portable " + "00" * 32 + " " + "00" * 64 + " 64 0 256",
           "CK hmany portable 1 1 0 " + "00" * 32 + " 0 2 0 0 0 0 0",
           "CK hmany portable 1 1 0 " + "00" * 32 + " 0 1 0 0 0 0",
           "CK hmany portable 99999999 99999999 0 " + "00" * 32 + " 0 1 0 0 0 0 0",
           "CK xofmany portable", "CK dirty 3", "H new a hash", "C init " + "n" * 65 + " hash",
           "C\tinit a hash", "C init a hash ", "\x00", "C fin a 1\x00"]
    lines = ["C init a hash"] + bad + ["", "C fin a 4"]
    out = run(cd, lines)
    check(out[0] == "ok", "init")
    for ln, o in zip(bad, out[1:]):
        # a trailing blank is trimmed like in the Rust driver
        if ln == "C init a hash ":
            check(o == "ok", "trailing blank: %r" % o)
        else:
            check(o == "bad-op", "expected bad-op for %r, got %r" % (ln, o[:40]))
    check(out[-2] == "", "empty line")
    check(out[-1] == "af1349b9", "state survived the malformed lines: " + out[-1])


def test_c_vs_rust(cd, rs, rng):
    lens = [0, 1, 2, 3, 31, 32, 33, 63, 64, 65, 127, 128, 129, 1023, 1024, 1025, 2047, 2048, 2049,
            3071, 3072, 3073, 4095, 4096, 4097, 5120, 6144, 7168, 8191, 8192, 8193, 16384, 16385,
            31744, 32768, 32769, 65536, 65537, 100000, 131072, 131073, 262144 + 1024 + 7, 1 << 20,
            (1 << 20) + 1, 3 * (1 << 20) + 12345]
    key = rhex(rng, 32)
    modes = [("hash", "hash"), ("keyed " + key, "keyed " + key),
             ("derive " + b"selftest 2026 context".hex(), "derive " + b"selftest 2026 context".hex()),
             ("derive -", "derive -")]
    for level in LEVELS:
        cl, rl = ["C feat " + level], ["P plat " + level]
        pairs = []  # (index in C output, index in Rust output, description)
        for mi, (cm, rm) in enumerate(modes):
            for n in lens:
                if mi and n > 140000 and n % 1024 == 0:
                    continue
                seed = rng.randrange(1 << 64)
                outlen = rng.choice([0, 1, 31, 32, 33, 63, 64, 65, 127, 128, 129, 200, 1000, 4099])
                seek = rng.choice([0, 1, 63, 64, 65, 1000, (1 << 32) * 64 - 7, (1 << 64) - outlen - 1,
                                   rng.randrange(1 << 40)])
                tag = "%s %s len %d" % (level, cm[:6], n)
                # one-shot
                c0, r0 = len(cl), len(rl)
                cl += ["C init a " + cm, "C upd a pat %d %d" % (n, seed), "C fin a 32",
                       "C fin a %d" % outlen, "C finseek a %d %d" % (seek, outlen)]
                rl += ["H new a " + rm, "H upd a pat %d %d" % (n, seed), "H fin a", "H xof a x",
                       "X fill x %d" % outlen, "H xof a y", "X setpos y %d" % seek,
                       "X fill y %d" % outlen]
                pairs += [(c0 + 2, r0 + 2, "fin32 " + tag),
                          (c0 + 3, r0 + 4, "fin out %d %s" % (outlen, tag)),
                          (c0 + 4, r0 + 7, "finseek %d out %d %s" % (seek, outlen, tag))]
                # split at a random point (pats continues the same stream) + clone + reset
                # (the state after a split update legitimately differs from the one-shot state: lazy merging)
                k = rng.randrange(n + 1)
                c1, r1 = len(cl), len(rl)
                cl += ["C init b " + cm, "C upd b pats %d %d 0" % (k, seed), "C clone b c",
                       "C upd c pats %d %d %d" % (n - k, seed, k), "C fin c 32", "C samelive a c",
                       "C reset c", "C upd c pat %d %d" % (n, seed), "C fin c 32",
                       "C samelive a c", "C fin b 32"]
                rl += ["H new b " + rm, "H upd b pat %d %d" % (k, seed), "H fin b"]
                pairs += [(c1 + 4, r0 + 2, "split@%d %s" % (k, tag)),
                          (c1 + 8, r0 + 2, "reset " + tag),
                          (c1 + 10, r1 + 2, "prefix@%d %s" % (k, tag)),
                          (c1 + 9, None, "samelive-reset " + tag)]
        co, ro = run(cd, cl), run(rs, rl)
        check(co[0] == "ok" and ro[0] == "ok", "feature level %s unsupported here" % level)
        for ci, ri, what in pairs:
            if ri is None:
                check(co[ci] == "eq", "%s: %s" % (what, co[ci]))
            else:
                check(co[ci] == ro[ri], "%s: C %s.. Rust %s.." % (what, co[ci][:32], ro[ri][:32]))
        for o in co:
            check(not (set(o.split(" ")) & FLAGWORDS), "flag fired: " + o[-40:])
    # initraw with NUL bytes == ctxkey route of the Rust crate
    ctx = "00" + rhex(rng, 40) + "00"
    co = run(cd, ["C initraw a " + ctx, "C upd a pat 5000 9", "C fin a 32", "C init a derive " + ctx,
                  "C initraw b " + b"abc".hex(), "C init c derive " + b"abc".hex(), "C same b c"])
    check(co[3] == "bad-op" and co[6] == "eq", "initraw/derive: %r" % co)


def test_tbb(cd, rng):
    lines, expect = [], []
    for level in LEVELS:
        lines.append("C feat " + level)
        expect.append(None)
        for n in [0, 1, 1024, 1025, 2048, 2049, 4096, 8192, 8193, 16384, 16385, 32768, 65536, 65537,
                  131072 + 5, (1 << 20) + 77, rng.randrange(1 << 21)]:
            seed = rng.randrange(1 << 64)
            lines += ["C init r hash", "C upd r pat %d %d" % (n, seed), "C fin r 32"]
            expect += [None, None, None]
            ref = len(lines) - 1
            for script in ["-", "0", "1", "2", "012", "21", "2202110", rhex(rng, 8).translate(str.maketrans("3456789abcdef", "0120120120120"))]:
                lines += ["C init t hash", "C updtbb t %s pat %d %d" % (script, n, seed), "C fin t 32",
                          "C same r t"]
                expect += [None, "join", ref, "eq"]
    out = run(cd, lines)
    joins = {}
    for i, (ln, e) in enumerate(zip(lines, expect)):
        if e == "eq":
            check(out[i] == "eq", "tbb same: %s -> %s" % (lines[i - 2], out[i]))
        elif e == "join":
            check(out[i].startswith("ok "), "updtbb: %s -> %s" % (ln, out[i]))
            key = (ln.split(" ")[-2], ln.split(" ")[-1], [l for l in lines[:i] if l.startswith("C feat")][-1])
            joins.setdefault(key, set()).add(out[i])
        elif isinstance(e, int):
            check(out[i] == out[e], "tbb result: %s -> %s vs %s" % (lines[i - 1], out[i], out[e]))
    for k, v in joins.items():
        check(len(v) == 1, "join count depends on the script: %s %s" % (k, v))
    print("  updtbb join counts seen:", sorted({int(x.split(" ")[1]) for v in joins.values() for x in v})[:12], "...")


def counters(rng):
    return rng.choice([0, 1, (1 << 32) - 1, 1 << 32, (1 << 32) + 1, (1 << 32) - rng.randrange(1, 41),
                       (1 << 63), (1 << 64) - 1, (1 << 64) - rng.randrange(1, 41),
                       rng.randrange(1 << 64), rng.randrange(1 << 34)])


def test_kernels(cd, rng, calls):
    lines, meta = [], []
    listing = run(cd, ["CK list"])[0].split(" ")
    have = {x.split(":")[0]: x.split(":")[1] for x in listing}
    check(all(x.endswith(":cpu") for x in listing), "CPU lacks some instruction set: %s" % listing)
    check(have.get("avx512_asm") == "ixhm" and have.get("sse2_asm") == "ixh-" and
          have.get("avx2_asm") == "--h-" and have.get("win_avx512_asm") == "ixh-" and
          have.get("avx512_c") == "ixhm" and have.get("win_sse41_asm") == "ixh-",
          "unexpected kernel table: %s" % listing)
    lines.append("CK dirty 0")
    meta.append(None)
    for _ in range(calls):
        kind = rng.choice(["cip", "cxof", "hmany", "hmany", "hmany", "xofmany"])
        if kind in ("cip", "cxof"):
            args = "%s %s %d %d %d" % (rhex(rng, 32), rhex(rng, 64), rng.randrange(65),
                                       counters(rng), rng.randrange(256))
        elif kind == "hmany":
            fl = [rng.choice([0, 0, rng.randrange(256)]) for _ in range(3)]
            args = "%d %d %d %s %d %d %d %d %d %d %d" % (
                rng.randrange(41), rng.choice([1, 1, 16, 16, 2, 3]), rng.randrange(1 << 64),
                rhex(rng, 32), counters(rng), rng.randrange(2), fl[0], fl[1], fl[2],
                rng.choice([0, rng.randrange(64), rng.randrange(200)]),
                rng.choice([0, rng.randrange(32), rng.randrange(200)]))
        else:
            args = "%s %s %d %d %d %d" % (rhex(rng, 32), rhex(rng, 64), rng.randrange(65),
                                          counters(rng), rng.randrange(256), rng.randrange(1, 41))
        grp = []
        for f in FLAVOURS:
            lines.append("CK %s %s %s" % (kind, f, args))
            grp.append(len(lines) - 1)
            meta.append(None)
        meta[grp[0]] = grp
    out = run(cd, lines)
    n_cmp = n_uns = 0
    for m in meta:
        if not m:
            continue
        ref = out[m[0]]
        if lines[m[0]].startswith("CK xofmany"):
            # no portable xof_many: the reference is n x compress_xof, checked below
            ref = None
        for i in m:
            if out[i] == "unsupported":
                n_uns += 1
                continue
            if ref is None:
                ref = out[i]
            n_cmp += 1
            check(out[i] == ref, "%s\n   -> %s\n  ref %s" % (lines[i][:110], out[i][-60:], ref[-60:]))
    # informational: the same calls with garbage in the unused upper bits of the 8-bit arguments
    for dirty in (1, 2):
        o2 = run(cd, ["CK dirty %d" % dirty] + lines[1:])
        diff = {}
        for ln, a, b in zip(lines[1:], out[1:], o2[1:]):
            if a != b:
                k = " ".join(ln.split(" ")[1:3])
                diff[k] = diff.get(k, 0) + 1
        print("  CK dirty %d: results that change: %s" % (dirty, diff if diff else "none"))
    # xof_many against n x compress_xof (portable)
    xl, idx = [], []
    for i, ln in enumerate(lines):
        t = ln.split(" ")
        if t[:3] == ["CK", "xofmany", "avx512_asm"]:
            n = int(t[8])
            idx.append((i, len(xl), n))
            for j in range(n):
                xl.append("CK cxof portable %s %s %s %d %s" % (t[3], t[4], t[5], (int(t[6]) + j) % (1 << 64), t[7]))
    xo = run(cd, xl)
    for i, s, n in idx:
        check(out[i] == "".join(xo[s:s + n]), "xofmany vs cxof: " + lines[i][:80])
    print("  kernel calls compared: %d (unsupported combinations: %d, xof_many cross-checks: %d)" % (n_cmp, n_uns, len(idx)))


def test_kernels_vs_rust(cd, rs, rng):
    """a few kernel calls against the Rust crate's Platform methods"""
    cl, rl = [], []
    for _ in range(300):
        cv, blk = rhex(rng, 32), rhex(rng, 64)
        bl, ctr, fl = rng.randrange(65), counters(rng), rng.randrange(256)
        cl.append("CK cip portable %s %s %d %d %d" % (cv, blk, bl, ctr, fl))
        rl.append("K cip portable %s %s %d %d %d" % (cv, blk, bl, ctr, fl))
        cl.append("CK cxof sse41_asm %s %s %d %d %d" % (cv, blk, bl, ctr, fl))
        rl.append("K cxof sse41 %s %s %d %d %d" % (cv, blk, bl, ctr, fl))
        a = "%d %d %d %s %d %d %d %d %d %d %d" % (rng.randrange(41), rng.choice([1, 16]), rng.randrange(1 << 64),
                                                 rhex(rng, 32), ctr, rng.randrange(2), fl, rng.randrange(256),
                                                 rng.randrange(256), rng.randrange(64), rng.randrange(32))
        p = rng.choice(["sse2", "sse41", "avx2", "avx512"])
        cl.append("CK hmany %s_asm %s" % (p, a))
        rl.append("K hmany %s %s" % (p, a))
    co, ro = run(cd, cl), run(rs, rl)
    for c, r, ln in zip(co, ro, cl):
        check(c == r, "vs Rust: %s: %s / %s" % (ln[:60], c[:40], r[:40]))


def test_hmanysep(cd, rng):
    """CK hmanysep: separately guarded inputs.  With 64 readable bytes after every input nothing may
    fault and every flavour must equal portable; with slack 0 the flavours known to over-read
    (AVX2 / AVX-512 assembly, n % 8 in 2..7) are listed, every other flavour must be clean."""
    lines, meta = [], []
    for f in FLAVOURS:
        for b in (1, 16, 64):
            for n in list(range(0, 18)) + [33, 64]:
                a = "%d %d %d %s %d %d %d %d %d" % (n, b, rng.randrange(1 << 64), rhex(rng, 32), counters(rng),
                                                  rng.randrange(2), rng.randrange(256), rng.randrange(256), rng.randrange(256))
                lines += ["CK hmanysep %s %s" % (f, a), "CK hmanysep %s %s 64" % (f, a), "CK hmany portable %s 0 0" % a,
                          "CK hmany %s %s 0 0" % (f, a)]
                meta.append((f, b, n))
    out = run(cd, lines)
    faulty = {}
    for i, (f, b, n) in enumerate(meta):
        sep0, sep64, ref, adj = out[4 * i:4 * i + 4]
        check(sep64 == ref, "hmanysep slack 64 %s n %d blocks %d: %s" % (f, n, b, sep64[-40:]))
        check(adj == ref, "hmany %s n %d blocks %d: %s" % (f, n, b, adj[-40:]))
        if sep0 != ref:
            check("FAULT" in sep0.split(" "), "hmanysep %s n %d blocks %d differs without FAULT: %s" % (f, n, b, sep0[-40:]))
            check(f in ("avx2_asm", "avx512_asm", "win_avx2_asm", "win_avx512_asm"),
                  "hmanysep %s n %d blocks %d: %s" % (f, n, b, sep0[-40:]))
            faulty.setdefault(f, set()).add(n)
    for f, ns in sorted(faulty.items()):
        print("  hmanysep FAULT (input over-read) %-15s n = %s" % (f, sorted(ns)))
    bad = ["CK hmanysep portable 1 1 0 " + "00" * 32 + " 0 1 0 0", "CK hmanysep portable 257 1 0 " + "00" * 32 + " 0 1 0 0 0",
           "CK hmanysep portable 2 1 0 " + "00" * 32 + " 0 1 0 0 0 0 2", "CK hmanysep portable 2 1 0 " + "00" * 32 + " 0 1 0 0 0 0 1 1",
           "CK hmanysep portable 2 1025 0 " + "00" * 32 + " 0 1 0 0 0"]
    for ln, o in zip(bad, run(cd, bad)):
        check(o == "bad-op", "expected bad-op: %s -> %s" % (ln, o[:30]))


def gen_section(rng, nops=50):
    """an op script for one thread of `cdriver --threads`: mixed C and CK ops, own registers"""
    ops = ["C init a hash"]
    regs = ["a"]
    while len(ops) < nops:
        k = rng.randrange(15)
        r = rng.choice(regs)
        if k == 0:
            nr = rng.choice("abcd")
            mode = rng.choice(["hash", "keyed " + rhex(rng, 32), "derive " + rhex(rng, rng.randrange(40)).replace("00", "01")])
            ops.append("C init %s %s" % (nr, mode))
            if nr not in regs:
                regs.append(nr)
        elif k <= 3:
            n = rng.choice([0, 1, 63, 64, 65, 1023, 1024, 1025, 2048, 4097, 16384, 17000, 65536, 70001, rng.randrange(200000)])
            ops.append("C upd %s pat %d %d" % (r, n, rng.randrange(1 << 64)))
        elif k == 4:
            ops.append("C updtbb %s %s pat %d %d" % (r, rng.choice(["-", "1", "2", "012"]), rng.randrange(150000), rng.randrange(1 << 64)))
        elif k <= 6:
            ops.append("C fin %s %d" % (r, rng.choice([0, 1, 32, 64, 65, 200, 1000])))
        elif k == 7:
            ops.append("C finseek %s %d %d" % (r, counters(rng), rng.choice([1, 32, 63, 130])))
        elif k == 8:
            ops.append(rng.choice(["C reset %s" % r, "C clone %s %s" % (r, rng.choice(regs)), "C same %s %s" % (r, rng.choice(regs))]))
        elif k <= 10:
            ops.append("CK %s %s %s %s %d %d %d" % (rng.choice(["cip", "cxof"]), rng.choice(FLAVOURS), rhex(rng, 32), rhex(rng, 64),
                                                   rng.randrange(65), counters(rng), rng.randrange(256)))
        elif k <= 12:
            ops.append("CK hmany %s %d %d %d %s %d %d %d %d %d %d %d" % (
                rng.choice(FLAVOURS), rng.randrange(35), rng.choice([1, 16]), rng.randrange(1 << 64), rhex(rng, 32),
                counters(rng), rng.randrange(2), rng.randrange(256), rng.randrange(256), rng.randrange(256),
                rng.randrange(64), rng.randrange(32)))
        elif k == 14:
            ops.append("CK hmanysep %s %d %d %d %s %d %d %d %d %d" % (
                rng.choice(FLAVOURS), rng.randrange(20), rng.choice([1, 16]), rng.randrange(1 << 64), rhex(rng, 32),
                counters(rng), rng.randrange(2), rng.randrange(256), rng.randrange(256), rng.randrange(256)))
        else:
            ops.append("CK xofmany %s %s %s %d %d %d %d" % (rng.choice(["avx512_asm", "avx512_c", "sse41_asm"]), rhex(rng, 32), rhex(rng, 64),
                                                         rng.randrange(65), counters(rng), rng.randrange(256), rng.randrange(1, 20)))
    return ops


def run_threads(exe, text):
    p = subprocess.run([exe, "--threads"], input=text.encode(), stdout=subprocess.PIPE, stderr=subprocess.PIPE)
    return p.returncode, p.stdout.decode(), p.stderr.decode()


def test_threads(cd, rng, reps, nsec=16):
    """cdriver --threads: every section's output must equal the single-threaded run of that section"""
    # structure / edge cases
    rc, out, err = run_threads(cd, "")
    check(rc == 0 and out == "" and err == "", "empty input: %r %r" % (out, err))
    rc, out, err = run_threads(cd, "C feat sse2\nC featmask\n#thread\n#thread\nC feat avx2\nC featmask\n\nfoo\n#thread \nC init a hash\nC fin a 4")
    check(rc == 0 and out == "ok\n1 4 127\n#thread\n#thread\nbad-op\n1 4 127\n\nbad-op\n#thread\nok\naf1349b9\n" and err == "",
          "structure: %r %r" % (out, err))
    rc, out, err = run_threads(cd, "#thread\nC init a hash\n#thread\nC fin a 4\n")
    check(out == "#thread\nok\n#thread\nbad-op\n", "registers are per thread: %r" % out)
    n_lines = 0
    for rep in range(reps):
        secs = [gen_section(rng) for _ in range(nsec)]
        pre = [] if rep % 2 == 0 else ["C feat " + rng.choice(LEVELS)]
        expected = "".join(l + "\n" for l in run(cd, pre)) if pre else ""
        for sec in secs:
            o = run(cd, pre + sec)
            expected += "#thread\n" + "".join(l + "\n" for l in o[len(pre):])
        text = "".join(l + "\n" for l in pre) + "".join("#thread\n" + "".join(l + "\n" for l in sec) for sec in secs)
        rc, out, err = run_threads(cd, text)
        n_lines += text.count("\n")
        check(rc == 0 and err == "", "threads rep %d: rc %d stderr %s" % (rep, rc, err[:1500]))
        if out != expected:
            a, b = out.split("\n"), expected.split("\n")
            d = [i for i in range(min(len(a), len(b))) if a[i] != b[i]]
            check(False, "threads rep %d (preamble %s): %d/%d lines; first difference at line %s: %s / %s" % (
                rep, pre, len(a), len(b), d[:1], a[d[0]][:60] if d else "", b[d[0]][:60] if d else ""))
    print("  %d repetitions x %d sections, %d input lines in total" % (reps, nsec, n_lines))


def main():
    args = [a for a in sys.argv[1:] if not a.startswith("--")]
    opts = dict(a[2:].split("=") for a in sys.argv[1:] if a.startswith("--"))
    cd = args[0]
    rs = args[1] if len(args) > 1 else RS_DEFAULT
    rng = random.Random(int(opts.get("seed", "20260922")))
    calls = int(opts.get("kernel-calls", "3000"))
    global MAXPRINT
    MAXPRINT = int(opts.get("max-print", "30"))
    if "threads-only" in opts:
        print("threads mode"); test_threads(cd, rng, int(opts["threads-only"]))
        print("FAILURES: %d" % fails)
        sys.exit(1 if fails else 0)
    print("protocol"); test_protocol(cd)
    print("C ops vs Rust driver"); test_c_vs_rust(cd, rs, rng)
    print("updtbb"); test_tbb(cd, rng)
    print("kernels"); test_kernels(cd, rng, calls)
    print("kernels vs Rust"); test_kernels_vs_rust(cd, rs, rng)
    print("hmanysep"); test_hmanysep(cd, rng)
    print("threads mode"); test_threads(cd, rng, int(opts.get("threads-reps", "10")))
    print("FAILURES: %d" % fails)
    sys.exit(1 if fails else 0)


main()
