/* Call trampolines: see tramp.S.  The layout of struct tramp is known to tramp.S (offsets!). */
#ifndef TRAMP_H
#define TRAMP_H
#include <stdint.h>

enum { TR_RBX, TR_RBP, TR_R12, TR_R13, TR_R14, TR_R15, TR_RSI, TR_RDI, TR_NGPR };

struct tramp {
  void *fn;                  /*   0 */
  uint64_t a[10];            /*   8 : integer arguments 1..10 (extra ones are harmless) */
  uint64_t sent[TR_NGPR];    /*  88 : sentinels loaded before the call */
  uint64_t got[TR_NGPR];     /* 152 : register contents after the call */
  uint64_t rsp_before;       /* 216 : rsp at the call instruction */
  uint64_t rsp_after;        /* 224 : rsp right after the callee returned */
  uint64_t rflags_after;     /* 232 */
  uint64_t host_rsp;         /* 240 */
  uint32_t mxcsr_before;     /* 248 */
  uint32_t mxcsr_after;      /* 252 */
  uint8_t xmm_sent[10][16];  /* 256 : xmm6..xmm15 (win64 only) */
  uint8_t xmm_got[10][16];   /* 416 */
  uint64_t align_off;        /* 576 : extra bytes (0, 16, 32, 48) subtracted from rsp before the arguments are pushed */
};                           /* 584 */

/* Both trampolines are themselves System V functions.  tramp_sysv calls t->fn with the System V
 * convention, tramp_win64 with the Microsoft x64 convention.  One call at a time per thread (thread-local slot). */
void tramp_sysv(struct tramp *t);
void tramp_win64(struct tramp *t);

#endif
