"""Stages: a unit of dynamic checking inside one property check."""
import json

from . import core
from .core import Script


class LineStage:
    """scripts -> (implementation driver, Lean driver) -> three-way diff"""

    def __init__(self, name, scripts, impl="rs", features=(), normalize=None, max_minimise=3, impl_exe=None, oracle=None, profile=None):
        self.name = name
        self.scripts = scripts
        self.impl = impl
        self.features = tuple(features)
        self.normalize = normalize
        self.max_minimise = max_minimise
        self.impl_exe = impl_exe
        self.oracle = oracle
        self.profile = profile

    def build_impl(self):
        if self.impl_exe:
            return True, self.impl_exe, ""
        if self.impl == "rs":
            return core.build_rs(self.features, self.profile) if self.profile else core.build_rs(self.features)
        if self.impl == "rs_min":
            return core.build_rs_min(self.features)
        if self.impl == "c":
            return core.build_c()
        if self.impl == "c_ci":
            ok, exe, log = core.build_c()
            return ok, exe + "_ci", log
        if self.impl == "c_asan":
            return core.build_c_asan()
        if self.impl == "c_s2":
            ok, exe, log = core.build_c()
            return ok, exe + "_s2", log
        if self.impl == "c_nd":
            ok, exe, log = core.build_c()
            return ok, exe + "_nd", log
        if self.impl == "b3sum":
            return core.build_b3sum()
        raise core.InternalError(f"unknown impl {self.impl}")

    def run(self, lean_exe):
        ok, exe, log = self.build_impl()
        mism_out = []
        if not ok:
            # the implementation no longer builds with the harness: a correspondence break
            mism_out.append(dict(kind="driver-crash", impl_name=self.impl, ops=[], note="implementation harness does not build",
                                 log_tail=log[-3000:]))
            return dict(evaluations=0, distinct=set(), mismatches=mism_out, samples=[], hist={})
        mism = core.run_pair(self.scripts, exe, lean_exe, self.impl + ("+" + ",".join(self.features) if self.features else ""),
                             self.normalize, oracle=self.oracle)
        seen_kinds = {}
        for m in mism:
            seen_kinds[m.kind] = seen_kinds.get(m.kind, 0) + 1
        done = {}
        reported = set()
        for m in mism:
            # at most max_minimise minimised reports per class of failing op (kind, first three tokens of the op);
            # every further mismatch is still reported, unminimised, so that a known finding can never hide a new one
            cls = (m.kind, " ".join(m.script.ops[m.index].split(" ")[:3]) if m.index < len(m.script.ops) else "")
            if done.get(cls, 0) >= self.max_minimise or len(reported) >= 16:
                mm, minimised = m, False
            else:
                done[cls] = done.get(cls, 0) + 1
                mm, minimised = core.minimise(m, exe, lean_exe, self.normalize, oracle=self.oracle), True
            key = (mm.kind, tuple(mm.script.ops))
            if key in reported:
                continue
            reported.add(key)
            mism_out.append(dict(kind=mm.kind, impl_name=mm.impl_name, ops=mm.script.ops, failing_op_index=mm.index,
                                 impl_output=mm.impl[:2000], model_output=mm.model[:2000], spec_output=mm.spec[:2000],
                                 impl_differs=(mm.impl != mm.model), minimised=minimised,
                                 original_script_len=len(m.script.ops), total_mismatching_scripts=len(mism),
                                 replay_hint="feed `ops` to harness/rs (or harness/c) and to lean/.lake/build/bin/driver and compare line by line"))
        distinct = {sc.key() for sc in self.scripts if sc.nontrivial}
        hist = {}
        for sc in self.scripts:
            for t in sc.tags:
                hist[t] = hist.get(t, 0) + 1
        return dict(evaluations=sum(len(sc.ops) for sc in self.scripts), distinct=distinct, mismatches=mism_out,
                    samples=[sc.ops[:12] for sc in self.scripts[:2]] + [sc.ops[:12] for sc in self.scripts[-1:]], hist=hist)


def replay_line(d, lean_exe, impl="rs", features=(), normalize=None, oracle=None):
    st = LineStage("replay", [Script(d.get("ops", []))], impl=impl, features=features, normalize=normalize, max_minimise=0, oracle=oracle)
    ok, exe, log = st.build_impl()
    if not ok:
        return dict(still_fails=True, note="implementation harness does not build", log=log[-2000:])
    mism = core.run_pair(st.scripts, exe, lean_exe, impl, normalize, oracle=oracle)
    return dict(still_fails=bool(mism), mismatches=[dict(kind=m.kind, index=m.index, impl=m.impl[:500], model=m.model[:500], spec=m.spec[:500]) for m in mism])
