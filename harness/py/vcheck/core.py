"""
Orchestrator core: locking, translator, lake/cargo/make builds, axiom audit, running the drivers on
op scripts, three-way comparison, delta-debugging, replay files, known findings, evidence.
"""
import fcntl
import json
import os
import random
import re
import subprocess
import sys
import tempfile
import time

VERIF = os.path.abspath(os.path.join(os.path.dirname(__file__), "..", "..", ".."))
REPO = os.environ.get("VERIF_REPO", "/repo")
LEAN_DIR = os.path.join(VERIF, "lean")
RS_DIR = os.path.join(VERIF, "harness", "rs")
C_DIR = os.path.join(VERIF, "harness", "c")
B3SUM_DIR = os.path.join(VERIF, "harness", "b3sum")
EVID = os.path.join(VERIF, "evidence")
REPLAY_DIR = os.path.join(EVID, "replay")
AXIOM_WHITELIST = {"propext", "Classical.choice", "Quot.sound"}
HYGIENE_RE = re.compile(r"sorry|\badmit\b|^axiom |native_decide|bv_decide|implemented_by|unsafe |maxHeartbeats 0\b")

TRUSTED_BASE = [
    "Lean 4.33.0 kernel (thorough tier: re-checked by leanchecker); axioms allowed: propext, Classical.choice, Quot.sound",
    "B3/Spec.lean: transcription of the BLAKE3 paper, pinned by the official test vectors (C15)",
    "gen/extract.py and its primitive mapping (wrapping_add, rotate_right, casts, shifts), validated by running generated code against the real kernels",
    "hand-written models in B3/Model/*.lean, tied to the code only by this run's correspondence check",
    "the correspondence harness (harness/rs, harness/c, harness/py) and the identical-LCG assumption",
]


class Lock:
    def __enter__(self):
        self.f = open(os.path.join(VERIF, ".lock"), "w")
        fcntl.flock(self.f, fcntl.LOCK_EX)
        return self

    def __exit__(self, *a):
        fcntl.flock(self.f, fcntl.LOCK_UN)
        self.f.close()


def run(cmd, cwd=None, timeout=None, env=None, input=None):
    e = dict(os.environ)
    e["CARGO_NET_OFFLINE"] = "true"
    if env:
        e.update(env)
    p = subprocess.run(cmd, cwd=cwd, stdout=subprocess.PIPE, stderr=subprocess.STDOUT, timeout=timeout, env=e,
                       input=input, text=True)
    return p.returncode, p.stdout


# --------------------------------------------------------------------------------------------
# result of the static half (translator + proofs)


class Static:
    def __init__(self):
        self.translation_broken = []   # list of dicts
        self.spans = []
        self.theorems = []             # names
        self.axioms = {}               # name -> list
        self.build_ok = True
        self.build_log = ""
        self.hygiene_hits = []
        self.bad_axioms = {}
        self.failed_theorems = []      # names mentioned in errors
        self.leanchecker = None

    @property
    def ok(self):
        return (not self.translation_broken and self.build_ok and not self.hygiene_hits and not self.bad_axioms)

    def obligations(self):
        return len(self.theorems)

    def discharged(self):
        if not self.build_ok:
            return 0
        return len([t for t in self.theorems if t in self.axioms and t not in self.bad_axioms])


def run_translator():
    rc, out = run([sys.executable, os.path.join(VERIF, "gen", "extract.py")])
    st_path = os.path.join(LEAN_DIR, "B3", "Gen", "status.json")
    try:
        with open(st_path) as f:
            return json.load(f)
    except Exception:
        return {"ok": [], "broken": [{"artefact": "translator", "reason": out[-2000:]}], "spans": []}


def props_file(pid):
    return os.path.join(LEAN_DIR, "B3", "Props", f"{pid}.lean")


def strip_lean_comments(text):
    # nested block comments are rare in our files; handle one level, then line comments
    text = re.sub(r"/-.*?-/", lambda m: re.sub(r"[^\n]", " ", m.group(0)), text, flags=re.S)
    text = re.sub(r"--[^\n]*", "", text)
    return text


def hygiene_scan():
    hits = []
    for root, dirs, files in os.walk(LEAN_DIR):
        if ".lake" in root:
            continue
        for fn in files:
            if not fn.endswith(".lean"):
                continue
            p = os.path.join(root, fn)
            with open(p, encoding="utf-8") as f:
                text = strip_lean_comments(f.read())
            for i, line in enumerate(text.split("\n"), 1):
                if HYGIENE_RE.search(line):
                    hits.append(f"{os.path.relpath(p, VERIF)}:{i}: {line.strip()[:120]}")
    return hits


def theorems_of(text):
    """fully qualified names of the `theorem`s of a Lean file (comments already stripped), following nested namespaces"""
    out, stack = [], []
    for line in text.split("\n"):
        m = re.match(r"^namespace\s+(\S+)", line)
        if m:
            stack.append(m.group(1))
            continue
        m = re.match(r"^end\s+(\S+)", line)
        if m and stack and stack[-1] == m.group(1):
            stack.pop()
            continue
        m = re.match(r"^theorem\s+(\S+)", line)
        if m:
            nm = m.group(1)
            out.append(nm[7:] if nm.startswith("_root_.") else ".".join(stack + [nm]))
    return out


def static_check(pid, tier, deps_artefacts=None, props_module=None, props_path=None, extra_props=()):
    """translator + lake build of the property's theorem file(s) + axiom audit; extra_props = [(module, path under lean/)]:
    further theorem-only files of the property (theorems about translated code that sit above the first file)"""
    s = Static()
    props_module = props_module or f"B3.Props.{pid}"
    tr = run_translator()
    s.spans = tr.get("spans", [])
    for b in tr.get("broken", []):
        if deps_artefacts is None or b.get("artefact") in deps_artefacts or b.get("artefact") == "translator":
            s.translation_broken.append(b)
    pf = os.path.join(LEAN_DIR, props_path) if props_path else props_file(pid)
    with open(pf, encoding="utf-8") as f:
        text = strip_lean_comments(f.read())
    s.theorems = theorems_of(text)
    modules = [props_module]
    for mod, rel in extra_props:
        modules.append(mod)
        with open(os.path.join(LEAN_DIR, rel), encoding="utf-8") as f:
            t2 = strip_lean_comments(f.read())
        s.theorems += theorems_of(t2)
    rc, out = run(["lake", "build"] + modules + ["driver"], cwd=LEAN_DIR, timeout=3600)
    s.build_log = out
    if rc != 0:
        s.build_ok = False
        for m in re.finditer(r"error: ([^\n]*)", out):
            s.failed_theorems.append(m.group(1)[:300])
        return s
    # axiom audit: a generated file that imports the theorem file and prints the axioms of every theorem
    with tempfile.NamedTemporaryFile("w", suffix=".lean", dir=LEAN_DIR, delete=False) as tf:
        for mod in modules:
            tf.write(f"import {mod}\n")
        for t in s.theorems:
            tf.write(f"#print axioms {t}\n")
        tmp = tf.name
    try:
        rc, out = run(["lake", "env", "lean", tmp], cwd=LEAN_DIR, timeout=1800)
    finally:
        os.unlink(tmp)
    for m in re.finditer(r"'([^']+)' depends on axioms: \[([^\]]*)\]", out):
        s.axioms[m.group(1)] = [a.strip() for a in m.group(2).replace("\n", " ").split(",") if a.strip()]
    for m in re.finditer(r"'([^']+)' does not depend on any axioms", out):
        s.axioms[m.group(1)] = []
    for t, ax in s.axioms.items():
        bad = [a for a in ax if a not in AXIOM_WHITELIST]
        if bad:
            s.bad_axioms[t] = bad
    missing = [t for t in s.theorems if t not in s.axioms]
    if missing:
        s.build_ok = False
        s.failed_theorems += [f"no axiom report for {t}" for t in missing]
        s.build_log += "\n" + out[-3000:]
    s.hygiene_hits = hygiene_scan()
    if tier == "thorough":
        rc, out = run(["lake", "env", "leanchecker"] + modules, cwd=LEAN_DIR, timeout=3600)
        s.leanchecker = (rc == 0)
        if rc != 0:
            s.build_ok = False
            s.failed_theorems.append("leanchecker: " + out[-500:])
    return s


# --------------------------------------------------------------------------------------------
# building and running the drivers

_built = {}


def build_rs(features=(), profile=None):
    key = ("rs", profile) + tuple(features)
    if key in _built:
        return _built[key]
    lock = os.path.join(RS_DIR, "Cargo.lock")
    if not os.path.exists(lock):
        import shutil
        shutil.copy(os.path.join(REPO, "Cargo.lock"), lock)
    target = os.path.join(RS_DIR, "target" if not features else "target-" + "-".join(features))
    cmd = ["cargo", "build", "--offline", "--target-dir", target] + (["--profile", profile] if profile else ["--release"])
    # the pseudo-feature `native` is not a Cargo feature: it compiles the crate for the build machine's own CPU
    # (RUSTFLAGS -C target-cpu=native), which turns on every cfg(target_feature = ...) the CPU supports at compile time
    cargo_feats = [f for f in features if f != "native"]
    env = None
    if "native" in features:
        env = {"RUSTFLAGS": "--cfg blake3_team_blake3_verif -C target-cpu=native"}
    if cargo_feats:
        cmd += ["--features", ",".join(cargo_feats)]
    rc, out = run(cmd, cwd=RS_DIR, timeout=3600, env=env)
    exe = os.path.join(target, profile or "release", "b3-verif-harness")
    _built[key] = (rc == 0, exe, out)
    return _built[key]


def build_rs_min(features=()):
    """harness/rs_min: the crate built with default-features = false and no optional feature (and without the hooks' cfg)"""
    key = ("rs_min",) + tuple(features)
    if key in _built:
        return _built[key]
    d = os.path.join(VERIF, "harness", "rs_min")
    lock = os.path.join(d, "Cargo.lock")
    if not os.path.exists(lock):
        import shutil
        shutil.copy(os.path.join(REPO, "Cargo.lock"), lock)
    target = os.path.join(d, "target" if not features else "target-" + "-".join(features))
    cmd = ["cargo", "build", "--release", "--offline", "--target-dir", target]
    if features:
        cmd += ["--features", ",".join(features)]
    rc, out = run(cmd, cwd=d, timeout=3600)
    _built[key] = (rc == 0, os.path.join(target, "release", "b3-verif-harness-min"), out)
    return _built[key]


def build_c_asan():
    """harness/c built with clang -fsanitize=address,undefined (the harness turns sanitizer reports into a ` SAN` flag)"""
    if "c_asan" in _built:
        return _built["c_asan"]
    rc, out = run(["make", "-C", C_DIR, "-j16", "asan"], timeout=3600)
    _built["c_asan"] = (rc == 0, os.path.join(C_DIR, "build", "cdriver_asan"), out)
    return _built["c_asan"]


def build_c():
    if "c" in _built:
        return _built["c"]
    rc, out = run(["make", "-C", C_DIR, "-j16"], timeout=3600)
    _built["c"] = (rc == 0, os.path.join(C_DIR, "build", "cdriver"), out)
    return _built["c"]


def build_b3sum():
    if "b3sum" in _built:
        return _built["b3sum"]
    rc, out = run(["cargo", "build", "--release", "--offline"], cwd=B3SUM_DIR, timeout=3600)
    _built["b3sum"] = (rc == 0, os.path.join(B3SUM_DIR, "target", "release", "b3sum-driver"), out)
    return _built["b3sum"]


def build_b3sum_binary_only():
    """fallback when the function-level driver (which names private functions of main.rs) no longer compiles: the b3sum binary
    alone, so that the process-level stages can still look for a failing run"""
    if "b3sum_bin" in _built:
        return _built["b3sum_bin"]
    rc, out = run(["cargo", "build", "--release", "--offline", "--bin", "b3sum"], cwd=B3SUM_DIR, timeout=3600)
    _built["b3sum_bin"] = (rc == 0, os.path.join(B3SUM_DIR, "target", "release", "b3sum"), out)
    return _built["b3sum_bin"]


def build_lean_driver():
    if "lean" in _built:
        return _built["lean"]
    rc, out = run(["lake", "build", "driver"], cwd=LEAN_DIR, timeout=3600)
    _built["lean"] = (rc == 0, os.path.join(LEAN_DIR, ".lake", "build", "bin", "driver"), out)
    return _built["lean"]


def run_driver(exe, lines, timeout=1800, cwd=None):
    data = "\n".join(lines) + "\n"
    p = subprocess.run([exe], input=data, stdout=subprocess.PIPE, stderr=subprocess.PIPE, text=True, timeout=timeout, cwd=cwd)
    out = p.stdout.split("\n")
    if out and out[-1] == "":
        out.pop()
    return p.returncode, out, p.stderr


# --------------------------------------------------------------------------------------------
# scripts and comparison


class Script:
    """a self-contained list of op lines (creates every register it uses)"""

    def __init__(self, ops, tags=(), nontrivial=True):
        self.ops = list(ops)
        self.tags = tuple(tags)
        self.nontrivial = nontrivial

    def key(self):
        return "\n".join(self.ops)


class Mismatch:
    def __init__(self, kind, script, index, impl, model, spec, impl_name):
        self.kind = kind          # impl-vs-spec | impl-vs-model | model-vs-spec | driver-crash
        self.script = script
        self.index = index
        self.impl = impl
        self.model = model
        self.spec = spec
        self.impl_name = impl_name


def canon(s):
    return s.strip()


def compare_outputs(scripts, impl_out, lean_out, impl_name, normalize=None, oracle=None):
    """walk the concatenated outputs script by script; returns list of Mismatch (first per script)"""
    res = []
    pos = 0
    for sc in scripts:
        n = len(sc.ops)
        io = impl_out[pos:pos + n]
        lo = lean_out[pos:pos + n]
        pos += n
        if len(io) < n or len(lo) < n:
            res.append(Mismatch("driver-crash", sc, min(len(io), len(lo)), "<missing>", "<missing>", "-", impl_name))
            break
        for i in range(n):
            impl = canon(io[i])
            if normalize:
                impl = normalize(sc.ops[i], impl)
            if ";" in lo[i]:
                model, spec = lo[i].rsplit(";", 1)
            else:
                model, spec = lo[i], "-"
            model, spec = canon(model), canon(spec)
            if oracle and spec == "-":
                # property-level oracle supplied by the generator module: returns the required output,
                # a predicate on the output, or None
                exp = oracle(sc.ops[i])
                if callable(exp):
                    if not exp(impl):
                        res.append(Mismatch("impl-vs-spec", sc, i, impl, model, "<oracle predicate of " + sc.ops[i][:60] + ">", impl_name))
                        break
                    if not exp(model):
                        res.append(Mismatch("model-vs-spec", sc, i, impl, model, "<oracle predicate>", impl_name))
                        break
                    # a predicate oracle is an additional requirement: the equality comparisons below still apply,
                    # unless the generator marks it as the only requirement (ops the Lean driver has no model for)
                    if getattr(exp, "replaces_equality", False):
                        continue
                elif exp is not None:
                    spec = exp
            if impl == "unsupported":
                break  # platform not available on this CPU: the rest of the script is meaningless
            if model == "bad-op" or impl == "bad-op":
                if model != impl:
                    res.append(Mismatch("driver-crash", sc, i, impl, model, spec, impl_name))
                    break
                continue
            if spec != "-" and impl != spec:
                res.append(Mismatch("impl-vs-spec", sc, i, impl, model, spec, impl_name))
                break
            if impl != model:
                res.append(Mismatch("impl-vs-model", sc, i, impl, model, spec, impl_name))
                break
            if spec != "-" and model != spec:
                res.append(Mismatch("model-vs-spec", sc, i, impl, model, spec, impl_name))
                break
    return res


def run_pair(scripts, impl_exe, lean_exe, impl_name, normalize=None, chunk=400, oracle=None):
    """run all scripts through both drivers (in chunks, so one crash loses little)"""
    mism = []
    for a in range(0, len(scripts), chunk):
        part = scripts[a:a + chunk]
        lines = [l for sc in part for l in sc.ops]
        try:
            rc1, o1, e1 = run_driver(impl_exe, lines)
        except subprocess.TimeoutExpired:
            rc1, o1, e1 = -1, [], "timeout"
        rc2, o2, e2 = run_driver(lean_exe, lines)
        if rc2 != 0:
            raise InternalError(f"lean driver failed rc={rc2}: {e2[-500:]}")
        if rc1 != 0 and len(o1) < len(lines):
            # implementation driver died (abort, segfault): locate the script
            pass
        mism += compare_outputs(part, o1, o2, impl_name, normalize, oracle)
    return mism


class InternalError(Exception):
    pass


def ddmin(script, still_fails):
    """classic delta debugging over the op list; still_fails(list of ops) -> bool"""
    ops = list(script.ops)
    n = 2
    while len(ops) >= 2:
        chunk = max(1, len(ops) // n)
        reduced = False
        for i in range(0, len(ops), chunk):
            cand = ops[:i] + ops[i + chunk:]
            if cand and still_fails(cand):
                ops = cand
                n = max(n - 1, 2)
                reduced = True
                break
        if not reduced:
            if chunk == 1:
                break
            n = min(n * 2, len(ops))
    return ops


def shrink_numbers(ops, still_fails):
    """try to make `pat <len>` arguments smaller"""
    changed = True
    while changed:
        changed = False
        for i, op in enumerate(ops):
            m = re.search(r"\bpat (\d+) (\d+)", op)
            if not m:
                continue
            n = int(m.group(1))
            for cand_n in sorted({0, 1, 64, 1024, n // 2, n - 1024, n - 1}):
                if 0 <= cand_n < n:
                    cand = ops[:i] + [op[:m.start()] + f"pat {cand_n} {m.group(2)}" + op[m.end():]] + ops[i + 1:]
                    if still_fails(cand):
                        ops = cand
                        changed = True
                        break
            if changed:
                break
    return ops


def minimise(m, impl_exe, lean_exe, normalize=None, budget=150, oracle=None):
    calls = [0]

    def still(ops):
        if calls[0] >= budget:
            return False
        calls[0] += 1
        sc = Script(ops)
        try:
            r = run_pair([sc], impl_exe, lean_exe, m.impl_name, normalize, oracle=oracle)
        except Exception:
            return False
        return bool(r) and r[0].kind == m.kind
    ops = ddmin(m.script, still)
    ops = shrink_numbers(ops, still)
    r = run_pair([Script(ops)], impl_exe, lean_exe, m.impl_name, normalize, oracle=oracle)
    if r:
        return r[0]
    return m


# --------------------------------------------------------------------------------------------
# known findings, replay files, evidence


def load_known():
    p = os.path.join(VERIF, "known_findings.json")
    try:
        with open(p) as f:
            return json.load(f).get("findings", [])
    except FileNotFoundError:
        return []


def match_known(pid, ops, impl_output=None):
    """a finding matches if it is `known` (not fixed) for this property, each of its regexes matches the corresponding op of
    the minimised script (same length) and - when the entry has one - its `impl_regex` matches what the implementation
    printed (so that a different failure on the same input is still reported)"""
    for k in load_known():
        if k.get("property") != pid or not str(k.get("status", "")).startswith("known"):
            continue
        pats = k.get("ops_regex", [])
        if len(pats) == len(ops) and all(re.fullmatch(p, o) for p, o in zip(pats, ops)):
            ir = k.get("impl_regex")
            if ir is not None and (impl_output is None or not re.fullmatch(ir, str(impl_output))):
                continue
            return k
    return None


_replay_n = [0]


def write_replay(pid, payload):
    os.makedirs(REPLAY_DIR, exist_ok=True)
    _replay_n[0] += 1
    p = os.path.join(REPLAY_DIR, f"{pid}-{_replay_n[0]}.json")
    with open(p, "w") as f:
        json.dump(payload, f, indent=1)
    return p


def write_evidence(pid, ev):
    os.makedirs(EVID, exist_ok=True)
    p = os.path.join(EVID, f"{pid}.json")
    with open(p + ".tmp", "w") as f:
        json.dump(ev, f, indent=1)
    os.replace(p + ".tmp", p)


class Rng(random.Random):
    pass


def seed_from_env():
    try:
        return int(os.environ.get("VERIF_SEED", "1"))
    except ValueError:
        return 1
