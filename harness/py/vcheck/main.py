"""
bin/check <ID> quick|thorough | --replay <file>
"""
import importlib
import json
import os
import sys
import time
import traceback

from . import core
from .core import Script


def load_prop(pid):
    return importlib.import_module(f"vcheck.gens.{pid.lower()}")


def corpus_scripts(pid):
    d = os.path.join(core.VERIF, "corpus", pid)
    out = []
    if os.path.isdir(d):
        for fn in sorted(os.listdir(d)):
            if fn.endswith(".ops"):
                with open(os.path.join(d, fn)) as f:
                    ops = [l.rstrip("\n") for l in f if l.strip() and not l.startswith("#")]
                out.append(Script(ops, tags=("corpus", fn)))
    return out


def histogram(scripts):
    h = {}
    for sc in scripts:
        for t in sc.tags:
            if isinstance(t, str):
                h[t] = h.get(t, 0) + 1
    return dict(sorted(h.items()))


def check(pid, tier):
    t0 = time.time()
    seed = core.seed_from_env()
    mod = load_prop(pid)
    violations = []     # (replay path, suffix)
    known_lines = []
    internal = []
    ev_cov = {}
    with core.Lock():
        # ---------------- static half: translator + theorems
        st = core.static_check(pid, tier, getattr(mod, "ARTEFACTS", None), getattr(mod, "PROPS_MODULE", None),
                               getattr(mod, "PROPS_PATH", None), getattr(mod, "EXTRA_PROPS", ()))
        # ---------------- dynamic half: correspondence
        ok_l, lean_exe, log_l = core.build_lean_driver()
        if not ok_l:
            internal.append("lean driver does not build:\n" + log_l[-3000:])
        stages = mod.stages(tier, seed, witness_search=not st.ok) if not internal else []
        total_eval = 0
        distinct = set()
        samples = []
        hist = {}
        mismatch_counts = {"impl-vs-spec": 0, "impl-vs-model": 0, "model-vs-spec": 0, "driver-crash": 0}
        for stage in stages:
            try:
                res = stage.run(lean_exe)
            except core.InternalError as ex:
                internal.append(f"{stage.name}: {ex}")
                continue
            total_eval += res["evaluations"]
            distinct |= res["distinct"]
            for k, v in res.get("hist", {}).items():
                hist[f"{stage.name}:{k}"] = v
            samples += res.get("samples", [])[:3]
            for m in res["mismatches"]:
                mismatch_counts[m["kind"]] = mismatch_counts.get(m["kind"], 0) + 1
                if m["kind"] == "model-vs-spec" and not m.get("impl_differs"):
                    internal.append(f"model and spec disagree at run time (bug in the driver or an unproved model): {m}")
                    continue
                k = core.match_known(pid, m.get("ops", []), m.get("impl_output"))
                if k:
                    known_lines.append(f"KNOWN-FINDING: property={pid} {k['what']}")
                    continue
                if len(violations) < 40:
                    path = core.write_replay(pid, dict(property=pid, tier=tier, seed=seed, stage=stage.name, **m))
                    violations.append((path, ""))
                else:
                    violations.append((violations[-1][0], ""))
        # ---------------- static failure handling
        if not st.ok:
            what = []
            if st.translation_broken:
                what += [f"TRANSLATION-BROKEN {b['artefact']}: {b['reason']}" for b in st.translation_broken]
            if not st.build_ok:
                what += ["proof obligation no longer checks: " + e for e in st.failed_theorems[:10]]
            if st.hygiene_hits:
                what += ["hygiene: " + h for h in st.hygiene_hits[:10]]
            if st.bad_axioms:
                what += [f"axioms outside the whitelist in {t}: {a}" for t, a in st.bad_axioms.items()]
            if not violations:
                path = core.write_replay(pid, dict(property=pid, tier=tier, seed=seed, kind="static",
                                                   broken=what, build_log_tail=st.build_log[-4000:],
                                                   note="witness search (correspondence generators at raised budget) found no failing input"))
                violations.append((path, " no-failing-input-found"))
            else:
                # attach the static reason to the first replay
                try:
                    with open(violations[0][0]) as f:
                        d = json.load(f)
                    d["static_failure"] = what
                    with open(violations[0][0], "w") as f:
                        json.dump(d, f, indent=1)
                except Exception:
                    pass
        wall = time.time() - t0
        ev = {
            "property_id": pid,
            "tier": tier,
            "seed": seed,
            "level": "proof",
            "coverage": {
                "obligations": max(st.obligations(), 1),
                "discharged": st.discharged(),
                "checker_cmd": f"cd lean && lake build {getattr(mod, 'PROPS_MODULE', None) or 'B3.Props.' + pid} && lake env lean <generated #print axioms file>" +
                               (" && lake env leanchecker B3.Props." + pid if tier == "thorough" else ""),
                "trusted_base": core.TRUSTED_BASE + getattr(mod, "TRUSTED_EXTRA", []),
                "theorems": [{"name": t, "axioms": st.axioms.get(t)} for t in st.theorems],
                "leanchecker": st.leanchecker,
                "generated_artifacts": st.spans,
                "translation_broken": st.translation_broken,
                "evaluations": total_eval,
                "distinct_nontrivial": len(distinct),
                "rule": getattr(mod, "RULE", ""),
                "samples": samples[:8] if samples else ["(no dynamic stage ran)"],
                "distribution": hist,
                "mismatches": mismatch_counts,
                "known_findings_seen": len(known_lines),
                "exhaustive": False,
                "not_proved": getattr(mod, "NOT_PROVED", []),
            },
            "assumptions": getattr(mod, "ASSUMPTIONS", []),
            "wall_s": round(wall, 2),
            "violations": len(violations),
        }
        core.write_evidence(pid, ev)
    for l in sorted(set(known_lines)):
        print(l)
    if internal:
        for i in internal:
            print("INTERNAL-ERROR:", i, file=sys.stderr)
        if not violations:
            # the correspondence could not be run at all (a driver no longer builds against /repo, a stage died): the property is
            # no longer shown to hold on this tree, and no concrete failing input was found
            path = core.write_replay(pid, dict(property=pid, tier=tier, kind="machinery", broken=[str(i)[:4000] for i in internal],
                                                  note="the check could not be carried out on this tree: the named build or stage failed"))
            print(f"VIOLATION property={pid} replay={path} no-failing-input-found")
            return 1
    for path, suffix in violations[:20]:
        print(f"VIOLATION property={pid} replay={path}{suffix}")
    return 1 if violations else 0


def replay(pid, path):
    with open(path) as f:
        d = json.load(f)
    mod = load_prop(pid)
    if d.get("kind") == "machinery":
        print("the check could not be carried out when this was recorded:", *d.get("broken", []), sep="\n  ")
        print("re-run `bin/check %s quick` on the tree in question" % pid)
        return 1
    if d.get("kind") == "static":
        print("static failure recorded:", *d.get("broken", []), sep="\n  ")
        with core.Lock():
            st = core.static_check(pid, "quick", getattr(mod, "ARTEFACTS", None), getattr(mod, "PROPS_MODULE", None),
                                   getattr(mod, "PROPS_PATH", None), getattr(mod, "EXTRA_PROPS", ()))
        print("static check now:", "ok" if st.ok else "FAILS")
        return 0 if st.ok else 1
    with core.Lock():
        ok_l, lean_exe, _ = core.build_lean_driver()
        r = mod.replay(d, lean_exe)
    print(json.dumps(r, indent=1))
    return 1 if r.get("still_fails") else 0


def main():
    if len(sys.argv) < 3:
        print(__doc__)
        return 2
    pid = sys.argv[1]
    if sys.argv[2] == "--replay":
        return replay(pid, sys.argv[3])
    tier = sys.argv[2]
    if tier not in ("quick", "thorough"):
        tier = os.environ.get("VERIF_TIER", "quick")
    try:
        return check(pid, tier)
    except Exception:
        traceback.print_exc()
        try:
            path = core.write_replay(pid, dict(property=pid, tier=tier, kind="machinery", broken=[traceback.format_exc()[-4000:]],
                                                  note="the check raised an exception on this tree before reaching a verdict"))
            print(f"VIOLATION property={pid} replay={path} no-failing-input-found")
            return 1
        except Exception:
            return 2


if __name__ == "__main__":
    sys.exit(main())
