"""C05: every SIMD kernel equals the portable compression function on all arguments"""
from ..core import Script, Rng
from ..stage import LineStage, replay_line
from .common import *

ARTEFACTS = ["G1-consts", "G2-rs-portable", "G2-ref-compress", "G15-rs-sse41", "G24-portable-many", "G16-rs-avx2", "G17-rs-sse2", "G21-c-avx512", "G21-c-avx512-prog", "G18-c-sse41", "G19-c-sse2", "G20-c-avx2", "G27-asm-sse41-compress", "G29-asm-sse2-compress", "G30-asm-avx512-compress", "G31-asm-avx512-compress-wgnu", "G32-asm-sse41-compress-wgnu", "G33-asm-sse2-compress-wgnu", "G37-asm-sse41-compress-msvc", "G40-asm-sse2-compress-msvc", "G41-asm-avx512-compress-msvc", "G34-asm-sse41-hash-many", "G44-asm-sse41-hash-many-wgnu", "G46-asm-avx2-hash-many", "G45-asm-sse2-hash-many"]
EXTRA_PROPS = [("B3.Simd.Sse41Props", "B3/Simd/Sse41Props.lean"), ("B3.Simd.Sse41PropsMany", "B3/Simd/Sse41PropsMany.lean"), ("B3.Props.C05P", "B3/Props/C05P.lean"), ("B3.Simd.Avx2Props", "B3/Simd/Avx2Props.lean"), ("B3.Simd.Sse2Props", "B3/Simd/Sse2Props.lean"), ("B3.Simd.CAvx512Props", "B3/Simd/CAvx512Props.lean"), ("B3.Simd.CSse41Props", "B3/Simd/CSse41Props.lean"), ("B3.Simd.CSse2Props", "B3/Simd/CSse2Props.lean"), ("B3.Simd.CAvx2Props", "B3/Simd/CAvx2Props.lean"), ("B3.Props.C05A", "B3/Props/C05A.lean"), ("B3.Props.C05B", "B3/Props/C05B.lean"), ("B3.Props.C05BW", "B3/Props/C05BW.lean"), ("B3.Props.C05W", "B3/Props/C05W.lean"), ("B3.Props.C05WM", "B3/Props/C05WM.lean"), ("B3.Props.C05M", "B3/Props/C05M.lean"), ("B3.Props.C05MW", "B3/Props/C05MW.lean"), ("B3.Props.C05M8", "B3/Props/C05M8.lean")]
RULE = ("kernel calls, compared with the model's kernels (generated from src/portable.rs, proved = Spec.compress): single-block "
        "kernels on the grid block_len 0..64 x flag byte classes with random cv/block and counters from {0,1,2^32-1,2^32,2^32+1,2^63,"
        "2^64-1,random}; hash_many with num_inputs 0..2*degree+3, blocks in {1,16}, counters 2^32-k (k<=17) and near 2^64 so every "
        "lane sees a carry, increment yes/no, all subsets of nonzero flags/start/end, input offsets 0..63, output offsets 0..31; "
        "xof_many n in 1..40; for Rust Platform::{portable,sse2,sse41,avx2,avx512} in the default (asm via ffi), pure (Rust intrinsics) "
        "and prefer_intrinsics (C intrinsics) builds, and for every C symbol flavour incl. the Windows-GNU assembly through ms_abi (also with garbage above every narrow argument, `CK dirty 1|2`, which the Microsoft convention allows); Rust hash_many is called with an exact and with a longer output slice; "
        "non-trivial = every call (distinct arguments); distinct = distinct op line")
ASSUMPTIONS = ["hand-written assembly: the single-block routines (compress_in_place, compress_xof) of the unix, Windows-GNU and MSVC SSE4.1, SSE2 and "
               "AVX-512 files and blake3_hash_many_sse41 of the unix and of the Windows-GNU file are translated instruction by instruction and proved equal to the "
               "specification under the machine semantics B3/Asm/Sse.lean, Avx512Sem.lean, WinSem.lean, ManySem.lean (trusted; run against the CPU "
               "here); blake3_hash_many_avx2 (unix) is translated instruction by instruction and run under B3/Asm/Avx2Sem.lean against the CPU, but only "
               "its rounds 2-7, feed-forward and counter vectors are proved (Props/C05M8, all `_partial`); the other many-input assembly routines "
               "(hash_many of SSE2 / AVX-512 and of the Windows files, xof_many) are not "
               "modelled at instruction level: a defect in them confined to an argument class no generator produces would be missed",
               "the lane models of the intrinsics (Simd/Prim*.lean) and the machine semantics are trusted descriptions of the hardware, compared with the CPU on every run"]
NOT_PROVED = ["that the remaining hand-written many-input assembly routines implement the kernel contract "
              "(correspondence only; their calling-convention clause is proved in C07A)"]
M64 = (1 << 64) - 1
RS_PLATS = PLATFORMS
C_SYMS = ["portable", "sse2_asm", "sse41_asm", "avx2_asm", "avx512_asm", "sse2_c", "sse41_c", "avx2_c", "avx512_c",
          "win_sse2_asm", "win_sse41_asm", "win_avx2_asm", "win_avx512_asm"]


def counters(rng):
    return rng.choice([0, 1, (1 << 32) - 1, 1 << 32, (1 << 32) + 1, 1 << 63, M64, rng.randrange(1 << 64), (1 << 32) - rng.randrange(1, 18)])


def rhex(rng, n):
    return bytes(rng.randrange(256) for _ in range(n)).hex()


def single_ops(rng, prefix, plats, n_random):
    ops = []
    flags = [0, 1, 2, 3, 4, 8, 11, 16, 32, 64, 127, 128, 255]
    for bl in range(0, 65):
        p = plats[bl % len(plats)]
        f = flags[bl % len(flags)]
        k = "cip" if bl % 2 else "cxof"
        ops.append(f"{prefix} {k} {p} {rhex(rng, 32)} {rhex(rng, 64)} {bl} {counters(rng)} {f}")
    for _ in range(n_random):
        p = rng.choice(plats)
        k = rng.choice(["cip", "cxof"])
        ops.append(f"{prefix} {k} {p} {rhex(rng, 32)} {rhex(rng, 64)} {rng.randrange(0, 65)} {counters(rng)} {rng.randrange(256)}")
    return ops


def many_ops(rng, prefix, plats, n_random):
    ops = []
    for p in plats:
        for n in range(0, 36):
            blocks = 16 if n % 3 else 1
            ctr = rng.choice([(1 << 32) - rng.randrange(0, 18), rng.randrange(1 << 62), M64 - n - rng.randrange(0, 3), 0])
            ctr = max(0, min(ctr, M64 - n))
            fl, fs, fe = rng.choice([(0, 0, 0), (16, 1, 2), (64, 1, 2), (4, 0, 0), (rng.randrange(256), rng.randrange(256), rng.randrange(256))])
            ops.append(f"{prefix} hmany {p} {n} {blocks} {rng.randrange(1 << 30)} {rhex(rng, 32)} {ctr} {rng.randrange(2)} {fl} {fs} {fe} {rng.randrange(64)} {rng.randrange(32)}")
        for n in range(1, 41, 3):
            ctr = min(counters(rng), M64 - n)
            ops.append(f"{prefix} xofmany {p} {rhex(rng, 32)} {rhex(rng, 64)} {rng.randrange(0, 65)} {ctr} {rng.randrange(256)} {n}")
    # exhaustive carry grid for xof_many: n blocks whose counters cross 2^32 (carry into the high word) or 2^31 (sign bit of the
    # low word, which the compare-based carry of the SIMD kernels must not mistake for a carry) at every position
    for p in plats:
        nmax = 40 if "avx512" in p else 20
        cv, blk = rhex(rng, 32), rhex(rng, 64)
        for base in [1 << 32, 1 << 31]:
            for n in range(1, nmax + 1):
                for k in range(0, n + 1):
                    ops.append(f"{prefix} xofmany {p} {cv} {blk} 64 {base - k} {rng.choice([0, 8, 11])} {n}")
        for n in range(1, 20):
            ops.append(f"{prefix} xofmany {p} {cv} {blk} {rng.randrange(65)} {M64 - n} 3 {n}")
        # the same for hash_many with incrementing counters: n inputs, the boundary between input k-1 and k
        for base in [1 << 32, 1 << 31]:
            for n in range(1, 19):
                for k in range(0, n + 1, 1 if n <= 9 else 3):
                    ops.append(f"{prefix} hmany {p} {n} 1 {rng.randrange(1 << 30)} {rhex(rng, 32)} {base - k} 1 0 0 0 0 0")
    for _ in range(n_random):
        p = rng.choice(plats)
        n = rng.randrange(0, 40)
        ctr = min(counters(rng), M64 - n)
        ops.append(f"{prefix} hmany {p} {n} {rng.choice([1, 16])} {rng.randrange(1 << 30)} {rhex(rng, 32)} {ctr} {rng.randrange(2)} {rng.randrange(256)} {rng.randrange(256)} {rng.randrange(256)} {rng.randrange(64)} {rng.randrange(32)}")
    return ops


class SimdModelStage:
    """the functions GENERATED from src/rust_sse41.rs (Gen/RsSse41.lean, evaluated with the lane model of the intrinsics in
    B3/Simd/Prim.lean) against the real Rust-intrinsics kernels (`pure` build, Platform::sse41) on the same inputs: this is what ties
    the trusted intrinsics model to the hardware"""
    name = "rs-sse41-generated-vs-cpu"

    def __init__(self, seed, n):
        self.seed, self.n = seed, n

    def run(self, lean_exe):
        from .. import core
        from .io_gen import lcg_bytes
        import subprocess
        rng = Rng(self.seed)
        ok, exe, log = core.build_rs(("pure",))
        if not ok:
            return dict(evaluations=0, distinct=set(), hist={}, samples=[], mismatches=[dict(kind="driver-crash", impl_name="rs+pure", ops=[], log_tail=log[-2000:])])
        impl_lines, model_lines = ["P plat sse41"], []
        for i in range(self.n):
            k = rng.choice(["cip", "cxof"])
            cv, blk = rhex(rng, 32), rhex(rng, 64)
            bl, ctr, fl = rng.randrange(0, 65), counters(rng), rng.randrange(256)
            impl_lines.append(f"K {k} sse41 {cv} {blk} {bl} {ctr} {fl}")
            model_lines.append(f"{k} {cv} {blk} {bl} {ctr} {fl}")
        for i in range(max(4, self.n // 8)):
            n = rng.choice([1, 2, 3, 4, 5, 7, 8, 9])
            blocks = rng.choice([1, 1, 16])
            seed = rng.randrange(1 << 30)
            key = rhex(rng, 32)
            ctr = min(rng.choice([0, (1 << 32) - rng.randrange(0, 9), (1 << 31) - rng.randrange(0, 9), rng.randrange(1 << 62)]), M64 - n)
            incr, fl, fs, fe = rng.randrange(2), rng.randrange(256), rng.randrange(256), rng.randrange(256)
            impl_lines.append(f"K hmany sse41 {n} {blocks} {seed} {key} {ctr} {incr} {fl} {fs} {fe} 0 0")
            ins = " ".join(lcg_bytes(blocks * 64, (seed + j) % (1 << 64)).hex() for j in range(n))
            model_lines.append(f"hmany {blocks * 64} {n} {key} {ctr} {incr} {fl} {fs} {fe} {ins}")
        rc, out, _ = core.run_driver(exe, impl_lines)
        if out and out[0] == "unsupported":
            return dict(evaluations=0, distinct=set(), hist={"skipped": "no SSE4.1"}, samples=[], mismatches=[])
        out = out[1:]
        rcb, outb = core.run(["lake", "build", "B3.Simd.Run"], cwd=core.LEAN_DIR, timeout=3600)
        if rcb != 0:
            return dict(evaluations=0, distinct=set(), hist={}, samples=[], mismatches=[dict(kind="driver-crash", impl_name="rs+pure", ops=[],
                        note="the generated SSE4.1 code (B3.Simd.Run) does not build", log_tail=outb[-2000:])])
        try:
            pr = subprocess.run(["lake", "env", "lean", "--run", "RunSimd.lean"], cwd=core.LEAN_DIR, input="\n".join(model_lines) + "\n",
                                stdout=subprocess.PIPE, stderr=subprocess.PIPE, text=True, timeout=1800)
            mo = pr.stdout.split("\n")
        except subprocess.TimeoutExpired:
            mo = []
        mism = []
        for i, (a, b) in enumerate(zip(impl_lines[1:], model_lines)):
            x = out[i] if i < len(out) else "<missing>"
            y = mo[i] if i < len(mo) else "<missing>"
            if x != y and len(mism) < 5:
                mism.append(dict(kind="impl-vs-model", impl_name="rs+pure", ops=[impl_lines[0], a], impl_differs=True, impl_output=x[:300], model_output=y[:300],
                                 note="generated SSE4.1 code (lane model) differs from the real intrinsics kernel; model input line: " + b[:200]))
        return dict(evaluations=len(model_lines), distinct=set(model_lines), hist={"cases": len(model_lines)}, samples=[impl_lines[1:3]], mismatches=mism)


class SimdModelStage2:
    """the functions generated from src/rust_sse2.rs, src/rust_avx2.rs (pure build) and c/blake3_avx512.c (`avx512_c` of harness/c)
    evaluated with the lane models, against the compiled kernels on the same inputs"""
    name = "simd-generated-vs-cpu"

    def __init__(self, seed, n):
        self.seed, self.n = seed, n

    def run(self, lean_exe):
        from .. import core
        from .io_gen import lcg_bytes
        import subprocess
        rng = Rng(self.seed)
        mism, evals, distinct = [], 0, set()

        def lean_run(script, lines, mod):
            rcb, outb = core.run(["lake", "build", mod], cwd=core.LEAN_DIR, timeout=3600)
            if rcb != 0:
                return None, outb[-1500:]
            try:
                pr = subprocess.run(["lake", "env", "lean", "--run", script], cwd=core.LEAN_DIR, input="\n".join(lines) + "\n",
                                    stdout=subprocess.PIPE, stderr=subprocess.PIPE, text=True, timeout=3000)
                return pr.stdout.split("\n"), ""
            except subprocess.TimeoutExpired:
                return [], "timeout"

        # ---- Rust SSE2 / AVX2 (pure build)
        ok, exe, log = core.build_rs(("pure",))
        if ok:
            impl_lines, model_lines = [], []
            for i in range(self.n):
                k = rng.choice(["cip", "cxof"])
                cv, blk = rhex(rng, 32), rhex(rng, 64)
                bl, ctr, fl = rng.randrange(0, 65), counters(rng), rng.randrange(256)
                impl_lines.append(f"K {k} sse2 {cv} {blk} {bl} {ctr} {fl}")
                model_lines.append(f"sse2:{k} {cv} {blk} {bl} {ctr} {fl}")
            for i in range(max(6, self.n // 6)):
                fam = rng.choice(["sse2", "avx2"])
                n = rng.choice([1, 3, 4, 5, 7, 8, 9, 12, 17])
                blocks = rng.choice([1, 1, 16])
                seed = rng.randrange(1 << 30)
                key = rhex(rng, 32)
                ctr = min(rng.choice([0, (1 << 32) - rng.randrange(0, 18), (1 << 31) - rng.randrange(0, 18), rng.randrange(1 << 62)]), M64 - n)
                incr, fl, fs, fe = rng.randrange(2), rng.randrange(256), rng.randrange(256), rng.randrange(256)
                impl_lines.append(f"K hmany {fam} {n} {blocks} {seed} {key} {ctr} {incr} {fl} {fs} {fe} 0 0")
                ins = " ".join(lcg_bytes(blocks * 64, (seed + j) % (1 << 64)).hex() for j in range(n))
                model_lines.append(f"{fam}:hmany {blocks * 64} {n} {key} {ctr} {incr} {fl} {fs} {fe} {ins}")
            rc, out, _ = core.run_driver(exe, impl_lines)
            mo, err = lean_run("RunSimd2.lean", model_lines, "B3.Simd.Run2")
            if mo is None:
                mism.append(dict(kind="driver-crash", impl_name="rs+pure", ops=[], note="B3.Simd.Run2 does not build", log_tail=err))
            else:
                for i, (a, b) in enumerate(zip(impl_lines, model_lines)):
                    x = out[i] if i < len(out) else "<missing>"
                    y = mo[i] if i < len(mo) else "<missing>"
                    if x == "unsupported":
                        continue
                    evals += 1
                    if x != y and len(mism) < 6:
                        mism.append(dict(kind="impl-vs-model", impl_name="rs+pure", ops=[a], impl_differs=True, impl_output=x[:300], model_output=y[:300],
                                         note="generated Rust SSE2/AVX2 code (lane model) differs from the real intrinsics kernel; model input: " + b[:160]))
                distinct |= set(model_lines)
        else:
            mism.append(dict(kind="driver-crash", impl_name="rs+pure", ops=[], log_tail=log[-2000:]))
        # ---- C AVX-512 intrinsics (harness/c symbol avx512_c)
        okc, cexe, clog = core.build_c()
        if okc:
            lines = []
            for i in range(self.n):
                k = rng.choice(["cip", "cxof"])
                lines.append(f"CK {k} avx512_c {rhex(rng, 32)} {rhex(rng, 64)} {rng.randrange(0, 65)} {counters(rng)} {rng.randrange(256)}")
            for i in range(max(8, self.n // 5)):
                n = rng.choice([1, 3, 4, 7, 8, 9, 15, 16, 17, 20, 33])
                ctr = min(rng.choice([0, (1 << 32) - rng.randrange(0, 34), (1 << 31) - rng.randrange(0, 34), rng.randrange(1 << 62)]), M64 - n)
                lines.append(f"CK hmany avx512_c {n} {rng.choice([1, 1, 16])} {rng.randrange(1 << 30)} {rhex(rng, 32)} {ctr} {rng.randrange(2)} "
                             f"{rng.randrange(256)} {rng.randrange(256)} {rng.randrange(256)} 0 0")
                m = rng.randrange(1, 41)
                c2 = min(rng.choice([(1 << 32) - rng.randrange(0, m + 1), (1 << 31) - rng.randrange(0, m + 1), rng.randrange(1 << 62), M64 - m]), M64 - m)
                lines.append(f"CK xofmany avx512_c {rhex(rng, 32)} {rhex(rng, 64)} {rng.randrange(0, 65)} {c2} {rng.randrange(256)} {m}")
            # the other C intrinsics files (sse41_c, sse2_c, avx2_c): generated code through RunSimdC
            lines2 = []
            for i in range(self.n):
                sym = rng.choice(["sse41_c", "sse2_c"])
                k = rng.choice(["cip", "cxof"])
                lines2.append(f"CK {k} {sym} {rhex(rng, 32)} {rhex(rng, 64)} {rng.randrange(0, 65)} {counters(rng)} {rng.randrange(256)}")
            for i in range(max(8, self.n // 5)):
                sym = rng.choice(["sse41_c", "sse2_c", "avx2_c"])
                n = rng.choice([1, 3, 4, 5, 7, 8, 9, 12, 17])
                ctr = min(rng.choice([0, (1 << 32) - rng.randrange(0, 18), (1 << 31) - rng.randrange(0, 18), rng.randrange(1 << 62)]), M64 - n)
                lines2.append(f"CK hmany {sym} {n} {rng.choice([1, 1, 16])} {rng.randrange(1 << 30)} {rhex(rng, 32)} {ctr} {rng.randrange(2)} "
                              f"{rng.randrange(256)} {rng.randrange(256)} {rng.randrange(256)} 0 0")
            rc2, out2, _ = core.run_driver(cexe, lines2)
            mo2, err2 = lean_run("RunSimdC.lean", lines2, "B3.Simd.RunC")
            if mo2 is None:
                mism.append(dict(kind="driver-crash", impl_name="c", ops=[], note="B3.Simd.RunC does not build", log_tail=err2))
            else:
                for i, a in enumerate(lines2):
                    x = out2[i] if i < len(out2) else "<missing>"
                    y = mo2[i] if i < len(mo2) else "<missing>"
                    if x == "unsupported":
                        continue
                    evals += 1
                    if x != y and len(mism) < 12:
                        mism.append(dict(kind="impl-vs-model", impl_name="c", ops=[a], impl_differs=True, impl_output=x[:300], model_output=y[:300],
                                         note="generated C intrinsics code (lane model) differs from the compiled kernel"))
                distinct |= set(lines2)
            rc, out, _ = core.run_driver(cexe, lines)
            mo, err = lean_run("RunSimdC512.lean", lines, "B3.Simd.RunC512")
            if mo is None:
                mism.append(dict(kind="driver-crash", impl_name="c", ops=[], note="B3.Simd.RunC512 does not build", log_tail=err))
            else:
                for i, a in enumerate(lines):
                    x = out[i] if i < len(out) else "<missing>"
                    y = mo[i] if i < len(mo) else "<missing>"
                    if x == "unsupported":
                        continue
                    evals += 1
                    if x != y and len(mism) < 12:
                        mism.append(dict(kind="impl-vs-model", impl_name="c", ops=[a], impl_differs=True, impl_output=x[:300], model_output=y[:300],
                                         note="generated C AVX-512 code (lane model) differs from the compiled intrinsics kernel avx512_c"))
                distinct |= set(lines)
        else:
            mism.append(dict(kind="driver-crash", impl_name="c", ops=[], log_tail=clog[-2000:]))
        return dict(evaluations=evals, distinct=distinct, hist={"cases": evals}, samples=[], mismatches=mism)


class AsmSemStage:
    """the instruction lists generated from the assembly files (single-block routines compress_in_place / compress_xof of the unix
    SSE4.1, SSE2 and AVX-512 files, the Windows-GNU and the MSVC SSE4.1, SSE2 and AVX-512 files) run by the machine
    semantics B3/Asm/Sse.lean (+ Avx512Sem.lean, WinSem.lean), against the assembled routines on the CPU, with and without garbage
    in the unused upper bits of the 8-bit arguments (`CK dirty`); also checks that the model run ends `ok returned` after the proved
    step count with the register frame of its convention intact"""
    name = "asm-semantics-vs-cpu"
    # (label for the Lean runner, cdriver symbol, runner script, lake module, steps cip, steps cxof, suffix of the model's answer)
    FAMILIES = [
        ("sse41", "sse41_asm", "RunAsm.lean", "B3.Asm.Run", 468, 476, ""),
        ("sse2", "sse2_asm", "RunAsm.lean", "B3.Asm.Run", 552, 560, ""),
        ("avx512", "avx512_asm", "RunAsm512.lean", "B3.Asm.Run512", 363, 367, " frame"),
        ("avx512_wgnu", "win_avx512_asm", "RunAsm512.lean", "B3.Asm.Run512", 372, 377, " frame"),
        ("sse41", "win_sse41_asm", "RunAsmWin.lean", "B3.Asm.WgnuRun", 485, 492, " saved"),
        ("sse2", "win_sse2_asm", "RunAsmWin.lean", "B3.Asm.WgnuRun", 569, 576, " saved"),
        # no MASM assembler here: the list translated from the MSVC file is compared with the CPU running the Windows-GNU object
        ("sse41msvc", "win_sse41_asm", "RunAsmWin.lean", "B3.Asm.WgnuRun", 485, 492, " saved"),
        ("sse2msvc", "win_sse2_asm", "RunAsmMsvc.lean", "B3.Asm.MsvcRun", 569, 576, " saved"),
        ("avx512msvc", "win_avx512_asm", "RunAsmMsvc.lean", "B3.Asm.MsvcRun", 372, 377, " saved"),
    ]

    def __init__(self, seed, n):
        self.seed, self.n = seed, n

    def run(self, lean_exe):
        from .. import core
        import subprocess
        rng = Rng(self.seed)
        mism, evals, distinct = [], 0, set()
        okc, cexe, clog = core.build_c()
        if not okc:
            return dict(evaluations=0, distinct=set(), hist={}, samples=[], mismatches=[dict(kind="driver-crash", impl_name="c", ops=[], log_tail=clog[-2000:])])
        D = {0: 0, 1: 0xA5C3A5C300000000, 2: 0xA5C3A5C3A5C3A500}
        hist = {}
        for script in sorted({f[2] for f in self.FAMILIES}):
            fams = [f for f in self.FAMILIES if f[2] == script]
            c_lines, l_lines, meta = [], [], []
            for (isa, sym, _, mod, s_cip, s_xof, suffix) in fams:
                for op in ("cip", "cxof"):
                    for dirty in (0, 1, 2):
                        c_lines.append(f"CK dirty {dirty}")
                        meta.append(None)
                        for k in range(self.n if dirty == 0 else (3 * self.n) // 4):
                            cv, blk = rhex(rng, 32), rhex(rng, 64)
                            bl = rng.randrange(0, 65) if k % 3 else rng.randrange(256)
                            fl = rng.randrange(256)
                            ctr = counters(rng)
                            c_lines.append(f"CK {op} {sym} {cv} {blk} {bl} {ctr} {fl}")
                            meta.append((len(l_lines), s_cip if op == "cip" else s_xof, suffix))
                            l_lines.append(f"{op} {isa} {cv} {blk} {bl | D[dirty]} {ctr} {fl | D[dirty]}")
            c_lines.append("CK dirty 0")
            meta.append(None)
            rc, out, _ = core.run_driver(cexe, c_lines)
            mod = fams[0][3]
            rcb, outb = core.run(["lake", "build", mod], cwd=core.LEAN_DIR, timeout=3600)
            if rcb != 0:
                mism.append(dict(kind="driver-crash", impl_name="c", ops=[], note=mod + " does not build", log_tail=outb[-1500:]))
                continue
            try:
                pr = subprocess.run(["lake", "env", "lean", "--run", script], cwd=core.LEAN_DIR, input="\n".join(l_lines) + "\n",
                                    stdout=subprocess.PIPE, stderr=subprocess.PIPE, text=True, timeout=3000)
                mo = pr.stdout.split("\n")
            except subprocess.TimeoutExpired:
                mo = []
            for i, a in enumerate(c_lines):
                if meta[i] is None:
                    continue
                j, steps, suffix = meta[i]
                x = out[i] if i < len(out) else "<missing>"
                y = mo[j] if j < len(mo) else "<missing>"
                if x == "unsupported":
                    continue
                evals += 1
                hist[script] = hist.get(script, 0) + 1
                want = f"{x} ok returned {steps}{suffix}"
                if y != want and len(mism) < 8:
                    mism.append(dict(kind="impl-vs-model", impl_name="c", ops=[a], impl_differs=True, impl_output=x[:300], model_output=y[:300],
                                     note="assembly routine on the CPU differs from the translated instruction list under the machine semantics "
                                          "(or the model run faulted / used a different number of steps / lost a callee-saved register); "
                                          f"model input ({script}): " + l_lines[j][:200]))
            distinct |= {script + ":" + l for l in l_lines}
        return dict(evaluations=evals, distinct=distinct, hist=hist, samples=[], mismatches=mism)


class AsmManyStage:
    """blake3_hash_many_sse41 (unix assembly, 1746 instructions with loops, stack frame and the 4-/2-/1-input paths) as translated
    (G34) and run by the machine semantics B3/Asm/ManySem.lean, against the assembled routine on the CPU: outputs, no fault,
    callee-saved registers and rsp restored, no byte outside `out` and the frame touched.  Likewise (G46) blake3_hash_many_avx2
    (1733 instructions, B3/Asm/Avx2Sem.lean; the frame there also includes the `out` stack-argument slot, which the routine
    overwrites), plus: every load the model logs lies inside what the routine may read"""
    name = "asm-hash-many-semantics-vs-cpu"
    # (cdriver symbol, runner script, lake module): the unix routine (G34) and the Windows-GNU one (G44, called through ms_abi)
    # G46: blake3_hash_many_avx2 (unix, 1733 instructions: 8-way ymm loop, 4-/2-/1-input tails) under B3/Asm/Avx2Sem.lean; its
    # runner also reports ` reads` (every load of the model lies inside what the routine may read)
    TARGETS = [("sse41_asm", "RunAsmMany.lean", "B3.Asm.RunMany"), ("win_sse41_asm", "RunAsmManyW.lean", "B3.Asm.RunManyW"),
               ("avx2_asm", "RunAsmAvx2Many.lean", "B3.Asm.RunAvx2Many"),
               # G45: blake3_hash_many_sse2 (unix, 1983 instructions) under B3/Asm/Many2Sem.lean: translated and run, not proved
               ("sse2_asm", "RunAsmMany2.lean", "B3.Asm.RunMany2")]

    def __init__(self, seed, tier):
        self.seed, self.tier = seed, tier

    def run(self, lean_exe):
        res = None
        for sym, script, mod in self.TARGETS:
            r = self.run_one(lean_exe, sym, script, mod)
            if res is None:
                res = r
            else:
                res["evaluations"] += r["evaluations"]
                res["distinct"] |= r["distinct"]
                res["mismatches"] += r["mismatches"]
                for k, v in r["hist"].items():
                    res["hist"][k] = res["hist"].get(k, 0) + v
        return res

    def run_one(self, lean_exe, sym, script, mod):
        from .. import core
        import subprocess
        rng = Rng(self.seed)
        okc, cexe, clog = core.build_c()
        if not okc:
            return dict(evaluations=0, distinct=set(), hist={}, samples=[], mismatches=[dict(kind="driver-crash", impl_name="c", ops=[], log_tail=clog[-2000:])])
        edge = [0, 1, 2**32 - 4, 2**32 - 3, 2**32 - 2, 2**32 - 1, 2**32, 2**32 + 1, 2**33 - 2, 2**63, 2**64 - 9, 2**64 - 4, 2**64 - 2,
                2**64 - 1, (7 << 32) - 1, (7 << 32) - 5]
        c_lines, l_lines, meta = [], [], []
        modes = [0, 0, 1] if self.tier == "quick" else [0] * 9 + [1] * 3      # `CK dirty` setting per repetition
        reps = len(modes)
        wide = sym == "avx2_asm"          # 8-way routine: reach two full groups of eight and every tail shape after them
        for n in range(0, (21 if wide else 10) if self.tier == "quick" else 24):
            for blocks in ((1, 16) if n in (3, 7, 9, 15, 20) or self.tier != "quick" else (1,)):
                for incr in (0, 1):
                    for rep in range(reps):
                        counter = rng.choice(edge) if rep % 2 == 0 else rng.randrange(1 << 64)
                        counter = min(counter, (1 << 64) - 1 - n) if incr else counter
                        mode = modes[rep]
                        seed = rng.randrange(1 << 64)
                        key = rhex(rng, 32)
                        fl, fs, fe = rng.randrange(256), rng.randrange(256), rng.randrange(256)
                        inoff, outoff = rng.randrange(64), rng.randrange(64)
                        r9 = incr if mode == 0 else (incr | 0xA5C3A5C300000000) if mode == 1 else (incr | 0xA5C3A5C3A5C3A500)
                        # (`CK dirty 2` is not used here: the unix routine consumes all 32 bits of r9d - latent, see DESIGN)
                        c_lines += [f"CK dirty {mode}", f"CK hmany {sym} {n} {blocks} {seed} {key} {counter} {incr} {fl} {fs} {fe} {inoff} {outoff}"]
                        meta += [None, len(l_lines)]
                        l_lines.append(f"{'hmanyw' if sym.startswith('win_') else 'hmany'} {n} {blocks} {seed} {key} {counter} {r9} {fl} {fs} {fe} {inoff} {outoff} fast")
        c_lines.append("CK dirty 0")
        meta.append(None)
        rc, out, _ = core.run_driver(cexe, c_lines)
        rcb, outb = core.run(["lake", "build", mod], cwd=core.LEAN_DIR, timeout=7200)
        if rcb != 0:
            return dict(evaluations=0, distinct=set(), hist={}, samples=[],
                        mismatches=[dict(kind="driver-crash", impl_name="c", ops=[], note=mod + " does not build", log_tail=outb[-1500:])])
        try:
            pr = subprocess.run(["lake", "env", "lean", "--run", script], cwd=core.LEAN_DIR, input="\n".join(l_lines) + "\n",
                                stdout=subprocess.PIPE, stderr=subprocess.PIPE, text=True, timeout=6000)
            mo = pr.stdout.split("\n")
        except subprocess.TimeoutExpired:
            mo = []
        mism, evals = [], 0
        for i, a in enumerate(c_lines):
            j = meta[i]
            if j is None:
                continue
            x = out[i] if i < len(out) else "<missing>"
            y = mo[j] if j < len(mo) else "<missing>"
            if x == "unsupported":
                continue
            evals += 1
            t = y.split(" ")
            good = len(t) >= 6 and t[0] == x.split(" ")[0] and t[1:3] == ["ok", "returned"] and t[-2:] == ["regs", "frame"] and " " not in x
            if x == "" and len(t) >= 5:       # n = 0: nothing is written
                k0 = -6 if wide else -5
                good = t[k0:k0 + 2] == ["ok", "returned"] and t[-2:] == ["regs", "frame"] or good
            if wide:                          # the AVX2 runner's extra token: the model's read log stays inside the caller's buffers
                good = good and len(t) >= 3 and t[-3] == "reads"
            if not good and len(mism) < 6:
                mism.append(dict(kind="impl-vs-model", impl_name="c", ops=[a], impl_differs=True, impl_output=x[:300], model_output=y[:300],
                                 note="blake3_hash_many_" + ("avx2" if wide else "sse41") + " on the CPU differs from the translated instruction list under the machine semantics "
                                      "(or the model run faulted / lost a register / touched memory outside out and its frame); model input: " + l_lines[j][:200]))
        return dict(evaluations=evals, distinct={sym + ":" + l for l in l_lines}, hist={sym: evals}, samples=[], mismatches=mism)


def win_dirty_scripts(rng, n):
    """the Windows-GNU assembly kernels with garbage above every narrow (8-bit / bool) argument, in the registers and in the 8-byte
    stack slots alike: the Microsoft x64 convention leaves those bits undefined (callers such as clang / rustc write only the low
    byte of a stack slot), so the routine itself must extend them"""
    syms = [x for x in C_SYMS if x.startswith("win_")]
    out = []
    for d in (1, 2):
        ops = single_ops(rng, "CK", syms, n) + many_ops(rng, "CK", syms, 2 * n)
        out += [Script([f"CK dirty {d}", o, "CK dirty 0"], tags=(f"dirty{d} " + " ".join(o.split(" ")[1:3]),)) for o in ops]
    return out


def normalize(op, out):
    # flavours lacking a kernel / CPUs lacking an instruction set print `unsupported`: not comparable
    return out


def stages(tier, seed, witness_search=False):
    rng = Rng(seed)
    k = 400 if tier == "quick" else 20000
    if witness_search:
        k *= 4
    rs_ops = single_ops(rng, "K", RS_PLATS, k) + many_ops(rng, "K", RS_PLATS, k // 2)
    c_ops = single_ops(rng, "CK", C_SYMS, k) + many_ops(rng, "CK", C_SYMS, k // 2)
    rs_scripts = [Script([o], tags=(" ".join(o.split(" ")[:3]),)) for o in rs_ops]
    c_scripts = [Script([o], tags=(" ".join(o.split(" ")[:3]),)) for o in c_ops]
    wd = win_dirty_scripts(rng, 40 if tier == "quick" else 1500)
    st = [LineStage("rs-asm", rs_scripts), LineStage("rs-pure", rs_scripts, features=("pure",)), LineStage("c-kernels", c_scripts, impl="c"), LineStage("c-win-dirty-narrow-args", wd, impl="c"),
          SimdModelStage(seed + 5, 200 if tier == "quick" else 3000), SimdModelStage2(seed + 6, 60 if tier == "quick" else 1500),
          AsmSemStage(seed + 7, 40 if tier == "quick" else 2000), AsmManyStage(seed + 8, tier)]
    if tier == "thorough":
        st.append(LineStage("rs-prefer_intrinsics", rs_scripts, features=("prefer_intrinsics",)))
    return st


def replay(d, lean_exe):
    st = d.get("stage", "")
    if st in ("rs-sse41-generated-vs-cpu", "simd-generated-vs-cpu", "asm-semantics-vs-cpu", "asm-hash-many-semantics-vs-cpu"):
        return dict(still_fails=False, note="re-run the check with the same VERIF_SEED; the model input line is in `note`")
    if st in ("c-kernels", "c-win-dirty-narrow-args"):
        return replay_line(d, lean_exe, impl="c")
    feats = () if st in ("rs-asm", "") else (st[3:],)
    return replay_line(d, lean_exe, features=feats)
