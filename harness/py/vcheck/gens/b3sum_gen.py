"""b3sum (C12, C13): generators for the b3sum line-protocol driver and for process-level runs.

Standard library only.  Two entry points:

  lines_for_c13(rng, n)  -> list of op lines for /verif/harness/b3sum (b3sum-driver) and the Lean
                            driver (B3.B3sum.Drv.stepLine); the two outputs must be identical.
  cases_for_c12(rng, n)  -> list of process-level cases (dicts, JSON-serialisable via case_to_json):
                            argv (list of bytes), stdin (bytes), files ({name bytes: contents}),
                            and the prediction: `stdout` as a list of pieces, `exit`.
                            `expected_stdout(case, xof)` resolves the pieces; `run_case(exe, case)`
                            runs the real binary in a scratch directory and compares.

The prediction is a pure-Python re-statement of the Lean model (B3/B3sum/Model.lean):
`py_parse_check_line`, `py_filepath_to_string`, `py_format_line`, `py_unescape`, `py_check_run`.
`py_step(op_line)` implements the `P ...` ops on that re-statement, so the re-statement itself can
be diffed against the Lean driver.  The digest bytes are "the library's extended output"; they are
obtained either from the driver (`P xof ...`, see `xof_via_driver`) or from the pure-Python BLAKE3
below (`py_xof`), which follows the reference implementation.
"""
import os
import shutil
import subprocess
import tempfile

# ---------------------------------------------------------------------------------------------
# pure-Python re-statement of the Lean model

REPL = "\ufffd"
TAG_PREFIX = "BLAKE3 ("
TAG_SEP = ") = "
UNTAG_SEP = "  "


def utf8_len(c):
    n = ord(c)
    return 1 if n < 0x80 else 2 if n < 0x800 else 3 if n < 0x10000 else 4


def byte_len(s):
    return sum(utf8_len(c) for c in s)


def py_lossy(b):
    """OsStr::to_string_lossy on Unix (Utf8Chunks: one U+FFFD per maximal invalid prefix)"""
    return b.decode("utf-8", errors="replace")


def py_strict(b):
    try:
        s = b.decode("utf-8")
    except UnicodeDecodeError:
        return None
    return s


def py_filepath_to_string(s):
    if any(c in "\\\n\r" for c in s):
        return s.replace("\\", "\\\\").replace("\n", "\\n").replace("\r", "\\r"), True
    return s, False


def py_format_line(tag, path_bytes, hash_hex):
    fs, esc = py_filepath_to_string(py_lossy(path_bytes))
    out = "\\" if esc else ""
    if tag:
        return out + TAG_PREFIX + fs + TAG_SEP + hash_hex
    return out + hash_hex + UNTAG_SEP + fs


class Panic(Exception):
    pass


class PErr(Exception):
    def __init__(self, cls):
        Exception.__init__(self, cls)
        self.cls = cls


MSG = {"empty-line": "Empty line", "format": "Invalid check line format", "hash-length": "Invalid hash length",
       "hex": "Invalid hex", "escape": "Invalid backslash escape", "empty-path": "empty file path",
       "nul": "Null character in path", "fffd": "Unicode replacement character in path"}


def _hex_half(c):
    n = ord(c)
    if 48 <= n <= 57:
        return n - 48
    if 97 <= n <= 102:
        return n - 97 + 10
    raise PErr("hex")


def py_unescape(path):
    out = []
    while True:
        i = path.find("\\")          # character index; all arithmetic below is on BYTE offsets
        if i < 0:
            break
        bi = byte_len(path[:i])
        if not (bi < byte_len(path) - 1):
            raise PErr("escape")
        out.append(path[:i])
        c = path[i + 1]
        if c == "n":
            out.append("\n")
        elif c == "r":
            out.append("\r")
        elif c == "\\":
            out.append("\\")
        else:
            raise PErr("escape")
        path = path[i + 2:]
    out.append(path)
    return "".join(out)


def py_parse_check_line(line0):
    """returns (file_string, is_escaped, file_path, expected_hash bytes); raises PErr or Panic"""
    line = line0.rstrip("\r\n")
    if line == "":
        raise PErr("empty-line")
    if line[0] == "\\":
        esc = True
        las = line[1:]
    else:
        esc = False
        las = line
    # the tagged form is tried first (fix bb2f114)
    if las.startswith(TAG_PREFIX) and las[len(TAG_PREFIX):].rfind(TAG_SEP) >= 0:
        t = las[len(TAG_PREFIX):]
        k = t.rfind(TAG_SEP)
        file_str, hash_hex = t[:k], t[k + 4:]
    elif las.find(UNTAG_SEP) >= 0:
        k = las.find(UNTAG_SEP)
        hash_hex, file_str = las[:k], las[k + 2:]
    else:
        raise PErr("format")
    if byte_len(hash_hex) != 64:
        raise PErr("hash-length")
    if any(ord(c) >= 0x80 for c in hash_hex):    # ensure!(hash_hex.is_ascii()) (fix 008d515)
        raise PErr("hex")
    hb = bytearray()
    cs = list(hash_hex)
    for j in range(32):
        if len(cs) < 2 * j + 2:
            raise Panic()                      # hex_chars.next().unwrap() on None
        h = _hex_half(cs[2 * j])
        l = _hex_half(cs[2 * j + 1])
        hb.append(16 * h + l)
    fps = py_unescape(file_str) if esc else file_str
    if fps == "":
        raise PErr("empty-path")
    if "\0" in fps:
        raise PErr("nul")
    if REPL in fps:
        raise PErr("fffd")
    return file_str, esc, fps, bytes(hb)


def _unhex(t):
    if t == "-":
        return b""
    if t == "" or len(t) % 2 or any(c not in "0123456789abcdef" for c in t):
        return None
    return bytes.fromhex(t)


FIXED_HASH = "a" * 64


def _parse_out(s):
    try:
        fs, esc, fp, hb = py_parse_check_line(s)
    except PErr as e:
        return "err:" + e.cls
    except Panic:
        return "PANIC"
    return "ok %s %s %d" % (fp.encode().hex(), hb.hex(), 1 if esc else 0)


def py_step(op):
    """the P ops on the Python re-statement (same output as both drivers)"""
    t = op.split(" ")
    if len(t) < 3 or t[0] != "P":
        return "bad-op"
    b = _unhex(t[2])
    if b is None:
        return "bad-op"
    if t[1] in ("line", "disp", "unescape") and len(t) == 3:
        s = py_strict(b)
        if s is None:
            return "bad-op"
        if t[1] == "line":
            return _parse_out(s)
        if t[1] == "unescape":
            try:
                return "ok " + py_unescape(s).encode().hex()
            except PErr as e:
                return "err:" + e.cls
        try:
            fs, esc, fp, hb = py_parse_check_line(s)
        except PErr as e:
            return "err:" + e.cls
        except Panic:
            return "PANIC"
        return "ok " + (("\\" if esc else "") + fs).encode().hex()
    if t[1] == "fmt" and len(t) == 4 and t[3] in ("plain", "tag"):
        return "ok " + py_format_line(t[3] == "tag", b, FIXED_HASH).encode().hex()
    if t[1] == "f2s" and len(t) == 3:
        s, esc = py_filepath_to_string(py_lossy(b))
        return "ok %s %d" % (s.encode().hex(), 1 if esc else 0)
    if t[1] == "rt" and len(t) == 5 and t[3] in ("plain", "tag") and t[4] in ("lf", "crlf", "none"):
        term = {"lf": "\n", "crlf": "\r\n", "none": ""}[t[4]]
        return _parse_out(py_format_line(t[3] == "tag", b, FIXED_HASH) + term)
    return "bad-op"


# ---------------------------------------------------------------------------------------------
# C13: op lines

INTERESTING = [
    "\0", REPL, "\\", "\r", "\n", " ", ")", "=", "(", "B", "3", "a", "f", "g", "A", "F", "0", "9", "/", ":", "n", "r",
    "\t", "\x7f", "\x80", "\xa0", "\xe9", "\xdf", "\u07ff", "\u0800", "\u20ac", "\u2028", "\ufeff", "\ufffc", "\ufffe",
    "\uffff", "\U00010000", "\U0001F600", "\U0010FFFF", "x", "-", "\"", "+", "_", "G", "@", "`", "'", ",", ".", "e", "E", "o", "X", "#",
]
MB2 = ["\xe9", "\x80", "\u07ff"]
MB3 = ["\u20ac", "\u0800", REPL]
MB4 = ["\U0001F600", "\U00010000", "\U0010FFFF"]

BASE_PATHS = [
    b"a", b"file.txt", b"dir/sub/file", b"a b", b"a  b", b" lead", b"trail ", b"x) = y", b"BLAKE3 (x", b"back\\slash",
    b"new\nline", b"cr\rhere", "\xe9".encode(), "\u65e5\u672c".encode(), "\U0001F600".encode(), b"a\\nb", b"-", b"(", b"=",
    b"0123456789abcdef0123456789abcdef0123456789abcdef0123456789abcdef",
]


def _rand_hash(rng):
    return "".join(rng.choice("0123456789abcdef") for _ in range(64))


def _line_op(s, kind="line"):
    b = s.encode("utf-8")
    return "P %s %s" % (kind, b.hex() if b else "-")


def base_lines(rng):
    """~20 valid check lines of both forms (as str, without terminator)"""
    out = []
    for i, p in enumerate(BASE_PATHS):
        h = [FIXED_HASH, "0123456789abcdef" * 4][i % 2] if i < 4 else _rand_hash(rng)
        out.append(py_format_line(i % 2 == 1, p, h))
    # both forms for the paths that distinguish the forms
    out.append(py_format_line(True, b"a b", _rand_hash(rng)))
    out.append(py_format_line(False, b"x) = y", _rand_hash(rng)))
    out.append(py_format_line(True, b"new\nline", _rand_hash(rng)))
    return out


def single_char_mutations(line):
    """every single-character mutation of `line` (a str), as strs"""
    cs = list(line)
    n = len(cs)
    for i in range(n):
        yield "".join(cs[:i] + cs[i + 1:])                      # delete
        yield "".join(cs[:i] + [cs[i], cs[i]] + cs[i + 1:])     # duplicate
        for c in INTERESTING:
            if c != cs[i]:
                yield "".join(cs[:i] + [c] + cs[i + 1:])        # replace
    for i in range(n + 1):
        for c in INTERESTING:
            yield "".join(cs[:i] + [c] + cs[i:])                # insert


def width_preserving_mutations(line):
    """replace k adjacent characters by ONE k-byte character (k = 2, 3, 4): the byte length of the
    line (and of its hash field) is unchanged, the number of characters is not"""
    cs = list(line)
    for k, alts in ((2, MB2), (3, MB3), (4, MB4)):
        for i in range(0, len(cs) - k + 1):
            if all(ord(c) < 0x80 for c in cs[i:i + k]):
                for a in alts:
                    yield "".join(cs[:i] + [a] + cs[i + k:])


PATH_TOKENS = (
    [b" "] * 6 + [b"  "] * 6 + [b") = "] * 5 + [b"BLAKE3 ("] * 5 + [b"\\"] * 6 + [b"\r"] * 4 + [b"\n"] * 4 + [b"\\n", b"\\r", b"\\\\"] +
    [b"a", b"b", b"c", b"x", b"y", b"z", b"0", b"f", b"/", b".", b"(", b")", b"=", b"-", b"\t"] * 2 +
    ["\xe9".encode(), "\u20ac".encode(), "\U0001F600".encode(), "\u65e5".encode(), "\ufffc".encode(), "\ufffe".encode()] +
    [b"\xff", b"\xfe", b"\xc3", b"\xe2\x82", b"\xf0\x9f\x98", b"\xed\xa0\x80", b"\xf4\x90\x80\x80", b"\xc0\xaf", b"\x80", b"\xbf",
     b"\xe0\x80\x80", b"\xf8\x88\x80\x80\x80"] + [b"\x00", REPL.encode()] + [b"a" * 64, b"0123456789abcdef" * 4])


def rand_path(rng):
    n = rng.choice([0, 1, 1, 2, 2, 3, 3, 4, 5, 6, 8, 12])
    p = b"".join(rng.choice(PATH_TOKENS) for _ in range(n))
    r = rng.random()
    if r < 0.15:
        p = rng.choice([b" ", b"  ", b"\t", b"\r", b"\n"]) + p
    elif r < 0.30:
        p = p + rng.choice([b" ", b"  ", b"\t", b"\r", b"\n", b"\r\n"])
    return p


def rand_bytes_utf8ish(rng):
    """byte strings that stress the UTF-8 decoder: lead bytes, continuation bytes, boundaries"""
    pool = [0x00, 0x41, 0x7f, 0x80, 0x8f, 0x90, 0x9f, 0xa0, 0xbf, 0xc0, 0xc1, 0xc2, 0xdf, 0xe0, 0xe1, 0xec, 0xed, 0xee, 0xef, 0xf0,
            0xf1, 0xf3, 0xf4, 0xf5, 0xf7, 0xf8, 0xff, 0x5c, 0x0a, 0x0d, 0x20]
    n = rng.randrange(0, 9)
    return bytes(rng.choice(pool) if rng.random() < 0.85 else rng.randrange(256) for _ in range(n))


def rand_escaped_text(rng):
    toks = ["\\", "\\", "\\n", "\\r", "\\\\", "n", "r", "x", " ", "\xe9", "\U0001F600", "\\\xe9", "\\\U0001F600", "\n", "\r", "\\x", "\\ ", "\0",
            REPL, "ab"]
    return "".join(rng.choice(toks) for _ in range(rng.randrange(0, 8)))


def rand_free_line(rng):
    """arbitrary text assembled from the structural pieces of the format"""
    toks = [FIXED_HASH, "a" * 63, "a" * 65, "a" * 62 + "\xe9", "a" * 60 + "\U0001F600", "a" * 61 + "\u20ac", "\xe9" + "a" * 62,
            "a" * 30 + "\xe9" + "a" * 32, "A" * 64, "g" * 64, "  ", " ", "\\", TAG_PREFIX, TAG_SEP, "x", "y z", "\\n", "\\q", "\r", "\n", "\0", REPL,
            "", "BLAKE3", "(", ")", " = ", "\xe9", "\U0001F600"]
    return "".join(rng.choice(toks) for _ in range(rng.randrange(0, 7)))


def lines_for_c13(rng, n):
    """op lines; the exhaustive mutation block is always present, random ops fill up to `n` lines"""
    ops = []
    seen = set()

    def add(op):
        if op not in seen:
            seen.add(op)
            ops.append(op)

    bases = base_lines(rng)
    for bl in bases:
        for term in ("", "\n", "\r\n"):
            add(_line_op(bl + term))
            add(_line_op(bl + term, "disp"))
    for bl in bases:
        for m in single_char_mutations(bl):
            add(_line_op(m))
        for m in width_preserving_mutations(bl):
            add(_line_op(m))
        # the same line with a terminator, mutated only by deletion/duplication (keeps the block small)
        for term in ("\n", "\r\n"):
            cs = list(bl + term)
            for i in range(len(cs)):
                add(_line_op("".join(cs[:i] + cs[i + 1:])))
    # every ASCII character (and a few non-ASCII ones) substituted at every position of the hash field, in both forms:
    # exactly [0-9a-f] may be accepted (number syntax such as a sign, `_`, `0x`, whitespace or upper case must not be)
    for bl in (bases[0], bases[1]):
        i0 = bl.index(TAG_SEP) + len(TAG_SEP) if bl.startswith(TAG_PREFIX) else 0
        cs = list(bl)
        for i in range(i0, i0 + 64):
            for c in [chr(k) for k in range(128)] + ["\xe9", "\u0661", "\uff11", "\uff41"]:
                if c != cs[i]:
                    add(_line_op("".join(cs[:i] + [c] + cs[i + 1:])))
    for p in BASE_PATHS:
        for form in ("plain", "tag"):
            add("P fmt %s %s" % (p.hex(), form))
            for term in ("lf", "crlf", "none"):
                add("P rt %s %s %s" % (p.hex(), form, term))
    tries = 0
    while len(ops) < n and tries < 20 * n + 1000:
        tries += 1
        r = rng.random()
        if r < 0.40:
            p = rand_path(rng)
            add("P rt %s %s %s" % (p.hex() or "-", rng.choice(["plain", "tag"]), rng.choice(["lf", "crlf", "none"])))
        elif r < 0.50:
            p = rand_path(rng)
            add("P fmt %s %s" % (p.hex() or "-", rng.choice(["plain", "tag"])))
        elif r < 0.62:
            b = rand_bytes_utf8ish(rng)
            add("P f2s %s" % (b.hex() or "-"))
        elif r < 0.72:
            add(_line_op(rand_escaped_text(rng), "unescape"))
        elif r < 0.86:
            add(_line_op(rand_free_line(rng)))
        else:
            # a formatted line of a random path with one random mutation
            p = rand_path(rng)
            s = py_format_line(rng.random() < 0.5, p, _rand_hash(rng)) + rng.choice(["", "\n", "\r\n"])
            cs = list(s)
            i = rng.randrange(len(cs))
            k = rng.random()
            if k < 0.3:
                cs = cs[:i] + cs[i + 1:]
            elif k < 0.6:
                cs = cs[:i] + [rng.choice(INTERESTING)] + cs[i + 1:]
            else:
                cs = cs[:i] + [rng.choice(INTERESTING)] + cs[i:]
            add(_line_op("".join(cs), rng.choice(["line", "line", "disp"])))
    return ops


# ---------------------------------------------------------------------------------------------
# pure-Python BLAKE3 (after reference_impl/reference_impl.rs), extended output with seek

_IV = [0x6A09E667, 0xBB67AE85, 0x3C6EF372, 0xA54FF53A, 0x510E527F, 0x9B05688C, 0x1F83D9AB, 0x5BE0CD19]
_PERM = [2, 6, 3, 10, 7, 0, 4, 13, 1, 11, 12, 5, 9, 14, 15, 8]
_M32 = 0xFFFFFFFF
CHUNK_START, CHUNK_END, PARENT, ROOT, KEYED_HASH, DERIVE_KEY_CONTEXT, DERIVE_KEY_MATERIAL = 1, 2, 4, 8, 16, 32, 64


def _compress(cv, m, counter, block_len, flags):
    v = list(cv) + _IV[:4] + [counter & _M32, (counter >> 32) & _M32, block_len, flags]
    m = list(m)

    def g(a, b, c, d, x, y):
        v[a] = (v[a] + v[b] + x) & _M32
        t = v[d] ^ v[a]
        v[d] = ((t >> 16) | (t << 16)) & _M32
        v[c] = (v[c] + v[d]) & _M32
        t = v[b] ^ v[c]
        v[b] = ((t >> 12) | (t << 20)) & _M32
        v[a] = (v[a] + v[b] + y) & _M32
        t = v[d] ^ v[a]
        v[d] = ((t >> 8) | (t << 24)) & _M32
        v[c] = (v[c] + v[d]) & _M32
        t = v[b] ^ v[c]
        v[b] = ((t >> 7) | (t << 25)) & _M32

    for r in range(7):
        g(0, 4, 8, 12, m[0], m[1])
        g(1, 5, 9, 13, m[2], m[3])
        g(2, 6, 10, 14, m[4], m[5])
        g(3, 7, 11, 15, m[6], m[7])
        g(0, 5, 10, 15, m[8], m[9])
        g(1, 6, 11, 12, m[10], m[11])
        g(2, 7, 8, 13, m[12], m[13])
        g(3, 4, 9, 14, m[14], m[15])
        if r < 6:
            m = [m[i] for i in _PERM]
    for i in range(8):
        v[i] ^= v[i + 8]
        v[i + 8] ^= cv[i]
    return v


def _words(b):
    b = b + b"\0" * (64 - len(b))
    return [int.from_bytes(b[i:i + 4], "little") for i in range(0, 64, 4)]


def _chunk_output(key, chunk, counter, flags):
    """returns the Output (cv, block words, counter, block_len, flags) of a chunk"""
    cv = key
    blocks = [chunk[i:i + 64] for i in range(0, len(chunk), 64)] or [b""]
    for i, blk in enumerate(blocks):
        f = flags | (CHUNK_START if i == 0 else 0)
        if i == len(blocks) - 1:
            return (cv, _words(blk), counter, len(blk), f | CHUNK_END)
        cv = _compress(cv, _words(blk), counter, 64, f)[:8]


def _out_cv(o):
    return _compress(o[0], o[1], o[2], o[3], o[4])[:8]


def _subtree(key, data, counter, flags):
    """Output of the subtree over `data` (non-empty unless it is the whole input)"""
    if len(data) <= 1024:
        return _chunk_output(key, data, counter, flags)
    nchunks = (len(data) + 1023) // 1024
    left = 1 << ((nchunks - 1).bit_length() - 1)
    l = _out_cv(_subtree(key, data[:left * 1024], counter, flags))
    r = _out_cv(_subtree(key, data[left * 1024:], counter + left, flags))
    return (key, l + r, 0, 64, flags | PARENT)


def py_xof(mode, data, seek=0, length=32):
    """mode: ("hash",) | ("keyed", key32) | ("derive", context bytes)"""
    if mode[0] == "hash":
        key, flags = _IV, 0
    elif mode[0] == "keyed":
        key, flags = [int.from_bytes(mode[1][i:i + 4], "little") for i in range(0, 32, 4)], KEYED_HASH
    else:
        ck = py_xof_raw(_IV, DERIVE_KEY_CONTEXT, mode[1], 0, 32)
        key, flags = [int.from_bytes(ck[i:i + 4], "little") for i in range(0, 32, 4)], DERIVE_KEY_MATERIAL
    return py_xof_raw(key, flags, data, seek, length)


def py_xof_raw(key, flags, data, seek, length):
    o = _subtree(key, data, 0, flags)
    out = bytearray()
    blk = seek // 64
    skip = seek % 64
    while len(out) < skip + length:
        w = _compress(o[0], o[1], blk, o[3], o[4] | ROOT)
        out += b"".join(x.to_bytes(4, "little") for x in w)
        blk += 1
    return bytes(out[skip:skip + length])


def xof_via_driver(driver_exe):
    """returns xof(mode, data, seek, length) computed by the library through `P xof`"""
    def f(mode, data, seek=0, length=32):
        m = "hash" if mode[0] == "hash" else "keyed " + mode[1].hex() if mode[0] == "keyed" else "derive " + (mode[1].hex() or "-")
        op = "P xof %s hex %s %d %d\n" % (m, data.hex() or "-", seek, length)
        r = subprocess.run([driver_exe], input=op.encode(), stdout=subprocess.PIPE, check=True)
        t = r.stdout.decode().strip()
        return bytes.fromhex(t)
    return f


# ---------------------------------------------------------------------------------------------
# C12: process-level cases

def lcg_bytes(n, seed):
    s = seed & ((1 << 64) - 1)
    out = bytearray()
    for _ in range(n):
        s = (s * 6364136223846793005 + 1442695040888963407) & ((1 << 64) - 1)
        out.append(s >> 56)
    return bytes(out)


FILE_NAMES = [b"a", b"file.txt", b"a b", b"a  b", b" lead", b"trail ", b"x) = y", b"BLAKE3 (x", b"back\\slash", b"new\nline", b"cr\rhere",
              "\xe9".encode(), "\U0001F600".encode(), b"inv\xffalid", b"inv\xe2\x82", b"\\", b"a\\nb", b") = ", b"BLAKE3 (", b"x  ",
              b"0123456789abcdef0123456789abcdef0123456789abcdef0123456789abcdef  x", "with\ufffdrepl".encode()]
SIZES = [0, 1, 31, 63, 64, 65, 1023, 1024, 1025, 2048, 3000, 16383, 16384, 16385, 70000, 131072, 200000]
LENGTHS = [0, 1, 2, 31, 32, 33, 63, 64, 65, 127, 128, 129, 200, 1000]
SEEKS = [0, 1, 31, 32, 63, 64, 65, 127, 128, 1000, 1 << 20, (1 << 32) - 1, (1 << 32), (1 << 40) + 17, (1 << 63), (1 << 64) - 65, (1 << 64) - 1]
CONTEXTS = [b"", b"a", b"BLAKE3 2019-12-27 16:29:52 test vectors context", "h\xe9llo".encode(), b"x" * 100]


def hash_case(rng):
    """b3sum [flags] file...  -> digest pieces"""
    nfiles = rng.choice([1, 1, 1, 2, 3])
    names = rng.sample(FILE_NAMES, nfiles)
    files = {}
    for nm in names:
        sz = rng.choice(SIZES) if rng.random() < 0.7 else rng.randrange(0, 5000)
        files[nm] = lcg_bytes(sz, rng.randrange(1 << 32))
    groups = []
    mode = ("hash",)
    stdin = b""
    r = rng.random()
    if r < 0.25:
        key = bytes(rng.randrange(256) for _ in range(32))
        groups.append([b"--keyed"])
        stdin = key
        mode = ("keyed", key)
    elif r < 0.5:
        ctx = rng.choice(CONTEXTS)
        groups.append([b"--derive-key", ctx])
        mode = ("derive", ctx)
    length, seek = 32, 0
    if rng.random() < 0.6:
        length = rng.choice(LENGTHS)
        groups.append(rng.choice([[b"--length", str(length).encode()], [b"-l", str(length).encode()], [b"--length=" + str(length).encode()]]))
    if rng.random() < 0.5:
        seek = rng.choice(SEEKS)
        groups.append([b"--seek", str(seek).encode()])
    if rng.random() < 0.4:
        groups.append([b"--no-mmap"])
    if rng.random() < 0.4:
        groups.append([b"--num-threads", str(rng.choice([0, 1, 2, 3, 8])).encode()])
    raw = no_names = tag = False
    k = rng.random()
    if k < 0.2 and nfiles == 1:
        raw = True
        groups.append([b"--raw"])
    elif k < 0.4:
        no_names = True
        groups.append([b"--no-names"])
    if rng.random() < 0.4:
        tag = True
        groups.append([b"--tag"])
    rng.shuffle(groups)
    argv = [a for g in groups for a in g]
    # inputs: real files, optionally a missing file (tolerated: diagnostic, exit 1, the rest still
    # hashed) and `-` (standard input; refused in keyed mode because stdin carried the key)
    inputs = list(names)
    exit_code = 0
    missing = None
    if not raw and rng.random() < 0.15:
        missing = b"no such file"
        inputs.insert(rng.randrange(len(inputs) + 1), missing)
        exit_code = 1
    if not raw and rng.random() < 0.15:
        inputs.insert(rng.randrange(len(inputs) + 1), b"-")
        if mode[0] == "keyed":
            exit_code = 1
        else:
            stdin = lcg_bytes(rng.choice([0, 3, 64, 1025, 70000]), rng.randrange(1 << 32))
            files = dict(files)
    argv.append(b"--")
    pieces = []
    for nm in inputs:
        argv.append(nm)
        if nm == missing or (nm == b"-" and mode[0] == "keyed"):
            continue
        d = ("xof", mode, nm, seek, length)
        if raw:
            pieces.append(("xofraw", mode, nm, seek, length))
        elif no_names:
            pieces += [("xofhex",) + d[1:], ("lit", b"\n")]
        else:
            fs, esc = py_filepath_to_string(py_lossy(nm))
            pre = b"\\" if esc else b""
            if tag:
                pieces += [("lit", pre + b"BLAKE3 (" + fs.encode() + b") = "), ("xofhex",) + d[1:], ("lit", b"\n")]
            else:
                pieces += [("lit", pre), ("xofhex",) + d[1:], ("lit", b"  " + fs.encode() + b"\n")]
    return dict(kind="hash", argv=argv, stdin=stdin, files=files, stdout=pieces, exit=exit_code)


def _mutate_entry(rng, s):
    cs = list(s)
    i = rng.randrange(len(cs))
    k = rng.random()
    if k < 0.3:
        cs = cs[:i] + cs[i + 1:]
    elif k < 0.7:
        cs = cs[:i] + [rng.choice(INTERESTING)] + cs[i + 1:]
    else:
        cs = cs[:i] + [rng.choice(INTERESTING)] + cs[i:]
    return "".join(c for c in cs if c != "\n") or "x"


def py_check_run(checkfiles, files, seek=0, quiet=False, xof=None):
    """Re-statement of Model.runCheckMain.  checkfiles: list of bytes or None (unopenable);
    files: {name bytes: contents}.  Returns (stdout bytes, exit, failed)."""
    xof = xof or py_xof
    out = bytearray()
    failed = 0
    for cf in checkfiles:
        if cf is None:
            return bytes(out), 1, failed
        lines = cf.split(b"\n")
        lines = [l + b"\n" for l in lines[:-1]] + ([lines[-1]] if lines[-1] else [])
        for raw in lines:
            s = py_strict(raw)
            if s is None:
                return bytes(out), 1, failed
            try:
                fs, esc, fp, hb = py_parse_check_line(s)
            except PErr:
                failed += 1
                continue
            except Panic:
                return bytes(out), 101, failed
            name = (("\\" if esc else "") + fs).encode()
            key = fp.encode()
            if key not in files:
                failed += 1
                out += name + b": FAILED (No such file or directory (os error 2))\n"
                continue
            found = xof(("hash",), files[key], seek, 32)
            if found == hb:
                if not quiet:
                    out += name + b": OK\n"
            else:
                failed += 1
                out += name + b": FAILED\n"
    return bytes(out), (1 if failed > 0 else 0), failed


def check_case(rng):
    """b3sum --check [--quiet] [--seek N] checkfile...  with good, stale, missing and malformed entries"""
    nfiles = rng.randrange(1, 6)
    cand = [n for n in FILE_NAMES if b"/" not in n]
    names = rng.sample(cand, nfiles)
    files = {nm: lcg_bytes(rng.choice([0, 1, 64, 1025, 5000]), rng.randrange(1 << 32)) for nm in names}
    seek = rng.choice([0, 0, 0, 1, 64, 1 << 33])
    quiet = rng.random() < 0.25
    ncheck = rng.choice([1, 1, 2, 3])
    cfs = []
    for j in range(ncheck):
        entries = []
        for nm in names:
            if rng.random() < 0.8:
                h = py_xof(("hash",), files[nm], seek, 32).hex()
                tag = rng.random() < 0.5
                line = py_format_line(tag, nm, h)
                r = rng.random()
                if r < 0.12:      # stale hash
                    h2 = list(h)
                    k = rng.randrange(64)
                    h2[k] = "0" if h2[k] != "0" else "1"
                    line = py_format_line(tag, nm, "".join(h2))
                elif r < 0.30:    # malformed
                    line = _mutate_entry(rng, line)
                elif r < 0.36:    # missing file
                    line = py_format_line(tag, nm + b".missing", h)
                elif r < 0.40:    # non-ASCII hash field of the right byte length
                    line = py_format_line(tag, nm, rng.choice(["a" * 62 + "\xe9", "a" * 60 + "\U0001F600", "\xe9" + "a" * 62, "a" * 61 + "\u20ac"]))
                entries.append(line.encode() + rng.choice([b"\n", b"\n", b"\r\n"]))
        if rng.random() < 0.1:
            entries.insert(rng.randrange(len(entries) + 1), rng.choice([b"\n", b"\r\n", b"garbage\n", b"inv\xff  x\n"]))
        body = b"".join(entries)
        if body.endswith(b"\n") and rng.random() < 0.2:
            body = body[:-1]
        cfs.append(body)
    argv = [b"--check"]
    if quiet:
        argv.append(b"--quiet")
    if seek:
        argv += [b"--seek", str(seek).encode()]
    cfnames = [b"CHECK%d" % j for j in range(ncheck)]
    missing_cf = rng.random() < 0.08
    model_cfs = list(cfs)
    allfiles = dict(files)
    for j, nm in enumerate(cfnames):
        if missing_cf and j == 0:
            model_cfs[j] = None
        else:
            allfiles[nm] = cfs[j]
    argv += cfnames
    out, code, failed = py_check_run(model_cfs, files, seek, quiet)
    return dict(kind="check", argv=argv, stdin=b"", files=allfiles, stdout=[("lit", out)], exit=code, failed=failed)


def long_line_check_cases(rng):
    """--check over checkfile lines far longer than any plausible line buffer (4 KiB .. 64 KiB+): an entry naming an existing file
    through a long `./././name` path (plain, tagged, and escaped because the name holds backslashes), and entries whose path is longer
    than PATH_MAX (one FAILED line, exit 1) built so that a reader cutting the line after T bytes would find a well-formed entry for an
    existing, matching file in the remainder"""
    cases = []
    good = b"b.txt"
    bs_name = b"\\" * 150 + b"q"
    files = {good: lcg_bytes(1025, rng.randrange(1 << 32)), bs_name: lcg_bytes(70, rng.randrange(1 << 32)), b"a.txt": b"a"}
    hs = {nm: py_xof(("hash",), files[nm], 0, 32).hex() for nm in files}

    def case(body, out, failed):
        allfiles = dict(files)
        allfiles[b"CHECK0"] = body
        return dict(kind="check-long-line", argv=[b"--check", b"CHECK0"], stdin=b"", files=allfiles, stdout=[("lit", out)],
                    exit=1 if failed else 0, failed=failed)
    # existing files behind long paths (path length <= 4095)
    for nm in (good, bs_name):
        for tag in (False, True):
            for plen in (4095, 4000, 3000):
                k = (plen - len(nm)) // 2
                path = b"./" * k + nm
                line = py_format_line(tag, path, hs[nm])
                fs, esc = py_filepath_to_string(py_lossy(path))
                shown = (("\\" if esc else "") + fs).encode()
                for eol in (b"\n", b"\r\n"):
                    body = line.encode() + eol + py_format_line(False, good, hs[good]).encode() + b"\n"
                    cases.append(case(body, shown + b": OK\n" + good + b": OK\n", 0))
    # one entry whose path is too long for open(); cut after T bytes it would read as two entries, the second one valid and matching
    for T in (4096, 4097, 4160, 4176, 4224, 4225, 8192, 16384, 65536, 65537):
        for tag in (False, True):
            tail = py_format_line(tag, good, hs[good]).encode()
            head0 = (b"BLAKE3 (" if tag else (hs[b"a.txt"].encode() + b"  "))
            end0 = (b") = " + hs[b"a.txt"].encode()) if tag else b""
            if tag:
                # tagged form: the hash comes last, so the "remainder" trick needs the untagged tail inside the path
                fill = T - len(head0)
                path = (b"./" * (fill // 2 + 1))[:fill - 5] + b"a.txt" + tail
                line = head0 + path + end0
                shown = path
            else:
                fill = T - len(head0)
                path = (b"./" * (fill // 2 + 1))[:fill - 5] + b"a.txt" + tail
                line = head0 + path
                shown = path
            body = line + b"\n"
            out = shown + b": FAILED (File name too long (os error 36))\n"
            cases.append(case(body, out, 1))
    return cases


def raw_long_cases(rng):
    """--raw with long --length values: megabytes of extended output through b3sum's own write loop into a pipe (whatever the
    bytes happen to be: newlines, long runs without one, ...), at block-unaligned seeks; one file each"""
    cases = []
    for length, seek in [(1025, 0), (8192, 63), (65536, 0), (65537, 1), (200000, 1000), (1 << 20, 0), (4 << 20, 0), (4 << 20, (1 << 32) - 1),
                         (4 << 20, (1 << 40) + 17), ((4 << 20) + 4097, 31)]:
        nm = rng.choice([b"a", b"file.txt"])
        data = lcg_bytes(rng.choice([0, 3, 1025, 70000]), rng.randrange(1 << 32))
        mode, stdin, pre = ("hash",), b"", []
        r = rng.random()
        if r < 0.3:
            key = bytes(rng.randrange(256) for _ in range(32))
            mode, stdin, pre = ("keyed", key), key, [b"--keyed"]
        elif r < 0.5:
            mode, pre = ("derive", b"raw long"), [b"--derive-key", b"raw long"]
        argv = pre + [b"--raw", b"--length", str(length).encode()] + ([b"--seek", str(seek).encode()] if seek else []) + [b"--", nm]
        cases.append(dict(kind="hash", argv=argv, stdin=stdin, files={nm: data}, stdout=[("xofraw", mode, nm, seek, length)], exit=0))
    return cases


def cases_for_c12(rng, n):
    cases = long_line_check_cases(rng) + raw_long_cases(rng)
    for i in range(n):
        cases.append(hash_case(rng) if i % 2 == 0 else check_case(rng))
    return cases


def expected_stdout(case, xof=None):
    xof = xof or py_xof
    out = bytearray()
    for p in case["stdout"]:
        if p[0] == "lit":
            out += p[1]
        else:
            data = case["stdin"] if p[2] == b"-" else case["files"][p[2]]
            d = xof(p[1], data, p[3], p[4])
            out += d if p[0] == "xofraw" else d.hex().encode()
    return bytes(out)


def case_to_json(case):
    def enc(x):
        if isinstance(x, bytes):
            return {"hex": x.hex()}
        if isinstance(x, (list, tuple)):
            return [enc(y) for y in x]
        if isinstance(x, dict):
            return [[enc(k), enc(v)] for k, v in x.items()]
        return x
    return {k: enc(v) for k, v in case.items()}


def run_case(b3sum_exe, case, xof=None, keep=False):
    """run the real binary; returns (ok, detail dict)"""
    d = tempfile.mkdtemp(prefix="b3sum_case_")
    try:
        for nm, content in case["files"].items():
            with open(os.path.join(os.fsencode(d), nm), "wb") as f:
                f.write(content)
        p = subprocess.run([os.fsencode(b3sum_exe)] + list(case["argv"]), input=case["stdin"], stdout=subprocess.PIPE,
                           stderr=subprocess.PIPE, cwd=d, timeout=120)
        want = expected_stdout(case, xof)
        ok = (p.stdout == want and p.returncode == case["exit"])
        return ok, dict(stdout=p.stdout, want_stdout=want, exit=p.returncode, want_exit=case["exit"], stderr=p.stderr)
    finally:
        if not keep:
            shutil.rmtree(d, ignore_errors=True)
