"""C17: secret state is neither printed by Debug nor left behind by zeroize"""
import re

from .. import core
from ..core import Script, Rng
from ..stage import LineStage, replay_line
from .common import *

ARTEFACTS = ["G4-listings"]
EXTRA_PROPS = [("B3.Props.Surface", "B3/Props/Surface.lean")]
RULE = ("(1) Debug: format!(\"{:?}\") of Hasher, OutputReader and guts::ChunkState after every step of update/xof/seek histories, compared "
        "with the model's renderer, which is a function of flags, platform, counters, lengths and position only; every history is run "
        "twice with different keys/contexts/input bytes (same op kinds and lengths) and the Debug lines of the two runs must be "
        "identical; (2) zeroize: objects built by one constructor from 4 different secrets are snapshotted byte-wise before and after "
        "zeroize(); every position where the snapshots differ is secret-bearing and must be zero afterwards in all of them (no knowledge "
        "of private field offsets); Hash, Hasher (empty, partial chunk, deep stack) and OutputReader (after 0/10/64/200 bytes read); "
        "non-trivial = history with at least one update; distinct = distinct script")
ASSUMPTIONS = ["copies the compiler may have left in dead stack slots or registers are outside any source-level model",
               "the Debug output of the platform enum is its variant name"]
NOT_PROVED = ["absence of secret-derived bytes in the objects' memory after zeroize is observed by the byte scan, not proved; the model proves it for the declared fields"]


def history(rng, plat, secret_seed):
    """structure from rng, secrets (keys, data seeds) from secret_seed"""
    sr = Rng(secret_seed)
    kind = rng.choice(["hash", "keyed", "derive"])
    ctx_len = rng.choice([0, 5, 64])
    if kind == "keyed":
        mode = "keyed " + bytes(sr.randrange(256) for _ in range(32)).hex()
    elif kind == "derive":
        mode = "derive " + hexs(bytes(sr.randrange(32, 127) for _ in range(ctx_len)))
    else:
        mode = "hash"
    ops = [f"P plat {plat}", f"H new a {mode}", "D dbg a"]
    for _ in range(rng.randrange(1, 8)):
        x = rng.random()
        if x < 0.6:
            n = size_of_class(rng.choice(SIZE_CLASSES), rng, 40000)
            ops += [f"H upd a pat {n} {sr.randrange(1 << 32)}", "D dbg a"]
        elif x < 0.85:
            ops += ["H xof a x", "D dbgx x", f"X fill x {rng.choice([1, 64, 100])}", "D dbgx x", f"X setpos x {rng.choice([0, 5, 1 << 40])}", "D dbgx x"]
        else:
            ops += ["H reset a", "D dbg a"]
    t = rng.choice([0, 3, 1 << 33])
    n = rng.choice([0, 10, 100, 1024])
    ops += [f"G new g {t}", f"G upd g pat {n} {sr.randrange(1 << 32)}", "D dbgg g"]
    return Script(ops, tags=(plat, kind))


class PairStage(LineStage):
    """runs the histories in secret-variant pairs; besides the three-way comparison, the Debug lines of the two
    variants must be identical"""

    def run(self, lean_exe):
        res = super().run(lean_exe)
        ok, exe, _ = self.build_impl()
        if not ok:
            return res
        lines = [l for sc in self.scripts for l in sc.ops]
        rc, out, _ = core.run_driver(exe, lines)
        pos = 0
        per = []
        for sc in self.scripts:
            per.append([o for op, o in zip(sc.ops, out[pos:pos + len(sc.ops)]) if op.startswith("D dbg")])
            pos += len(sc.ops)
        found = 0
        for i in range(0, len(per) - 1, 2):
            if per[i] != per[i + 1] and found < 3:
                # the property-level witness: reported first, whatever else the three-way comparison found
                found += 1
                res["mismatches"].insert(found - 1, dict(kind="impl-vs-spec", impl_name="rs", ops=self.scripts[i].ops + ["#variant"] + self.scripts[i + 1].ops,
                                              impl_differs=True, note="Debug output differs between two histories that differ only in secrets",
                                              impl_output=str(per[i])[:500], spec_output=str(per[i + 1])[:500]))
        return res


def zero_oracle(op):
    if op.startswith("D zeroscan "):
        def ok(out):
            m = re.match(r"^(\d+) (\d+) (\d+) (\d+)$", out)
            if not m:
                return out == "-"       # the Lean driver has no memory model: it prints `-`
            # (with an empty input in hash mode nothing in the object depends on a secret: zero positions is then fine)
            return int(m.group(3)) == 0 and (int(m.group(2)) > 0 or op.endswith(" hash"))
        ok.replaces_equality = True     # memory scans have no counterpart in the Lean driver
        return ok
    return None


def norm_zero(op, out):
    return out


def stages(tier, seed, witness_search=False):
    rng = Rng(seed)
    n = 150 if tier == "quick" else 3000
    scripts = []
    for i in range(n):
        st = rng.getstate()
        a = history(rng, PLATFORMS[i % 5], 1000 + 2 * i)
        rng.setstate(st)
        b = history(rng, PLATFORMS[i % 5], 1001 + 2 * i)
        scripts += [a, b]
    zs = []
    for ln in [0, 1, 64, 1000, 1024, 1025, 5000, 70000, 200000]:
        zs.append(Script([f"D zeroscan h {ln} 0"], tags=("zeroize-hasher",)))
        zs.append(Script([f"D zeroscan hash {ln} 0"], tags=("zeroize-hash",)))
        zs.append(Script([f"D zeroscan hashu {ln} 0"], tags=("zeroize-hash-every-alignment",)))
        for ex in [0, 10, 64, 200]:
            zs.append(Script([f"D zeroscan x {ln} {ex}"], tags=("zeroize-reader",)))
        for ex in [1, 10, 63, 65, 200]:
            # a read that stops inside a block, then leaving that block (seek / read to its end), then zeroize
            zs.append(Script([f"D zeroscan xs {ln} {ex}"], tags=("zeroize-reader-seek",)))
            zs.append(Script([f"D zeroscan xb {ln} {ex}"], tags=("zeroize-reader-boundary",)))
    # the same scans in the other two modes: in `hash` mode the input itself is what must not survive (a chaining value of a
    # one-chunk input of more than one block is input-derived), in `derive` mode the context key
    for mode in ("hash", "derive"):
        for ln in [0, 1, 64, 65, 100, 128, 1000, 1023, 1024, 1025, 5000, 70000]:
            zs.append(Script([f"D zeroscan h {ln} 0 {mode}"], tags=("zeroize-hasher-" + mode,)))
            zs.append(Script([f"D zeroscan hash {ln} 0 {mode}"], tags=("zeroize-hash-" + mode,)))
            for ex in [0, 10, 64, 200]:
                zs.append(Script([f"D zeroscan x {ln} {ex} {mode}"], tags=("zeroize-reader-" + mode,)))
            for ex in [1, 63, 65]:
                zs.append(Script([f"D zeroscan xs {ln} {ex} {mode}"], tags=("zeroize-reader-seek-" + mode,)))
                zs.append(Script([f"D zeroscan xb {ln} {ex} {mode}"], tags=("zeroize-reader-boundary-" + mode,)))
    # unusual but legal key values (all zero, all ones, one bit): a wipe that keys a decision on the key's value hides here
    for ln in [0, 1, 64, 1000, 1024, 1025, 5000, 5352, 70000]:
        zs.append(Script([f"D zeroscan h {ln} 0 keyedz"], tags=("zeroize-hasher-special-keys",)))
        zs.append(Script([f"D zeroscan hash {ln} 0 keyedz"], tags=("zeroize-hash-special-keys",)))
    return [PairStage("debug", scripts), LineStage("zeroize-scan", zs, oracle=zero_oracle, max_minimise=2)]


def replay(d, lean_exe):
    return replay_line(d, lean_exe, oracle=zero_oracle)
