"""shared generator vocabulary"""
from ..core import Script

PLATFORMS = ["portable", "sse2", "sse41", "avx2", "avx512"]
CHUNK = 1024


def hexs(b):
    return b.hex() if b else "-"


def key_hex(rng):
    return bytes(rng.randrange(256) for _ in range(32)).hex()


CONTEXTS = [b"", b"a", b"BLAKE3 2019-12-27 16:29:52 test vectors context", b"x" * 63, b"y" * 64, b"z" * 65,
            "héllo wörld ☃ \U0001F600".encode(), b"c" * 1023, b"d" * 1024, b"e" * 1025, b"f" * 3000]


def mode_tok(rng, kind=None):
    kind = kind or rng.choice(["hash", "keyed", "derive"])
    if kind == "hash":
        return "hash"
    if kind == "keyed":
        return "keyed " + key_hex(rng)
    return "derive " + hexs(rng.choice(CONTEXTS))


def pat(n, rng):
    return f"pat {n} {rng.randrange(1 << 32)}"


def lattice_lengths(max_chunks):
    """every length within +-1 of a multiple of 64 up to 2 chunks, of 1024 up to max_chunks,
    of 2^k chunks, and of 4/8/16*j chunks"""
    s = set()
    for b in range(0, 2 * CHUNK + 1, 64):
        s |= {b - 1, b, b + 1}
    for c in range(0, max_chunks + 1):
        s |= {c * CHUNK - 1, c * CHUNK, c * CHUNK + 1}
    k = 1
    while k <= max_chunks:
        s |= {k * CHUNK - 1, k * CHUNK, k * CHUNK + 1, k * CHUNK + 64, k * CHUNK - 64}
        k *= 2
    return sorted(x for x in s if x >= 0)


SIZE_CLASSES = ["zero", "one", "sub_block", "block", "block_straddle", "chunk_minus", "chunk", "chunk_plus", "k_chunks",
                "k_chunks_pm", "pow2_chunks", "simd_multiple", "random_small", "random_large"]


def size_of_class(cls, rng, big=300 * 1024):
    if cls == "zero":
        return 0
    if cls == "one":
        return 1
    if cls == "sub_block":
        return rng.randrange(2, 64)
    if cls == "block":
        return 64
    if cls == "block_straddle":
        return rng.choice([63, 65, 127, 128, 129])
    if cls == "chunk_minus":
        return 1023
    if cls == "chunk":
        return 1024
    if cls == "chunk_plus":
        return 1025
    if cls == "k_chunks":
        return 1024 * rng.randrange(2, 40)
    if cls == "k_chunks_pm":
        return max(0, 1024 * rng.randrange(1, 40) + rng.choice([-1, 1, -63, 64]))
    if cls == "pow2_chunks":
        return 1024 * (1 << rng.randrange(0, 9))
    if cls == "simd_multiple":
        return 1024 * rng.choice([4, 8, 16, 32]) * rng.randrange(1, 4)
    if cls == "random_small":
        return rng.randrange(0, 5000)
    return rng.randrange(0, big)


def norm_all(op, out):
    """normalisation shared by generators that mix op families: `X read` prints `<n> <hex>`, scripted joins print `ok <joins>`"""
    import re as _re
    if out == "unsupported":
        return out
    if op.startswith("X read "):
        parts = out.split(" ")
        want = op.split(" ")[3]
        if len(parts) == 2 and parts[0] == want:
            return parts[1]
        if len(parts) == 1 and want == "0" and parts[0] == "0":
            return ""
        return "short-read:" + out[:40]
    if (op.startswith("H updsj ") or op.startswith("C updtbb ")) and _re.match(r"^ok \d+$", out):
        return "ok"
    return out


def cross_mode_clone_script(rng, plat):
    """Clone::clone_from into a hasher that was built with a DIFFERENT key / mode and has its own history: afterwards the destination
    must describe exactly the source's bytes under the source's key (every field travels), also once it leaves the current chunk"""
    from ..core import Script
    kinds = ["hash", "keyed", "derive"]
    ka = rng.choice(kinds)
    kb = rng.choice([k for k in kinds if k != ka] + ["keyed"])
    ops = [f"P plat {plat}", f"H new a {mode_tok(rng, ka)}", f"H new b {mode_tok(rng, kb)}"]
    ops.append(f"H upd a {pat(rng.choice([0, 1, 64, 1000, 1024, 1025, 3000, 70000]), rng)}")
    if rng.random() < 0.6:
        ops.append(f"H upd b {pat(rng.choice([1, 1024, 5000, 40000]), rng)}")
    ops += ["H clonefrom a b", "H cnt b", "H fin b", f"H upd b {pat(rng.choice([1, 30, 1024, 1100, 2049, 9000]), rng)}", "H cnt b", "H fin b",
            "H xof b x", "X fill x 70", f"H upd a {pat(rng.choice([5, 2000]), rng)}", "H fin a", "H reset b", f"H upd b {pat(rng.choice([3, 1500]), rng)}", "H fin b"]
    return Script(ops, tags=(plat, "clone_from-cross-mode"), nontrivial=True)
