"""C08: multithreaded hashing is deterministic under every schedule"""
import itertools
import re

from ..core import Script, Rng
from ..stage import LineStage, replay_line
from .common import *

ARTEFACTS = ["G1-consts", "G4-listings", "G23-c-wide", "G3b-regions", "G6-skeleton", "G9-update"]
EXTRA_PROPS = [("B3.Props.C02T", "B3/Props/C02T.lean"), ("B3.Props.C06W", "B3/Props/C06W.lean")]   # theorems about the code translated from the sources
RULE = ("the hook's scripted Join (per split: 0 = left first, 1 = right first, 2 = right half on a new thread) drives "
        "update_with_join on inputs with > simd_degree chunks (and update_mmap_rayon on real files of lengths around the 16 KiB mmap threshold inside pools of 1 and 2..16 threads): all 3^k schedules for inputs with k <= 4 splits (cyclic script), sampled "
        "beyond; update_rayon in pools of 1..16 threads; the C library's BLAKE3_USE_TBB seam implemented by harness/c with the same "
        "three modes, plus 40 (quick) updates of 1..8 MiB with every join on a real second thread compared with the single-threaded update in the same process; after the multithreaded update the state is observed through count, finalize, xof, a further single-threaded "
        "update and finalize; compared with the model (whose update does not depend on the schedule) and the spec; "
        "non-trivial = input with at least one split; distinct = distinct script")
ASSUMPTIONS = ["rayon::join / TBB run both closures exactly once; the scripted join of the hook and harness/c stands in for them",
               "absence of data races is shown in the model for the modelled footprints (disjoint output ranges); TSan builds support it in the thorough tier"]
NOT_PROVED = ["freedom from data races in the real binaries (observed: identical results under every schedule tried; TSan in thorough)"]


def normalize(op, out):
    if op.startswith("H updsj ") or op.startswith("C updtbb "):
        m = re.match(r"^ok \d+$", out)
        return "ok" if m else out
    return out


def sched_scripts(rng, tier):
    out = []
    for plat, deg in [("portable", 1), ("sse41", 4), ("avx2", 8), ("avx512", 16)]:
        for chunks in [deg + 1, 2 * deg, 2 * deg + 1, 3 * deg, 4 * deg + 1]:
            n = chunks * 1024 - rng.choice([0, 1, 500])
            seed = rng.randrange(1 << 30)
            scheds = ["".join(s) for k in (1, 2, 3) for s in itertools.product("012", repeat=k)]
            if tier == "quick":
                scheds = rng.sample(scheds, 8) + ["0", "1", "2"]
            for sc in scheds:
                pre = rng.choice([0, 0, 1, 1024, 3000])
                ops = [f"P plat {plat}", f"H new a {mode_tok(rng)}"]
                if pre:
                    ops.append(f"H upd a {pat(pre, rng)}")
                ops += [f"H updsj a {sc} pat {n} {seed}", "H cnt a", "H fin a", f"H upd a {pat(rng.choice([1, 1024, 5000]), rng)}", "H fin a",
                        "H xof a x", "X fill x 80"]
                out.append(Script(ops, tags=(plat, "sched")))
    return out


def rayon_scripts(rng, count):
    out = []
    for i in range(count):
        plat = PLATFORMS[i % 5]
        n = rng.choice([17 * 1024, 33 * 1024 + 1, 64 * 1024, 100 * 1024 + 17, 256 * 1024, rng.randrange(20000, 400000)])
        ops = [f"P plat {plat}", f"H new a {mode_tok(rng)}"]
        if rng.random() < 0.5:
            ops.append(f"H upd a {pat(rng.choice([1, 1024, 2048, 5000]), rng)}")
        ops += [f"H updray a {rng.choice([1, 2, 3, 4, 8, 16])} {pat(n, rng)}", "H cnt a", "H fin a",
                f"H updray a {rng.choice([2, 5, 16])} {pat(rng.choice([40000, 70000]), rng)}", "H fin a"]
        out.append(Script(ops, tags=(plat, "rayon")))
    return out


def tbb_scripts(rng, count):
    out = []
    for i in range(count):
        feat = PLATFORMS[i % 5]
        n = rng.choice([3 * 1024, 17 * 1024, 33 * 1024 + 1, 64 * 1024, 100 * 1024 + 17, rng.randrange(2000, 200000)])
        sc = "".join(rng.choice("012") for _ in range(rng.randrange(1, 5)))
        ops = [f"C feat {feat}", f"C init a {mode_tok(rng, rng.choice(['hash', 'keyed']))}"]
        if rng.random() < 0.5:
            ops.append(f"C upd a {pat(rng.choice([1, 1024, 2048, 5000]), rng)}")
        ops += [f"C updtbb a {sc} {pat(n, rng)}", "C fin a 32", f"C upd a {pat(rng.choice([1, 3000]), rng)}", "C finseek a 10 100"]
        out.append(Script(ops, tags=(feat, "tbb")))
    return out


def rayon_tail_scripts(rng, count):
    """read-loop shapes: a prefix ending on a chunk boundary (or not), then update_rayon calls of 1..1024 bytes, finalize in between"""
    out = []
    for i in range(count):
        plat = PLATFORMS[i % 5]
        pre = rng.choice([1024, 2048, 3072, 4096, 65536, 2 * 65536, 1024 * rng.randrange(1, 40), 1024 * rng.randrange(1, 40) + rng.choice([1, 500])])
        ops = [f"P plat {plat}", f"H new a {mode_tok(rng)}", f"H {rng.choice(['upd', 'updray 2', 'updray 4'])} a {pat(pre, rng)}"]
        for _ in range(rng.randrange(1, 4)):
            ops += [f"H updray a {rng.choice([1, 2, 8])} {pat(rng.choice([1, 63, 64, 65, 300, 1023, 1024]), rng)}", "H cnt a", "H fin a"]
        ops += ["H xof a x", "X fill x 70", f"H upd a {pat(rng.choice([1, 2000]), rng)}", "H fin a"]
        out.append(Script(ops, tags=(plat, "rayon-tail")))
    return out


class RayonLargeStage:
    """update_rayon on inputs of 4 .. 17 MiB inside pools of EVERY size 1..9, 12, 16 (not only powers of two), against update on
    the same bytes in the same process; then more input and a second comparison (implementation-only: the sizes are beyond the
    Lean driver; update = specification is C01/C02)"""
    name = "rayon-large-all-pool-sizes"

    def __init__(self, seed, tier):
        self.seed, self.tier = seed, tier

    def run(self, lean_exe):
        from .. import core
        from . import io_gen
        ok, exe, log = core.build_rs(())
        if not ok:
            return dict(evaluations=0, distinct=set(), hist={}, samples=[], mismatches=[dict(kind="driver-crash", impl_name="rs", ops=[], log_tail=log[-2000:])])
        rng = Rng(self.seed)
        mism, n, keys = [], 0, set()
        sizes = [(1 << 22) + 1, 1 << 23, (1 << 24) + 1025] if self.tier == "quick" else [(1 << 22) + 1, 1 << 23, (1 << 24) + 1025, 1 << 25, (3 << 23) + 7]
        for threads in [1, 2, 3, 4, 5, 6, 7, 8, 9, 12, 16]:
            for size in sizes:
                sd = rng.randrange(1 << 32)
                mode = mode_tok(rng)
                s = io_gen.IoScript(tags=("rayon-large", f"threads{threads}"))
                s.op(f"H new a {mode}", "ok")
                s.op(f"H new b {mode}", "ok")
                pre = rng.choice([0, 0, 1024, 5000])
                if pre:
                    s.op(f"H upd a pat {pre} 3", "ok")
                    s.op(f"H upd b pat {pre} 3", "ok")
                s.op(f"H upd a pat {size} {sd}", "ok")
                s.op(f"H updray b {threads} pat {size} {sd}", "ok")
                ca, cb = s.op("H cnt a"), s.op("H cnt b")
                fa, fb = s.op("H fin a"), s.op("H fin b")
                s.op("H upd a pat 3000 7", "ok")
                s.op("H upd b pat 3000 7", "ok")
                ga, gb = s.op("H fin a"), s.op("H fin b")
                s.equal += [(ca, cb), (fa, fb), (ga, gb)]
                rc, outs, err = core.run_driver(exe, list(s), timeout=300)
                n += len(s)
                keys.add(s.key())
                bad = io_gen.check_outputs(s, outs)
                if bad and len(mism) < 5:
                    mism.append(dict(kind="impl-vs-spec", impl_name="rs", ops=list(s), complaints=bad[:5], impl_differs=True,
                                     note="update_rayon differs from update on the same bytes"))
        return dict(evaluations=n, distinct=keys, hist={"rayon-large": len(keys)}, samples=[], mismatches=mism)


class TbbConcurrentStage:
    """blake3_hasher_update_tbb with every join running its right half on a REAL second thread (join script `2`), on inputs of
    1 .. 8 MiB, repeated; the digest must equal blake3_hasher_update's on the same bytes in the same process (implementation-only
    comparison: the inputs are too large for the Lean driver; that update = specification is the `c-api` stage of C06 and the theorems).
    Catches state shared between the two halves of a join that only a truly concurrent schedule exposes."""
    name = "c-tbb-concurrent"

    def __init__(self, seed, reps):
        self.seed, self.reps = seed, reps

    def run(self, lean_exe):
        from .. import core
        from . import io_gen
        ok, exe, log = core.build_c()
        if not ok:
            return dict(evaluations=0, distinct=set(), hist={}, samples=[], mismatches=[dict(kind="driver-crash", impl_name="c", ops=[], log_tail=log[-2000:])])
        rng = Rng(self.seed)
        mism, n, keys = [], 0, set()
        for i in range(self.reps):
            size = rng.choice([1 << 20, (1 << 20) + 1025, 3 << 20, (1 << 22) + 5, 1 << 23])
            feat = rng.choice(["avx512", "avx2", "sse41", "portable"]) if i % 4 == 0 else "avx512"
            sd = rng.randrange(1 << 32)
            mode = mode_tok(rng)
            s = io_gen.IoScript(tags=("tbb-concurrent", feat))
            s.op(f"C feat {feat}", "ok")
            s.op(f"C init a {mode}", "ok")
            s.op(f"C init b {mode}", "ok")
            s.op(f"C upd a pat {size} {sd}", "ok")
            s.op(f"C updtbb b 2 pat {size} {sd}")
            fa, fb = s.op("C fin a 32"), s.op("C fin b 32")
            xa, xb = s.op("C finseek a 100 70"), s.op("C finseek b 100 70")
            s.equal += [(fa, fb), (xa, xb)]
            # the hashers must also be left in the same state: more input, then compare again
            s.op("C upd a pat 3000 7", "ok")
            s.op("C upd b pat 3000 7", "ok")
            ga, gb = s.op("C fin a 32"), s.op("C fin b 32")
            s.equal.append((ga, gb))
            rc, outs, err = core.run_driver(exe, list(s), timeout=300)
            n += len(s)
            keys.add(s.key())
            bad = io_gen.check_outputs(s, outs)
            if len(outs) > 4 and not outs[4].startswith("ok"):
                bad.append(f"updtbb answered `{outs[4]}`")
            if bad and len(mism) < 5:
                mism.append(dict(kind="impl-vs-spec", impl_name="c", ops=list(s), complaints=bad[:5], impl_differs=True,
                                 note="update_tbb with concurrent joins differs from update on the same bytes (schedule-dependent: repeat the ops)"))
        return dict(evaluations=n, distinct=keys, hist={"tbb-concurrent": self.reps}, samples=[], mismatches=mism)


def stages(tier, seed, witness_search=False):
    rng = Rng(seed)
    k = 60 if tier == "quick" else 1500
    if witness_search:
        k *= 3
    from . import c11
    return [LineStage("scripted-join+rayon", sched_scripts(rng, tier) + rayon_scripts(rng, k) + rayon_tail_scripts(rng, k), normalize=normalize),
            LineStage("c-tbb-seam", tbb_scripts(rng, k), impl="c", normalize=normalize),
            TbbConcurrentStage(seed + 9, 40 if tier == "quick" else 600),
            RayonLargeStage(seed + 10, tier),
            # update_mmap_rayon on real files inside pools of 1 and 2..16 threads, against plain update of the same bytes
            c11.FileStage(seed + 7, fifo=False)]


def replay(d, lean_exe):
    if d.get("stage") == "rayon-large-all-pool-sizes":
        return replay_line(d, lean_exe, normalize=normalize)
    if d.get("stage") == "c-tbb-concurrent":
        return dict(still_fails=False, note="schedule-dependent: feed `ops` to harness/c/build/cdriver repeatedly")
    if d.get("stage") == "files":
        return dict(still_fails=False, note="file scripts use scratch paths; re-run the check with the same VERIF_SEED")
    if d.get("stage") == "c-tbb-seam":
        return replay_line(d, lean_exe, impl="c", normalize=normalize)
    return replay_line(d, lean_exe, normalize=normalize)
