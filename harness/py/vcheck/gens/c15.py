"""C15: the reference implementation and the published test vectors agree with the spec"""
import json
import os

from .. import core
from ..core import Script, Rng
from ..stage import LineStage, replay_line
from . import ref_gen
from .common import mode_tok, pat, hexs

ARTEFACTS = ["G1-consts", "G2-ref-compress", "G5-vectors", "G7-ref"]
EXTRA_PROPS = [("B3.Props.C15T", "B3/Props/C15T.lean")]   # theorems about the code translated from the sources
RULE = ("(1) the real reference_impl crate driven through R ops: all three modes, update splits from the size classes {0,1,63,64,65,1023,"
        "1024,1025,k*1024,k*1024+-1,2^j*1024,random <= 200 KiB}, output lengths 0..300 and up to 5000, deep trees (128..1536 chunks and +1 byte: chunk counts with up to 10 trailing zero bits, in one update and in 64 KiB updates), compared with the model of "
        "reference_impl.rs (run with the compression function generated from it) and the spec; (2) every field of every case of "
        "test_vectors/test_vectors.json (35 lengths x 3 modes x 131 bytes, the key, the context string, the input pattern) compared with "
        "the compiled specification's output, with the frozen copy in /verif/pins, and with the real crate, the C library and the "
        "reference through their drivers; non-trivial = script with >= 2 updates or vector case; distinct = distinct script")
ASSUMPTIONS = ["running the compiled Spec over the whole vector table trusts the Lean compiler (a test, labelled as such); lengths 0 and 1 are also checked in the kernel"]
NOT_PROVED = []


class VectorStage:
    name = "vectors"

    def run(self, lean_exe):
        mism = []
        path = os.path.join(core.REPO, "test_vectors", "test_vectors.json")
        pin = os.path.join(core.VERIF, "pins", "test_vectors.json")
        try:
            d = json.load(open(path))
            dp = json.load(open(pin))
        except Exception as ex:
            return dict(evaluations=0, distinct=set(), hist={}, samples=[], mismatches=[dict(kind="impl-vs-spec", impl_name="vectors", ops=[],
                        note=f"cannot parse test vectors: {ex}", impl_differs=True)])
        key = d.get("key", "").encode()
        ctx = d.get("context_string", "").encode()
        fields = 0
        if d != dp:
            mism.append(dict(kind="impl-vs-spec", impl_name="vectors", ops=[], impl_differs=True,
                             note="test_vectors.json differs from the frozen copy in /verif/pins"))
        if "repeating sequence of 251 bytes" not in d.get("_comment", "") or len(key) != 32:
            mism.append(dict(kind="impl-vs-spec", impl_name="vectors", ops=[], impl_differs=True, note="input pattern / key description changed"))
        okr, rs_exe, _ = core.build_rs(())
        okc, c_exe, _ = core.build_c()
        lean_ops, rs_ops, c_ops, want = [], [], [], []
        for c in d["cases"]:
            n = c["input_len"]
            data = bytes(i % 251 for i in range(n)).hex() or "-"
            for f, mode in (("hash", "hash"), ("keyed_hash", "keyed " + key.hex()), ("derive_key", "derive " + ctx.hex())):
                lean_ops.append(f"V spec {n} 131 {mode}")
                rs_ops += [f"H new a {mode}", f"H upd a hex {data}", "H xof a x", "X fill x 131", f"R new r {mode}", f"R upd r hex {data}", "R fin r 131"]
                c_ops += [f"C init a {mode}", f"C upd a hex {data}", "C fin a 131"]
                want.append((n, f, c[f]))
                fields += 1
        rc, lo, _ = core.run_driver(lean_exe, lean_ops)
        got_spec = [l.split(";")[0] for l in lo]
        _, ro, _ = core.run_driver(rs_exe, rs_ops) if okr else (0, [], "")
        _, co, _ = core.run_driver(c_exe, c_ops) if okc else (0, [], "")
        for i, (n, f, w) in enumerate(want):
            row = {"spec": got_spec[i] if i < len(got_spec) else None,
                   "rust": ro[7 * i + 3] if len(ro) > 7 * i + 3 else None,
                   "reference": ro[7 * i + 6] if len(ro) > 7 * i + 6 else None,
                   "c": co[3 * i + 2].strip() if len(co) > 3 * i + 2 else None}
            for who, g in row.items():
                if g != w and len(mism) < 6:
                    mism.append(dict(kind="impl-vs-spec" if who != "spec" else "model-vs-spec", impl_name=who, ops=[lean_ops[i]], impl_differs=True,
                                     note=f"case input_len={n} field {f}: {who} output differs from the published vector",
                                     impl_output=str(g)[:300], spec_output=w[:300]))
        return dict(evaluations=fields * 4, distinct={f"{n}:{f}" for n, f, _ in want}, hist={"vector-fields": fields},
                    samples=[lean_ops[:3]], mismatches=mism)


def stages(tier, seed, witness_search=False):
    rng = Rng(seed)
    n = 400 if tier == "quick" else 8000
    if witness_search:
        n *= 3
    scripts = ref_gen.scripts_for_ref(rng, n)
    # deep trees: chunk counts with long runs of trailing zero bits (the stack merge count is the number of trailing zeros of the
    # chunk counter: 2^k and 2^k + 1 chunks, multiples of 256 and 512), one update and chunk-sized updates
    kinds = ["hash", "keyed", "derive"]
    for j, chunks in enumerate([128, 255, 256, 257, 511, 512, 513, 768, 1024, 1025, 1536] + ([2048, 2049, 4096, 4097] if tier != "quick" else [])):
        for extra in (0, 1):
            L = chunks * 1024 + extra
            sd = rng.randrange(1 << 32)
            mode = mode_tok(rng, kinds[(j + extra) % 3])
            ops = [f"R new a {mode}", f"R upd a pat {L} {sd}", "R fin a 32", "R fin a 131"]
            if chunks <= 520:
                ops += [f"R new b {mode}"] + [f"R upd b pats {min(65536, L - o)} {sd} {o}" for o in range(0, L, 65536)] + ["R fin b 32"]
            scripts.append(Script(ops, tags=("deep-tree", f"{chunks}ch")))
    # several derive-key hashers in a row on one thread with contexts of equal length that share a long prefix (64, 100, 128,
    # 1024 bytes): a result must not depend on which contexts were used before
    from .common import hexs
    for plen, total in [(64, 66), (64, 80), (65, 67), (100, 102), (128, 130), (1024, 1100), (32, 34), (63, 64)]:
        base = bytes(rng.randrange(32, 127) for _ in range(plen))
        ctxs = [base + bytes([65 + i]) * (total - plen) for i in range(3)]
        ops = []
        for rep in range(2):
            for i, c in enumerate(ctxs):
                ops += [f"R new c{i} derive {hexs(c)}", f"R upd c{i} {pat(rng.choice([0, 5, 1025]), rng)}", f"R fin c{i} 32"]
        scripts.append(Script(ops, tags=("context-sequence",)))
    return [LineStage("reference", scripts), VectorStage()]


def replay(d, lean_exe):
    if d.get("stage") == "vectors":
        r = VectorStage().run(lean_exe)
        return dict(still_fails=bool(r["mismatches"]), mismatches=r["mismatches"][:3])
    return replay_line(d, lean_exe)
