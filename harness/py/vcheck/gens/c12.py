"""C12: b3sum prints the library's output and --check's exit status tells the truth"""
import os

from .. import core
from ..core import Script, Rng
from . import b3sum_gen

ARTEFACTS = ["G11-b3sum", "G12-io", "G28-b3sum-io"]
EXTRA_PROPS = [("B3.Props.C13T", "B3/Props/C13T.lean"), ("B3.Props.C11T", "B3/Props/C11T.lean"), ("B3.Props.C12T", "B3/Props/C12T.lean")]   # theorems about the code translated from the sources
PROPS_MODULE = "B3.B3sum.Props12"
PROPS_PATH = "B3/B3sum/Props12.lean"
RULE = ("process-level runs of the real binary (root file = /repo/b3sum/src/main.rs, shim manifest) in a scratch directory: hashing cases "
        "over flag combinations of --keyed/--derive-key/--length/--seek/--no-mmap/--num-threads/--raw/--no-names/--tag, files around the "
        "mmap threshold, stdin, missing files, odd names; --check cases mixing good, stale, missing-file and malformed lines, LF/CRLF, "
        "--quiet, several checkfiles; checkfile lines of 3 KiB .. 64 KiB (existing files behind long ./././ paths, plain/tagged/escaped, and over-PATH_MAX entries built so that a reader cutting the line at 4096..65537 bytes would see a second, valid entry); files whose mmap fails (/sys/kernel/btf/vmlinux, a 1.5 GiB sparse file under RLIMIT_AS = 1 GiB) hashed with and without --no-mmap; stdout and exit status compared with the prediction of the model's decision logic "
        "inputs whose read fails with EIO after some bytes (a pty whose other end goes away) followed by a good file; (pure-Python restatement of B3/B3sum/Model.lean, itself diffed against the Lean driver on the P ops) with digests taken from "
        "the library through the driver; non-trivial = every case (each has its own argv/files); distinct = distinct argv+files")
ASSUMPTIONS = ["clap's argument grammar is not modelled: only accepted flag combinations are generated",
               "the digest oracle for this property is the library itself (P xof); library = specification is C01-C03",
               "Python restatement of the check/exit-status model mirrors B3/B3sum/Model.lean (runCheckMain, hashOneInputOk)"]
NOT_PROVED = ["process-level behaviour (argument parsing by clap, stdout flushing, exit code plumbing) is observed, not proved"]


class ProcStage:
    name = "process"

    def __init__(self, cases, extras=True):
        self.cases = cases
        self.extras = extras

    def run(self, lean_exe):
        ok, drv, log = core.build_b3sum()
        mism = []
        cases = self.cases
        if not ok:
            # the function-level driver names private functions of main.rs; when only that stopped compiling, go on with the
            # binary alone (digests from the pure-Python BLAKE3, so the multi-megabyte raw cases are left out)
            mism.append(dict(kind="driver-crash", impl_name="b3sum", ops=[], note="b3sum harness does not build", log_tail=log[-3000:]))
            ok2, exe, log2 = core.build_b3sum_binary_only()
            if not ok2:
                return dict(evaluations=0, distinct=set(), hist={}, samples=[], mismatches=mism)
            xof = b3sum_gen.py_xof
            cases = [c for c in cases if all(p[0] == "lit" or p[4] <= 4096 for p in c["stdout"])]
        else:
            exe = os.path.join(os.path.dirname(drv), "b3sum")
            xof = b3sum_gen.xof_via_driver(drv)
        hist = {}
        distinct = set()
        for c in cases:
            hist[c["kind"]] = hist.get(c["kind"], 0) + 1
            distinct.add(repr((c["argv"], sorted(c["files"].items()), c["stdin"])))
            good, detail = b3sum_gen.run_case(exe, c, xof)
            if not good and len(mism) < 5:
                mism.append(dict(kind="impl-vs-model", impl_name="b3sum", ops=[], case=b3sum_gen.case_to_json(c),
                                 got_stdout=detail["stdout"][:2000].hex(), want_stdout=detail["want_stdout"][:2000].hex(),
                                 got_exit=detail["exit"], want_exit=detail["want_exit"], stderr=detail["stderr"][:1000].decode("utf-8", "replace"),
                                 impl_differs=True))
        # files whose mmap fails (the fallback path of update_mmap_rayon): the digest must equal the --no-mmap one
        import subprocess, tempfile, resource, shutil
        if not self.extras:
            return dict(evaluations=len(self.cases), distinct=distinct, hist=hist, samples=[], mismatches=mism)
        special = []
        if os.access("/sys/kernel/btf/vmlinux", os.R_OK):
            special.append(("/sys/kernel/btf/vmlinux", None))
        tmpd = tempfile.mkdtemp(prefix="verif_c12_")
        try:
            big = os.path.join(tmpd, "sparse")
            with open(big, "wb") as f:
                f.truncate(3 * 1024 * 1024 * 1024 // 2)          # 1.5 GiB sparse file; RLIMIT_AS = 1 GiB makes its mmap fail
                f.seek(12345)
                f.write(b"not all zero")
            special.append((big, 1 << 30))
            for path, limit in special:
                def lim():
                    if limit:
                        resource.setrlimit(resource.RLIMIT_AS, (limit, limit))
                try:
                    a = subprocess.run([exe, "--num-threads", "1", path], stdout=subprocess.PIPE, stderr=subprocess.PIPE, preexec_fn=lim, timeout=300)
                    b = subprocess.run([exe, "--num-threads", "1", "--no-mmap", path], stdout=subprocess.PIPE, stderr=subprocess.PIPE, timeout=300)
                except Exception as ex:
                    continue
                hist["mmap-fails"] = hist.get("mmap-fails", 0) + 1
                distinct.add("mmap-fails:" + path)
                if (a.stdout != b.stdout or a.returncode != b.returncode) and len(mism) < 6:
                    mism.append(dict(kind="impl-vs-spec", impl_name="b3sum", ops=[], impl_differs=True,
                                     note=f"b3sum {path} (mmap fails{', RLIMIT_AS=1GiB' if limit else ''}) differs from b3sum --no-mmap on the same file",
                                     impl_output=a.stdout[:200].decode("utf-8", "replace") + f" exit={a.returncode} " + a.stderr[:200].decode("utf-8", "replace"),
                                     spec_output=b.stdout[:200].decode("utf-8", "replace") + f" exit={b.returncode}"))
            # standard input and a FIFO delivered in bursts (short reads that are not the end of the input): `b3sum -`, `b3sum <fifo>`,
            # with and without --no-mmap, against the digest of the same bytes in a regular file
            import threading, time
            data = b3sum_gen.lcg_bytes(3 * 5000 + 17, 4242) if hasattr(b3sum_gen, "lcg_bytes") else bytes(range(256)) * 59
            reg = os.path.join(tmpd, "regular.bin")
            with open(reg, "wb") as f:
                f.write(data)
            want = subprocess.run([exe, "--no-names", reg], stdout=subprocess.PIPE, stderr=subprocess.PIPE, timeout=60).stdout

            def feed(fd_or_path, is_path):
                def run():
                    try:
                        fd = os.open(fd_or_path, os.O_WRONLY) if is_path else fd_or_path
                        for i in range(0, len(data), 5000):
                            os.write(fd, data[i:i + 5000])
                            time.sleep(0.05)
                        os.close(fd)
                    except OSError:
                        pass
                t = threading.Thread(target=run, daemon=True)
                t.start()
                return t
            for extra in ([], ["--no-mmap"]):
                try:
                    pr = subprocess.Popen([exe, "--no-names"] + extra + ["-"], stdin=subprocess.PIPE, stdout=subprocess.PIPE, stderr=subprocess.PIPE)
                    t = feed(pr.stdin.fileno(), False)
                    t.join(timeout=20)
                    try:
                        pr.stdin.close()
                    except OSError:
                        pass
                    got = pr.stdout.read()
                    pr.wait(timeout=60)
                except Exception:
                    continue
                hist["bursty-stdin"] = hist.get("bursty-stdin", 0) + 1
                distinct.add("bursty-stdin" + repr(extra))
                if got != want and len(mism) < 8:
                    mism.append(dict(kind="impl-vs-spec", impl_name="b3sum", ops=[], impl_differs=True,
                                     note=f"b3sum {' '.join(extra)} - with standard input written in 5000-byte bursts differs from the digest of the same {len(data)} bytes in a regular file",
                                     impl_output=got[:100].decode("utf-8", "replace"), spec_output=want[:100].decode("utf-8", "replace")))
                fifo = os.path.join(tmpd, "fifo" + ("_nm" if extra else ""))
                try:
                    os.mkfifo(fifo)
                    t = feed(fifo, True)
                    a = subprocess.run([exe, "--no-names"] + extra + [fifo], stdout=subprocess.PIPE, stderr=subprocess.PIPE, timeout=60)
                    t.join(timeout=20)
                except Exception:
                    continue
                hist["bursty-fifo"] = hist.get("bursty-fifo", 0) + 1
                distinct.add("bursty-fifo" + repr(extra))
                if a.stdout != want and len(mism) < 8:
                    mism.append(dict(kind="impl-vs-spec", impl_name="b3sum", ops=[], impl_differs=True,
                                     note=f"b3sum {' '.join(extra)} <fifo written in 5000-byte bursts> differs from the digest of the same bytes in a regular file",
                                     impl_output=a.stdout[:100].decode("utf-8", "replace"), spec_output=want[:100].decode("utf-8", "replace")))
            # an input whose read fails AFTER some bytes were delivered (a pseudo-terminal whose other end goes away: the data
            # written so far is read, then read() fails with EIO), followed by a good file: the failure is reported, the exit
            # status is 1, and the good file's line is exactly its own digest - in plain, keyed and --no-mmap runs
            import tty
            good = os.path.join(tmpd, "after_error.bin")
            with open(good, "wb") as f:
                f.write(data[:7000])
            for extra, stdin_data in ([], None), (["--no-mmap"], None), (["--keyed"], bytes(range(32))):
                try:
                    want2 = subprocess.run([exe, "--no-names"] + extra + [good], input=stdin_data, stdout=subprocess.PIPE, stderr=subprocess.PIPE, timeout=60).stdout
                    mfd, sfd = os.openpty()
                    tty.setraw(sfd)
                    pts = os.ttyname(sfd)
                    os.write(mfd, b"partial input before the failure")
                    pr = subprocess.Popen([exe, "--no-names"] + extra + [pts, good], stdin=subprocess.PIPE if stdin_data is not None else subprocess.DEVNULL,
                                          stdout=subprocess.PIPE, stderr=subprocess.PIPE)
                    if stdin_data is not None:
                        pr.stdin.write(stdin_data)
                        pr.stdin.close()
                    time.sleep(0.4)
                    os.close(sfd)
                    os.close(mfd)
                    got, err = pr.stdout.read(), pr.stderr.read()
                    rcx = pr.wait(timeout=60)
                except Exception:
                    continue
                hist["read-error-mid-file"] = hist.get("read-error-mid-file", 0) + 1
                distinct.add("read-error-mid-file" + repr(extra))
                if b"rror" not in err:
                    continue          # the pty delivered an orderly end of input on this kernel: nothing to check
                if (got != want2 or rcx != 1) and len(mism) < 9:
                    mism.append(dict(kind="impl-vs-spec", impl_name="b3sum", ops=[], impl_differs=True,
                                     note=f"b3sum {' '.join(extra)} <pty that fails with EIO after 32 bytes> <good file>: the good file's line must be its own digest and the exit status 1",
                                     impl_output=got[:100].decode("utf-8", "replace") + f" exit={rcx} " + err[:200].decode("utf-8", "replace"),
                                     spec_output=want2[:100].decode("utf-8", "replace") + " exit=1"))
        finally:
            shutil.rmtree(tmpd, ignore_errors=True)
        samples = [b3sum_gen.case_to_json(c) for c in self.cases[:2]]
        for s in samples:
            s.pop("files", None)
        return dict(evaluations=len(self.cases), distinct=distinct, hist=hist, samples=samples, mismatches=mism)


def stages(tier, seed, witness_search=False):
    rng = Rng(seed)
    n = 300 if tier == "quick" else 2500
    if witness_search:
        n *= 3
    return [ProcStage(b3sum_gen.cases_for_c12(rng, n))]


def replay(d, lean_exe):
    import json
    c = d.get("case")
    if not c:
        return dict(still_fails=False, note="no case recorded")

    def dec(x):
        if isinstance(x, dict) and "hex" in x:
            return bytes.fromhex(x["hex"])
        if isinstance(x, list):
            return [dec(y) for y in x]
        return x
    case = {k: dec(v) for k, v in c.items()}
    case["files"] = {k: v for k, v in case["files"]}
    case["stdout"] = [tuple(p) for p in case["stdout"]]
    ok, drv, _ = core.build_b3sum()
    good, detail = b3sum_gen.run_case(os.path.join(os.path.dirname(drv), "b3sum"), case, b3sum_gen.xof_via_driver(drv))
    return dict(still_fails=not good, got_exit=detail["exit"], want_exit=detail["want_exit"])
