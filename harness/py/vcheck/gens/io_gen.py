"""C11 (reader, mmap and Write adapters): generator for the Rust line-protocol driver.

Standard library only; no imports from the rest of vcheck, so the file also runs as a script:

    python3 io_gen.py --rs <b3-verif-harness> --lean <c11drv> [--n 5000] [--exhaustive 6] [--seed 1]

generates the scripts, runs them through the real driver (and the Lean model driver
/verif/lean_c11_dev/.lake/build/bin/c11drv for the reader lines) and reports every disagreement.

Entry point for the orchestrator:

    scripts_for_c11(rng, n, tmpdir, exhaustive_len=6, extended=True, fifo=True) -> [IoScript]

An `IoScript` IS a list of op lines (it subclasses list) and carries
    .tags        tuple of strings
    .expect      {line index: exact expected output line}      (the Python-side prediction)
    .equal       [(i, j), ...] pairs of line indices whose outputs must be identical
    .fifos       [(path, length, seed)] FIFOs that need a writer while the script runs (see below)
`check_outputs(script, outputs)` applies .expect/.equal and returns a list of complaints.

Contents
  (1) every reader script of length <= exhaustive_len over the alphabet
      {d1, d65536, d70000 (split delivery), d<random in 1..999>, i, e, z},
      run through `H updrdx` (`H updrd` if extended=False) on register a, followed by `H cnt a`;
      register b receives the bytes yielded before the first e/z through plain `H upd`; then both
      get one more common update (the hasher must stay usable after an error) and `H fin a` /
      `H fin b` must agree.  Predicted: the result line, the count.
  (2) n random longer scripts: data totals crossing the chunk (1024) and buffer (65536) boundaries,
      short-read events with k from 1 byte to more than the buffer, empty data events, every error
      kind the driver knows, prefixes already in the hasher, all three modes.
  (3) real files under tmpdir with lengths 0, 1, 16380..16390, 65535..65537, 1 MiB (LCG pattern
      bytes) through updmm / updmmr / updfile against `H upd ... pat`; a symlink; pseudo files
      (/proc/self/cmdline, /proc/version: updmm/updmmr against updfile only), an unmappable sysfs
      file if present, /dev/null, a directory, a missing path, FIFOs fed by helper threads, and
      `H updw` (io::Write) against `H upd`.

FIFOs: each FIFO is written exactly once by a daemon thread that `scripts_for_c11` starts (it
blocks in open() until the driver opens the other end).  A FIFO script that is replayed later, in
another process, needs `start_fifo_writers(script)` first, otherwise the driver blocks for ever in
`File::open`.  Pass fifo=False to leave them out.

The prediction is a pure-Python re-statement of /verif/lean_c11_dev/B3/Io/Model.lean on lengths
instead of byte lists: `py_read_call` = readCall, `py_copy_wide` = copyWide, `py_mmap_plan` =
mmapPlan for a regular file.
"""
import itertools
import os
import threading

BUFFER = 65536
MINIMUM_MMAP_SIZE = 16 * 1024
SEEK_OFFSET = MINIMUM_MMAP_SIZE - 1
M64 = (1 << 64) - 1

ERROR_KINDS = ["Other", "NotFound", "PermissionDenied", "ConnectionReset", "BrokenPipe", "WouldBlock", "InvalidInput",
               "InvalidData", "TimedOut", "WriteZero", "UnexpectedEof", "Unsupported", "OutOfMemory"]


# ---------------------------------------------------------------------------------------------
# LCG of PROTOCOL.md

def lcg_bytes(n, seed):
    s = seed & M64
    out = bytearray(n)
    for i in range(n):
        s = (s * 6364136223846793005 + 1442695040888963407) & M64
        out[i] = s >> 56
    return bytes(out)


# ---------------------------------------------------------------------------------------------
# pure-Python re-statement of the Lean model (byte lists replaced by their lengths)
#
# model events:  ("data", n) | ("interrupted",) | ("fail", kind) | ("eof",)
# The reader state is a Python list used as a stack whose LAST element is the next event.

def py_read_call(buf, stack):
    """readCall: returns ("ok", n) | ("interrupted",) | ("err", kind); mutates the stack"""
    while True:
        if not stack:
            return ("ok", 0)                       # exhausted script -> Ok(0)
        ev = stack.pop()
        if ev[0] == "data":
            n = ev[1]
            if n == 0:
                continue                           # empty data is skipped within the same call
            if n <= buf:
                return ("ok", n)
            stack.append(("data", n - buf))        # the rest stays pending
            return ("ok", buf)
        if ev[0] == "interrupted":
            return ("interrupted",)
        if ev[0] == "fail":
            return ("err", ev[1])
        if ev[0] == "eof":
            return ("ok", 0)
        raise ValueError(ev)


def py_copy_wide(model_events, buf=BUFFER):
    """copyLoop buf evs h 0 with the recording hasher of the Lean driver.
    returns dict(res, total, count, sizes, calls, rest_len)"""
    stack = list(reversed(model_events))
    total = 0
    sizes = []
    calls = 0
    while True:
        r = py_read_call(buf, stack)
        calls += 1
        if r[0] == "ok":
            if r[1] == 0:
                res = "ok"
                break
            sizes.append(r[1])                     # hasher.update(&buffer[..n])
            total += r[1]
        elif r[0] == "interrupted":
            continue
        else:
            res = "err:" + r[1]
            break
    return {"res": res, "total": total if res == "ok" else None, "count": sum(sizes), "sizes": sizes, "calls": calls,
            "rest_len": len(stack)}


def py_mmap_plan_regular(length, map_ok=True, isize_max=(1 << 63) - 1):
    """mmapPlan (regularEnv L): ("mapped", L) | ("fallback", 0)"""
    if length < SEEK_OFFSET:
        return ("fallback", 0)                     # seek fails (EINVAL), cursor untouched (0)
    offset_len = length - SEEK_OFFSET
    if offset_len == 0:
        return ("fallback", 0)
    if offset_len <= isize_max - SEEK_OFFSET and map_ok:
        return ("mapped", offset_len + SEEK_OFFSET)
    return ("fallback", 0)                         # after rewind


# ---------------------------------------------------------------------------------------------
# protocol events
#
# protocol events: ("d", n, seed) | ("s", n, seed, k) | ("i",) | ("e", kind or None) | ("z",)

def ev_token(ev):
    if ev[0] == "d":
        return f"d{ev[1]}:{ev[2]}"
    if ev[0] == "s":
        return f"s{ev[1]}:{ev[2]}:{ev[3]}"
    if ev[0] == "e":
        return "e" if ev[1] is None else f"e:{ev[1]}"
    return ev[0]


def ev_model(ev):
    """the model events one protocol event stands for (never empty)"""
    if ev[0] == "d":
        return [("data", ev[1])]
    if ev[0] == "s":
        n, k = ev[1], ev[3]
        out = []
        while n > k:
            out.append(("data", k))
            n -= k
        out.append(("data", n))
        return out
    if ev[0] == "i":
        return [("interrupted",)]
    if ev[0] == "e":
        return [("fail", ev[1] or "Other")]
    return [("eof",)]


def predict_reader(events):
    """prediction for `H updrdx r <events>`: dict(res, calls, consumed, undelivered, count, sizes, live)
    live = the protocol data events whose bytes are absorbed, in order"""
    groups = [ev_model(e) for e in events]
    flat = [m for g in groups for m in g]
    p = py_copy_wide(flat)
    # the rest is always a suffix on a protocol-event boundary
    consumed = None
    acc = 0
    for j in range(len(groups), -1, -1):
        if acc == p["rest_len"]:
            consumed = j
            break
        if j > 0:
            acc += len(groups[j - 1])
    assert consumed is not None, "reader left in the middle of an event"
    live = [e for e in events[:consumed] if e[0] in "ds"]
    assert sum(e[1] for e in live) == p["count"]
    p.update(consumed=consumed, undelivered=0, live=live)
    return p


# ---------------------------------------------------------------------------------------------
# scripts

class IoScript(list):
    def __init__(self, ops=(), tags=()):
        super().__init__(ops)
        self.tags = tuple(tags)
        self.expect = {}
        self.equal = []
        self.fifos = []
        self.nontrivial = True

    def op(self, line, expect=None):
        self.append(line)
        if expect is not None:
            self.expect[len(self) - 1] = expect
        return len(self) - 1

    def key(self):
        return "\n".join(self)


def check_outputs(script, outputs):
    bad = []
    if len(outputs) != len(script):
        return [f"{len(script)} ops but {len(outputs)} output lines"]
    for i, want in script.expect.items():
        if outputs[i] != want:
            bad.append(f"line {i} `{script[i][:100]}`: expected `{want}`, got `{outputs[i]}`")
    for i, j in script.equal:
        if outputs[i] != outputs[j]:
            bad.append(f"lines {i} `{script[i][:80]}` and {j} `{script[j][:80]}` differ: `{outputs[i]}` vs `{outputs[j]}`")
    for i, j in getattr(script, "pool", []):
        if outputs[i] != "ok " + outputs[j]:
            bad.append(f"line {i} `{script[i][:100]}`: expected `ok {outputs[j]}`, got `{outputs[i]}`")
    for i, o in enumerate(outputs):
        if o in ("PANIC", "bad-op") and script.expect.get(i) != o:
            bad.append(f"line {i} `{script[i][:100]}`: {o}")
    return bad


def _mode(rng):
    x = rng.randrange(3)
    if x == 0:
        return "hash"
    if x == 1:
        return "keyed " + bytes(rng.randrange(256) for _ in range(32)).hex()
    ctx = rng.choice([b"", b"c11 reader context", b"x" * 64, "héllo".encode()])
    return "derive " + (ctx.hex() if ctx else "-")


def _seed(rng):
    return rng.randrange(1 << 32)


def reader_script(rng, events, tags=(), extended=True, prefix=0, mode=None):
    mode = mode or _mode(rng)
    p = predict_reader(events)
    s = IoScript(tags=tags)
    s.op(f"H new a {mode}", "ok")
    s.op(f"H new b {mode}", "ok")
    if prefix:
        sd = _seed(rng)
        s.op(f"H upd a pat {prefix} {sd}", "ok")
        s.op(f"H upd b pat {prefix} {sd}", "ok")
    toks = " ".join(ev_token(e) for e in events)
    line = f"H {'updrdx' if extended else 'updrd'} a" + (" " + toks if toks else "")
    s.op(line, f"{p['res']} {p['calls']} {p['consumed']} {p['undelivered']}" if extended else p["res"])
    s.op("H cnt a", str(prefix + p["count"]))
    for e in p["live"]:
        if e[1]:
            s.op(f"H upd b pat {e[1]} {e[2]}", "ok")
    s.op("H cnt b", str(prefix + p["count"]))
    i = s.op("H fin a")
    j = s.op("H fin b")
    s.equal.append((i, j))
    # the hasher stays usable after update_reader, error or not
    sd = _seed(rng)
    n = rng.choice([1, 64, 1000, 1024, 3000])
    s.op(f"H upd a pat {n} {sd}", "ok")
    s.op(f"H upd b pat {n} {sd}", "ok")
    i = s.op("H fin a")
    j = s.op("H fin b")
    s.equal.append((i, j))
    s.prediction = p
    s.nontrivial = p["count"] > 0 or p["res"] != "ok"
    return s


def exhaustive_reader_scripts(rng, max_len=6, extended=True):
    """ALL sequences of length <= max_len over {d1, d65536, d70000, s<random<1000>, i, e, z}"""
    out = []
    for length in range(max_len + 1):
        for combo in itertools.product("1BSriez", repeat=length):
            events = []
            for c in combo:
                if c == "1":
                    events.append(("d", 1, _seed(rng)))
                elif c == "B":
                    events.append(("d", 65536, _seed(rng)))
                elif c == "S":
                    events.append(("d", 70000, _seed(rng)))
                elif c == "r":
                    events.append(("d", rng.randrange(1, 1000), _seed(rng)))
                elif c == "i":
                    events.append(("i",))
                elif c == "e":
                    events.append(("e", None))
                else:
                    events.append(("z",))
            prefix = rng.choice([0, 0, 0, 1, 63, 1023, 1024, 1500])
            out.append(reader_script(rng, events, tags=("exhaustive", "".join(combo) or "empty"), extended=extended,
                                     prefix=prefix, mode="hash" if rng.random() < 0.8 else None))
    return out


DATA_SIZES = [0, 1, 2, 63, 64, 65, 1023, 1024, 1025, 2047, 2048, 2049, 4096, 16383, 16384, 65535, 65536, 65537, 70000,
              131071, 131072, 131073, 200000]


def random_reader_script(rng, extended=True):
    """a longer script; the data total is steered across the 1024 / 65536 boundaries"""
    n_events = rng.randrange(7, 40)
    style = rng.choice(["small", "chunky", "buffer", "mixed", "mixed", "tiny-reads"])
    events = []
    for _ in range(n_events):
        x = rng.random()
        if x < 0.55:
            if style == "small":
                n = rng.randrange(0, 1000)
            elif style == "chunky":
                n = 1024 * rng.randrange(0, 5) + rng.choice([-1, 0, 1, 0, 0, 511])
            elif style == "buffer":
                n = rng.choice([65535, 65536, 65537, 70000, 131072, 131073, 32768, 1])
            elif style == "tiny-reads":
                n = rng.randrange(0, 200)
            else:
                n = rng.choice(DATA_SIZES + [rng.randrange(0, 1000), rng.randrange(0, 70000)])
            n = max(0, n)
            if rng.random() < 0.35:
                if style == "tiny-reads":
                    k = rng.choice([1, 1, 2, 3, 7])
                else:
                    k = rng.choice([7, 64, 1000, 1023, 1024, 1025, 4096, 65535, 65536, 65537, 100000])
                    if n // k > 3000:
                        k = 1024
                events.append(("s", n, _seed(rng), k))
            else:
                events.append(("d", n, _seed(rng)))
        elif x < 0.9:
            events.append(("i",))
        elif x < 0.95:
            events.append(("e", rng.choice([None] + ERROR_KINDS)))
        else:
            events.append(("z",))
    # make most scripts long-lived: move a stop that comes too early towards the end
    if rng.random() < 0.7:
        stops = [i for i, e in enumerate(events) if e[0] in "ez"]
        if stops and stops[0] < n_events // 2:
            first = events.pop(stops[0])
            events.append(first)
            events = [e for e in events[:-1] if e[0] not in "ez"] + [events[-1]] + [("d", 5, _seed(rng))]
    # steer the total of the absorbed bytes next to a boundary
    if rng.random() < 0.5:
        live_total = predict_reader(events)["count"]
        target = rng.choice([1024, 2048, 65536, 131072, 65536 + 1024]) + rng.choice([-1, 0, 1])
        if live_total < target and target - live_total < 300000:
            events.insert(0, ("d", target - live_total, _seed(rng)))
    prefix = rng.choice([0, 0, 1, 64, 1023, 1024, 1025, 65536, rng.randrange(0, 5000)])
    return reader_script(rng, events, tags=("random", style), extended=extended, prefix=prefix)


# ---------------------------------------------------------------------------------------------
# files

FILE_LENGTHS = [0, 1] + list(range(16380, 16391)) + [65535, 65536, 65537, 1 << 20]


def _write_file(path, data):
    with open(path, "wb") as f:
        f.write(data)


def file_script(rng, path, length, seed, tags, prefix=0):
    """updmm / updmmr / updfile on a file whose bytes are pat <length> <seed>, against `H upd`"""
    mode = _mode(rng)
    s = IoScript(tags=tags)
    for r in "abcdef":
        s.op(f"H new {r} {mode}", "ok")
    if prefix:
        sd = _seed(rng)
        for r in "abcdef":
            s.op(f"H upd {r} pat {prefix} {sd}", "ok")
    s.op(f"H updmm a {path}", "ok")
    s.op(f"H updmmr b {path}", "ok")
    s.op(f"H updfile c {path}", "ok")
    s.op(f"H upd d pat {length} {seed}", "ok")
    # update_mmap_rayon inside explicit pools: one thread, and a few
    s.op(f"H updmmrp e 1 {path}", "ok")
    s.op(f"H updmmrp f {rng.choice([2, 3, 4, 16])} {path}", "ok")
    for r in "abcdef":
        s.op(f"H cnt {r}", str(prefix + length))
    fins = [s.op(f"H fin {r}") for r in "abcdef"]
    s.equal += [(fins[0], fins[3]), (fins[1], fins[3]), (fins[2], fins[3]), (fins[4], fins[3]), (fins[5], fins[3])]
    s.plan = py_mmap_plan_regular(length)
    return s


def compare_script(rng, path, tags, pools=False):
    """contents unknown: updmm and updmmr (and, with pools, update_mmap_rayon inside explicit pools) against updfile only"""
    mode = _mode(rng)
    s = IoScript(tags=tags)
    regs = "abcde" if pools else "abc"
    for r in regs:
        s.op(f"H new {r} {mode}", "ok")
    s.op(f"H updmm a {path}", "ok")
    s.op(f"H updmmr b {path}", "ok")
    s.op(f"H updfile c {path}", "ok")
    if pools:
        s.op(f"H updmmrp d 1 {path}", "ok")
        s.op(f"H updmmrp e 4 {path}", "ok")
    cnts = [s.op(f"H cnt {r}") for r in regs]
    fins = [s.op(f"H fin {r}") for r in regs]
    for i in range(len(regs)):
        if i != 2:
            s.equal += [(cnts[i], cnts[2]), (fins[i], fins[2])]
    return s


def error_script(rng, path, kind, tags):
    """all three entry points fail with `kind`; the hasher is left as it was"""
    mode = _mode(rng)
    s = IoScript(tags=tags)
    sd = _seed(rng)
    for r in "abcd":
        s.op(f"H new {r} {mode}", "ok")
        s.op(f"H upd {r} pat 100 {sd}", "ok")
    s.op(f"H updmm a {path}", f"err:{kind}")
    s.op(f"H updmmr b {path}", f"err:{kind}")
    s.op(f"H updfile c {path}", f"err:{kind}")
    for r in "abcd":
        s.op(f"H cnt {r}", "100")
    fins = [s.op(f"H fin {r}") for r in "abcd"]
    s.equal += [(fins[0], fins[3]), (fins[1], fins[3]), (fins[2], fins[3])]
    return s


def _fifo_writer(path, data, pieces):
    def run():
        try:
            fd = os.open(path, os.O_WRONLY)        # blocks until the driver opens the FIFO
            try:
                pos = 0
                for p in pieces:
                    os.write(fd, data[pos:pos + p])
                    pos += p
                while pos < len(data):
                    pos += os.write(fd, data[pos:pos + 65536])
            finally:
                os.close(fd)
        except OSError:
            pass
    t = threading.Thread(target=run, daemon=True)
    t.start()
    return t


def start_fifo_writers(script):
    """(re)create the FIFOs of a script and start one writer thread for each"""
    threads = []
    for path, length, seed in script.fifos:
        if os.path.exists(path):
            os.unlink(path)
        os.mkfifo(path)
        threads.append(_fifo_writer(path, lcg_bytes(length, seed), [1, 7, 1000, 4096, 3]))
    return threads


def fifo_script(rng, tmpdir, length, idx, start=True):
    """three FIFOs (one per entry point, each opened and written once) carrying pat <length> <seed>"""
    mode = _mode(rng)
    seed = _seed(rng)
    s = IoScript(tags=("fifo", f"len{length}"))
    paths = [os.path.join(tmpdir, f"fifo_{idx}_{k}") for k in "abc"]
    s.fifos = [(p, length, seed) for p in paths]
    for r in "abcd":
        s.op(f"H new {r} {mode}", "ok")
    s.op(f"H updmm a {paths[0]}", "ok")
    s.op(f"H updmmr b {paths[1]}", "ok")
    s.op(f"H updfile c {paths[2]}", "ok")
    s.op(f"H upd d pat {length} {seed}", "ok")
    for r in "abcd":
        s.op(f"H cnt {r}", str(length))
    fins = [s.op(f"H fin {r}") for r in "abcd"]
    s.equal += [(fins[0], fins[3]), (fins[1], fins[3]), (fins[2], fins[3])]
    if start:
        start_fifo_writers(s)
    return s


def write_script(rng, n):
    """io::Write: `H updw` returns `ok <len>` and leaves the same state as `H upd`"""
    mode = _mode(rng)
    s = IoScript(tags=("write", f"len{n}"))
    s.op(f"H new a {mode}", "ok")
    s.op(f"H new b {mode}", "ok")
    total = 0
    for piece in [rng.choice([0, 1, 1000]), n, rng.choice([0, 5, 1024])]:
        sd = _seed(rng)
        s.op(f"H updw a pat {piece} {sd}", f"ok {piece}")
        s.op(f"H upd b pat {piece} {sd}", "ok")
        total += piece
    s.op("H cnt a", str(total))
    s.op("H cnt b", str(total))
    i = s.op("H fin a")
    j = s.op("H fin b")
    s.equal.append((i, j))
    return s


def writev_script(rng, shape=None):
    """io::Write::write_vectored: the slices' bytes, in order, exactly once; `H updwv` answers `ok <total>` and leaves the state of `H upd`"""
    mode = _mode(rng)
    s = IoScript(tags=("write_vectored",))
    s.op(f"H new a {mode}", "ok")
    s.op(f"H new b {mode}", "ok")
    total = 0
    for _ in range(rng.choice([1, 2, 3])):
        lens = shape or rng.choice([[16, 4096], [1, 1, 1, 2000], [0, 5, 0, 1024, 7], [1024, 1], [1023, 1025], [1000, 24, 1024], [64] * 20,
                                    [rng.randrange(0, 1500) for _ in range(rng.randrange(1, 7))], [3, 70000], [70000, 3, 2048]])
        extra = rng.choice([0, 0, 1, 1500])
        n = sum(lens) + extra
        sd = _seed(rng)
        s.op(f"H updwv a {','.join(map(str, lens))} pat {n} {sd}", f"ok {n}")
        s.op(f"H upd b pat {n} {sd}", "ok")
        total += n
        s.op("H cnt a", str(total))
    i = s.op("H fin a")
    j = s.op("H fin b")
    s.equal.append((i, j))
    return s


def file_scripts(rng, tmpdir, fifo=True):
    out = []
    os.makedirs(tmpdir, exist_ok=True)
    for length in FILE_LENGTHS:
        seed = _seed(rng)
        path = os.path.join(tmpdir, f"regular_{length}.bin")
        _write_file(path, lcg_bytes(length, seed))
        out.append(file_script(rng, path, length, seed, ("file", f"len{length}")))
        if length in (0, 16383, 16384, 65536):
            out.append(file_script(rng, path, length, seed, ("file", f"len{length}", "prefix"), prefix=rng.choice([1, 1000, 1024])))
    # through a symlink
    seed = _seed(rng)
    target = os.path.join(tmpdir, "linked_target.bin")
    _write_file(target, lcg_bytes(20000, seed))
    link = os.path.join(tmpdir, "link")
    if os.path.lexists(link):
        os.unlink(link)
    os.symlink(target, link)
    out.append(file_script(rng, link, 20000, seed, ("file", "symlink")))
    # a large sparse file (well above any plausible windowing constant, length not a multiple of 64 MiB / 1 MiB / 64 KiB):
    # every mmap entry point against update_reader
    big = os.path.join(tmpdir, "sparse_large.bin")
    with open(big, "wb") as f:
        f.truncate(64 * 1024 * 1024 + 3 * 1024 * 1024 + 4097)
        for off in (0, 12345, 64 * 1024 * 1024 - 1, 64 * 1024 * 1024 + 5, 67 * 1024 * 1024 + 4000):
            f.seek(off)
            f.write(b"\x5a\xa5not zero")
    s_big = compare_script(rng, big, ("file", "large-sparse"), pools=True)
    out.append(s_big)
    # many independent hashers driven from the workers of one small rayon pool (a worker waiting in a join picks up another
    # hasher's job): every one must finish, with the digest of the plain update
    mid = os.path.join(tmpdir, "pool_4m.bin")
    sd = _seed(rng)
    with open(mid, "wb") as f:
        f.write(lcg_bytes(1 << 20, sd) * 4)
    sp = IoScript(tags=("file", "pool-workers"))
    sp.op("H new c hash", "ok")
    sp.op(f"H updfile c {mid}", "ok")
    fc = sp.op("H fin c")
    sp.op("H new d hash", "ok")
    sp.op(f"H updfile d {big}", "ok")
    fd = sp.op("H fin d")
    sp.pool = [(sp.op(f"D poolmmap 4 48 {mid}"), fc), (sp.op(f"D poolmmap 3 24 {mid}"), fc), (sp.op(f"D poolmmap 2 6 {big}"), fd),
               (sp.op(f"D poolmmap 1 3 {mid}"), fc)]
    out.append(sp)
    # pseudo files whose contents are stable within one process
    for p in ["/proc/self/cmdline", "/proc/version"]:
        if os.path.exists(p):
            out.append(compare_script(rng, p, ("special", p)))
    # seekable, longer than 16 KiB, but mmap fails (ENODEV): rewind + ordinary reads
    p = "/sys/kernel/btf/vmlinux"
    if os.path.exists(p) and os.access(p, os.R_OK):
        out.append(compare_script(rng, p, ("special", "unmappable", p)))
    # /dev/null: the seek returns 0, reads give EOF at once
    import stat as _stat
    if _stat.S_ISCHR(os.stat("/dev/null").st_mode):     # (a sandbox in which something replaced /dev/null by a regular file is not the property's subject)
        s = compare_script(rng, "/dev/null", ("special", "/dev/null"))
        for i, line in enumerate(s):
            if line.startswith("H cnt"):
                s.expect[i] = "0"
        out.append(s)
    # a directory opens but cannot be read; a missing path does not open
    d = os.path.join(tmpdir, "a_directory")
    os.makedirs(d, exist_ok=True)
    out.append(error_script(rng, d, "IsADirectory", ("special", "directory")))
    out.append(error_script(rng, os.path.join(tmpdir, "no_such_file"), "NotFound", ("special", "missing")))
    out.append(error_script(rng, os.path.join(tmpdir, "regular_1.bin", "x"), "NotADirectory", ("special", "notadirectory")))
    if fifo and hasattr(os, "mkfifo"):
        for idx, length in enumerate([0, 5, 16383, 16384, 70000, 300000]):
            out.append(fifo_script(rng, tmpdir, length, idx))
    for n in [0, 1, 1024, 65537, 1 << 20]:
        out.append(write_script(rng, n))
    return out


def scripts_for_c11(rng, n, tmpdir, exhaustive_len=6, extended=True, fifo=True):
    scripts = exhaustive_reader_scripts(rng, exhaustive_len, extended)
    scripts += [random_reader_script(rng, extended) for _ in range(n)]
    scripts += file_scripts(rng, tmpdir, fifo)
    return scripts


# ---------------------------------------------------------------------------------------------
# self-test: real driver, Lean model driver, Python prediction

def _run_lines(exe, lines, jobs=1):
    import subprocess
    if not lines:
        return []
    if jobs > 1 and len(lines) > 4 * jobs:
        from concurrent.futures import ThreadPoolExecutor
        step = (len(lines) + jobs - 1) // jobs
        parts = [lines[i:i + step] for i in range(0, len(lines), step)]
        with ThreadPoolExecutor(jobs) as ex:
            return [o for part in ex.map(lambda ls: _run_lines(exe, ls), parts) for o in part]
    p = subprocess.run([exe], input="\n".join(lines) + "\n", stdout=subprocess.PIPE, text=True, check=True)
    return p.stdout.split("\n")[:-1]


def validate(rs_exe, lean_exe, scripts, batch=20000, log=print):
    import time
    bad = []
    reader_lines = 0
    t_rs = t_lean = 0.0
    for b in range(0, len(scripts), batch):
        part = scripts[b:b + batch]
        lines = [l for s in part for l in s]
        t0 = time.time()
        outs = _run_lines(rs_exe, lines)
        t_rs += time.time() - t0
        assert len(outs) == len(lines), (len(outs), len(lines))
        louts = None
        if lean_exe:
            rl = [l for l in lines if l.startswith("H updrd")]
            t0 = time.time()
            louts = iter(_run_lines(lean_exe, rl, jobs=min(8, os.cpu_count() or 1)))
            t_lean += time.time() - t0
        pos = 0
        for s in part:
            o = outs[pos:pos + len(s)]
            pos += len(s)
            for c in check_outputs(s, o):
                bad.append((s, c))
            if louts is not None:
                for i, l in enumerate(s):
                    if not l.startswith("H updrd"):
                        continue
                    reader_lines += 1
                    lo = next(louts)
                    f = lo.split(" ")
                    p = s.prediction
                    lean_rs = " ".join(f[:4]) if l.startswith("H updrdx") else f[0]
                    if lean_rs != o[i]:
                        bad.append((s, f"lean model `{lo}` vs driver `{o[i]}` on `{l[:100]}`"))
                    want = (f"{p['res']} {p['calls']} {p['consumed']} 0 cnt={p['count']} "
                            f"total={p['total'] if p['total'] is not None else '-'} sizes={','.join(map(str, p['sizes']))}")
                    if lo != want:
                        bad.append((s, f"lean model `{lo}` vs python `{want}`"))
                    # H cnt a directly follows; the prefix is whatever was absorbed before
                    before = int(s[i - 1].split(" ")[4]) if i >= 1 and s[i - 1].startswith("H upd b pat") else 0
                    if int(o[i + 1]) - before != int(f[4][4:]):
                        bad.append((s, f"lean cnt {f[4]} vs driver count {o[i + 1]} - {before}"))
        log(f"  {min(b + batch, len(scripts))}/{len(scripts)} scripts, {len(bad)} complaints, driver {t_rs:.1f}s, lean {t_lean:.1f}s")
    return bad, reader_lines, t_rs, t_lean


if __name__ == "__main__":
    import argparse
    import random
    import tempfile
    import time
    ap = argparse.ArgumentParser()
    ap.add_argument("--rs", default="/verif/harness/rs/target/release/b3-verif-harness")
    ap.add_argument("--lean", default="/verif/lean_c11_dev/.lake/build/bin/c11drv")
    ap.add_argument("--n", type=int, default=5000)
    ap.add_argument("--exhaustive", type=int, default=6)
    ap.add_argument("--seed", type=int, default=1)
    ap.add_argument("--plain", action="store_true", help="use H updrd instead of H updrdx")
    a = ap.parse_args()
    rng = random.Random(a.seed)
    with tempfile.TemporaryDirectory(prefix="c11_") as tmp:
        t0 = time.time()
        scripts = scripts_for_c11(rng, a.n, tmp, a.exhaustive, not a.plain)
        print(f"{len(scripts)} scripts generated in {time.time() - t0:.1f}s")
        bad, reader_lines, t_rs, t_lean = validate(a.rs, a.lean if os.path.exists(a.lean) else None, scripts)
        kinds = {}
        for s in scripts:
            kinds[s.tags[0]] = kinds.get(s.tags[0], 0) + 1
        print(f"kinds: {kinds}; reader lines checked against the Lean model: {reader_lines}")
        print(f"driver {t_rs:.1f}s, lean {t_lean:.1f}s, complaints: {len(bad)}")
        for s, c in bad[:40]:
            print("  ", s.tags, c)
        raise SystemExit(1 if bad else 0)
