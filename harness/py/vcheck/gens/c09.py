"""C09: subtree hashing composes; left_subtree_len / max_subtree_len"""
from ..core import Script, Rng
from ..stage import LineStage, replay_line
from .common import *

ARTEFACTS = ["G1-consts", "G2-rs-portable", "G3-arith", "G8-chunkstate", "G9-update"]
EXTRA_PROPS = [("B3.Props.C02T", "B3/Props/C02T.lean"), ("B3.Props.C01T", "B3/Props/C01T.lean")]   # theorems about the code translated from the sources
RULE = ("(a) random decomposition trees (split at left_subtree_len, random depth, each leaf fed by random update splits through "
        "set_input_offset + finalize_non_root) merged with merge_subtrees_non_root / root / root_xof, base offsets t0*1024 with t0 in "
        "{0,1,2^k,2^32-1,2^32,2^32+5*2^j,2^53,2^54-2^j} (input sized to the permitted subtree); fixed 2^g-chunk groups merged layer by "
        "layer; (b) the two helpers at 2^k, 2^k+-1, 1025, 2^64-1, 2^64-2 and random u64; (c) the five documented misuse panics; "
        "non-trivial = decomposition with >= 2 leaves; distinct = distinct script")
ASSUMPTIONS = ["chunk counters at and above 2^32 are exercised through set_input_offset; the bytes hashed there are only as long as the subtree permits"]
NOT_PROVED = []


def lsl(n):
    """largest power of two strictly below n (n > 1024), in bytes with chunk granularity"""
    chunks = (n + 1023) // 1024
    p = 1
    while p * 2 < chunks:
        p *= 2
    return p * 1024


class Builder:
    def __init__(self, rng, mode, seed, total, base_off):
        self.rng, self.mode, self.seed, self.total, self.base = rng, mode, seed, total, base_off
        self.ops = []
        self.nv = 0
        self.leaves = 0

    def leaf(self, off, n):
        v = f"v{self.nv}"
        self.nv += 1
        self.leaves += 1
        self.ops.append(f"H new h {self.mode}")
        if self.base + off:
            self.ops.append(f"H off h {self.base + off}")
        # random update splits
        pos = 0
        while pos < n:
            k = min(n - pos, self.rng.choice([n, 1, 64, 1024, 1025, 4096, self.rng.randrange(1, n + 1)]))
            self.ops.append(f"H upd h pats {k} {self.seed} {off + pos}")
            pos += k
            if self.rng.random() < 0.1:
                self.ops.append(f"H upd h pats 0 {self.seed} {off + pos}")     # an empty update in between
        if self.rng.random() < 0.5:
            # the empty update that ends a read loop (`n = read(buf); update(&buf[..n]); if n == 0 break`), here possibly on a
            # subtree that is already complete
            self.ops.append(f"H upd h pats 0 {self.seed} {off + n}")
        self.ops.append(f"H cvnr h {v}")
        return v

    def cv(self, off, n, depth):
        if n <= 1024 or depth == 0 or self.rng.random() < 0.25:
            return self.leaf(off, n)
        l = lsl(n)
        a = self.cv(off, l, depth - 1)
        b = self.cv(off + l, n - l, depth - 1)
        v = f"v{self.nv}"
        self.nv += 1
        self.ops.append(f"Z mergev nonroot {self.mode} {a} {b} {v}")
        return v


def decomp_script(rng, plat, big):
    mode = mode_tok(rng)
    seed = rng.randrange(1 << 32)
    # base offset: 0 means a whole-input decomposition ending in a root merge
    t0 = rng.choice([0, 0, 0, 1, 2, 4, 1 << 10, (1 << 32) - 1, 1 << 32, (1 << 32) + 5 * (1 << rng.randrange(0, 8)), 1 << 53,
                     (1 << 54) - (1 << rng.randrange(0, 10))])
    if t0 == 0:
        total = rng.choice([1025, 2048, 2049, 3072, 4096, 5000, 8192, 8193, 16384, 17 * 1024, 33 * 1024 + 1, rng.randrange(1025, big)])
    else:
        tz = (t0 & -t0).bit_length() - 1
        mx = min(1 << tz, 64) * 1024
        total = rng.choice([mx, mx - 1, max(1, mx // 2 + 1), rng.randrange(1, mx + 1)])
    b = Builder(rng, mode, seed, total, t0 * 1024)
    b.ops.append(f"P plat {plat}")
    if t0 == 0:
        l = lsl(total)
        d = rng.randrange(0, 6)
        va = b.cv(0, l, d)
        vb = b.cv(l, total - l, d)
        if rng.random() < 0.5:
            b.ops.append(f"Z mergev root {mode} {va} {vb}")
        else:
            b.ops.append(f"Z mergev rootxof {mode} {va} {vb} x")
            b.ops.append(f"X fill x {rng.choice([32, 64, 100, 200])}")
        b.ops.append(f"O hash {mode} pat {total} {seed}")
    else:
        b.cv(0, total, rng.randrange(0, 5))
    return Script(b.ops, tags=(plat, "whole" if t0 == 0 else ("offset-hi" if t0 >= (1 << 32) - 1 else "offset-lo")), nontrivial=b.leaves >= 2)


def grouped_script(rng, plat):
    """fixed 2^g-chunk groups merged layer by layer (hazmat docs' second strategy)"""
    mode = mode_tok(rng)
    seed = rng.randrange(1 << 32)
    g = rng.randrange(0, 4)
    glen = (1 << g) * 1024
    total = rng.randrange(glen + 1, glen * rng.choice([2, 3, 5, 8, 13]) + 1)
    ops = [f"P plat {plat}"]
    vs = []
    off = 0
    i = 0
    while off < total:
        n = min(glen, total - off)
        ops += [f"H new h {mode}"]
        if off:
            ops.append(f"H off h {off}")
        ops += [f"H upd h pats {n} {seed} {off}"] + ([f"H upd h pats 0 {seed} {off + n}"] if i % 2 else []) + [f"H cvnr h g{i}"]
        vs.append(f"g{i}")
        off += n
        i += 1
    lvl = 0
    while len(vs) > 2:
        nxt = []
        for j in range(0, len(vs) - 1, 2):
            v = f"m{lvl}_{j}"
            ops.append(f"Z mergev nonroot {mode} {vs[j]} {vs[j+1]} {v}")
            nxt.append(v)
        if len(vs) % 2:
            nxt.append(vs[-1])
        vs = nxt
        lvl += 1
    if len(vs) == 2:
        ops.append(f"Z mergev root {mode} {vs[0]} {vs[1]}")
    ops.append(f"O hash {mode} pat {total} {seed}")
    return Script(ops, tags=(plat, "grouped"))


def helper_scripts(rng, n_random):
    vals = set()
    for k in range(10, 64):
        vals |= {(1 << k) - 1, 1 << k, (1 << k) + 1}
    vals |= {1025, 1026, 2047, 2048, 2049, (1 << 64) - 1, (1 << 64) - 2, (1 << 63) + 1}
    for _ in range(n_random):
        vals.add(rng.randrange(1025, 1 << rng.randrange(11, 65)))
    ops = [f"Z lsl {v}" for v in sorted(vals) if 1024 < v < (1 << 64)]
    offs = {0}
    for k in range(10, 64):
        offs |= {1 << k, (1 << k) + 1024, 3 << (k - 1) if k > 10 else 1024}
    for _ in range(n_random):
        offs.add(1024 * rng.randrange(1, 1 << rng.randrange(1, 54)))
    offs |= {1, 1023, 1025, 2049}     # unaligned: documented panic
    ops += [f"Z msl {o}" for o in sorted(offs) if o < (1 << 64)]
    return [Script([op], tags=("helpers",)) for op in ops]


def misuse_scripts(rng):
    out = []
    out.append(Script(["H new h hash", "H cvnr h"], tags=("misuse",)))                       # empty subtree
    out.append(Script(["H new h hash", "H off h 1000"], tags=("misuse",)))                   # unaligned offset
    out.append(Script(["H new h hash", "H upd h pat 1 1", "H off h 1024"], tags=("misuse",)))  # already accepted input
    out.append(Script(["H new h hash", "H off h 1024", "H upd h pat 1025 1", "H cnt h"], tags=("misuse",)))  # too much input
    out.append(Script(["H new h hash", "H off h 3072", "H upd h pat 1024 1", "H upd h pat 1 2", "H cnt h"], tags=("misuse",)))
    out.append(Script(["H new h hash", "H off h 2048", "H upd h pat 10 1", "H fin h"], tags=("misuse",)))    # finalize with offset
    out.append(Script(["H new h hash", "H off h 2048", "H upd h pat 10 1", "H xof h x"], tags=("misuse",)))
    out.append(Script(["H new h hash", "H off h 2048", "H upd h pat 2048 1", "H cvnr h", "H upd h pat 1 1"], tags=("misuse",)))
    return out


def reoffset_scripts(rng, n):
    """set_input_offset called more than once before any input (legal: count() == 0 is the only precondition), then a subtree;
    and offset - reset - offset sequences: the subtree's CV must depend on the LAST offset only"""
    out = []
    offs = [0, 1024, 2048, 4096, 1 << 20, 1 << 32, 1 << 42, ((1 << 54) - 4) * 1024]
    for i in range(n):
        seq = [rng.choice(offs) for _ in range(rng.randrange(2, 5))]
        last = seq[-1]
        mx = (last // 1024 & -(last // 1024)) * 1024 if last else 8192
        ln = rng.choice([1, 1024, min(mx, 2048), min(mx, 4096), min(mx, 5000) if last == 0 else min(mx, 4096)])
        ops = [f"P plat {PLATFORMS[i % 5]}", f"H new h {mode_tok(rng)}"]
        for j, o in enumerate(seq):
            ops.append(f"H off h {o}")
            if j < len(seq) - 1 and rng.random() < 0.3:
                ops += ["H cnt h", "H reset h"]
        ops += [f"H upd h {pat(ln, rng)}", "H cnt h", "H cvnr h"]
        out.append(Script(ops, tags=("reoffset",)))
    return out


def stages(tier, seed, witness_search=False):
    rng = Rng(seed)
    n = 250 if tier == "quick" else 4000
    if witness_search:
        n *= 4
    big = 200 * 1024 if tier == "quick" else 1024 * 1024
    scripts = helper_scripts(rng, 100 if tier == "quick" else 3000) + misuse_scripts(rng)
    scripts += [decomp_script(rng, PLATFORMS[i % 5], big) for i in range(n)]
    scripts += [grouped_script(rng, PLATFORMS[i % 5]) for i in range(n // 4)]
    scripts += reoffset_scripts(rng, n // 3)
    return [LineStage("hazmat", scripts)]


def replay(d, lean_exe):
    return replay_line(d, lean_exe)
