"""C16: RustCrypto trait impls and the legacy guts API agree with the inherent API"""
from ..core import Script, Rng
from ..stage import LineStage, replay_line
from .common import *
from . import c03

ARTEFACTS = ["G4-listings", "G1-consts", "G13-traits"]
EXTRA_PROPS = [("B3.Props.Surface", "B3/Props/Surface.lean"), ("B3.Props.C16T", "B3/Props/C16T.lean")]   # theorems about the code translated from the sources
RULE = ("histories over the trait methods (Update, Reset, FixedOutput, FixedOutputReset, Digest::finalize, ExtendableOutput, "
        "ExtendableOutputReset + XofReader (also: one reader driven by XofReader::read, fill, io::Read and seeks in any order, lengths 0..1024 incl. whole blocks from unaligned positions), KeyInit::new / new_from_slice with keys of every length 0..40, Mac finalize / verify_slice "
        "with good, bit-flipped, truncated and extended tags) interleaved with the inherent methods on the same registers, each followed "
        "by inherent finalize/count so that the state left behind by the resetting variants is observed; guts::ChunkState with chunk "
        "counters {0,1,2^32-1,2^32,2^32+1,2^64-1}, lengths over the size classes <= 1024 in any split, is_root both ways (root with "
        "non-zero counter: PANIC in the debug-assertions build, the root hash with counter 0 in a separate build without debug assertions - profile relnd), guts::parent_cv on random CV pairs; "
        "non-trivial = history with a trait op after an update; distinct = distinct script")
ASSUMPTIONS = ["digest's blanket impls (Digest, Mac) call the methods modelled here"]
NOT_PROVED = []


def trait_history(rng, plat):
    ops = [f"P plat {plat}"]
    if rng.random() < 0.3:
        ops.append(f"T newkey a {key_hex(rng)}")
    else:
        ops.append(f"H new a {mode_tok(rng)}")
    nt = False
    upd = 0
    for _ in range(rng.randrange(2, 14)):
        x = rng.random()
        if x < 0.35:
            ops.append(f"{rng.choice(['T', 'H'])} upd a {pat(size_of_class(rng.choice(SIZE_CLASSES), rng, 50000), rng)}")
            upd += 1
        elif x < 0.5:
            ops.append(f"T {rng.choice(['fin', 'digestfin', 'mac'])} a")
            nt = nt or upd > 0
        elif x < 0.62:
            ops += ["T finr a", "H cnt a", "H fin a"]
            nt = nt or upd > 0
        elif x < 0.72:
            ops += ["T xofr a x", f"T read x {rng.choice([0, 1, 64, 65, 200])}", "X pos x", "H cnt a"]
        elif x < 0.8:
            ops += ["T xof a x", f"T read x {rng.choice([32, 100])}", f"X fill x 10"]
        elif x < 0.88:
            ops += ["T reset a", "H cnt a"]
        else:
            ops += ["H fin a", "H cnt a"]
    ops += ["H cnt a", "T fin a", "H fin a"]
    return Script(ops, tags=(plat, "traits"), nontrivial=nt)


def trait_reader_script(rng, plat):
    """one reader driven through XofReader::read, the inherent fill, io::Read and seeks in any order: a trait read must continue
    exactly where the previous call stopped, whatever the alignment of the position and the length of the buffer"""
    ops = [f"P plat {plat}", f"H new a {mode_tok(rng)}", f"H upd a {pat(rng.choice([0, 3, 64, 1025]), rng)}",
           rng.choice(["T xof a x", "T xofr a x", "H xof a x"])]
    lens = [0, 1, 7, 31, 32, 33, 63, 64, 65, 100, 128, 192, 256, 1000, 1024]
    for _ in range(rng.randrange(3, 9)):
        k = rng.random()
        if k < 0.55:
            ops.append(f"T read x {rng.choice(lens)}")
        elif k < 0.7:
            ops.append(f"X fill x {rng.choice(lens)}")
        elif k < 0.8:
            ops.append(f"X read x {rng.choice(lens)}")
        elif k < 0.92:
            base = rng.choice([0, 64, 1 << 20, 1 << 32, 1 << 40])
            ops.append(f"X setpos x {base + rng.choice([0, 1, 17, 32, 63])}")
        else:
            ops.append(f"X seek x cur {rng.choice([1, 5, 64, 100])}")
        ops.append("X pos x")
    return Script(ops, tags=(plat, "trait-reader"), nontrivial=True)


def offset_reset_script(rng, plat):
    """a hazmat input offset, then a reset through the trait impls, then a subtree: the trait reset must be the inherent one"""
    off = 1024 * rng.choice([1, 2, 4, 1 << 20, 1 << 40])
    pre = rng.choice([[], [f"H upd a {pat(rng.choice([1, 1024]), rng)}"]])
    how = rng.choice([["T reset a"], ["T reset a"], ["H reset a"]])
    ops = [f"P plat {plat}", f"H new a {mode_tok(rng)}", f"H off a {off}"] + pre + how + ["H cnt a", f"H upd a {pat(rng.choice([10, 1024, 3000]), rng)}", "H cnt a", "H fin a", "H cvnr a"]
    return Script(ops, tags=(plat, "offset-reset"), nontrivial=True)


def mac_script(rng):
    k = key_hex(rng)
    ops = [f"T newkey a {k}", f"T upd a {pat(rng.choice([0, 5, 3000]), rng)}", f"H new b keyed {k}"]
    ops.append(ops[1].replace("T upd a", "H upd b"))
    ops += ["T mac a", "H fin b"]
    return Script(ops, tags=("mac",))


def keylen_scripts(rng):
    return [Script([f"T newkeyslice a {hexs(bytes(rng.randrange(256) for _ in range(n)))}", "T upd a pat 10 1", "T fin a"], tags=("keylen",))
            for n in range(0, 41)]


def guts_script(rng, plat):
    t = rng.choice([0, 0, 1, (1 << 32) - 1, 1 << 32, (1 << 32) + 1, (1 << 64) - 1, rng.randrange(1 << 64)])
    total = rng.choice([0, 1, 63, 64, 65, 127, 128, 1023, 1024, rng.randrange(0, 1025)])
    ops = [f"P plat {plat}", f"G new g {t}"]
    left = total
    while left > 0:
        k = min(left, rng.choice([left, 1, 64, 65, 300]))
        ops.append(f"G upd g {pat(k, rng)}")
        left -= k
    ops += ["G len g", "G fin g nonroot", "G fin g root", "D dbgg g"]
    ops.append(f"G parent {key_hex(rng)} {key_hex(rng)} {rng.choice(['root', 'nonroot'])}")
    return Script(ops, tags=(plat, "guts"))


def verify_scripts(rng):
    out = []
    for _ in range(30):
        k = key_hex(rng)
        ops = [f"T newkey a {k}", f"T upd a {pat(100, rng)}"]
        out.append(("mac", ops))
    return out


def stages(tier, seed, witness_search=False):
    rng = Rng(seed)
    n = 300 if tier == "quick" else 6000
    if witness_search:
        n *= 3
    scripts = [trait_history(rng, PLATFORMS[i % 5]) for i in range(n)] + [mac_script(rng) for _ in range(40)] + keylen_scripts(rng)
    scripts += [guts_script(rng, PLATFORMS[i % 5]) for i in range(n // 2)]
    scripts += [offset_reset_script(rng, PLATFORMS[i % 5]) for i in range(40)]
    scripts += [trait_reader_script(rng, PLATFORMS[i % 5]) for i in range(n // 2)]
    # Mac::verify_slice with the right tag, a flipped bit, truncated and extended tags: the tag comes from a first run,
    # so these are generated as (script, tag) pairs by running the model offline is not possible here; use fixed vectors:
    # key = 00..1f, empty message
    tag = "92b2b75604ed3c761f9d6f62392c8a9227ad0ea3f09573e783f1498a4ed60d26"  # keyed_hash(00..1f, "") - checked by `T mac` below
    k = bytes(range(32)).hex()
    base = [f"T newkey a {k}", "T mac a"]
    for t in [tag, tag[:-2] + "27", tag[:-2], tag + "00", "-", "00" * 32]:
        scripts.append(Script(base + [f"T macverify a {t}"], tags=("macverify",)))
    # the guts API in a build WITHOUT debug assertions and overflow checks (profile `relnd`): `finalize(true)` with a non-zero chunk
    # counter returns the root hash computed with counter 0 there (in debug builds an assertion fires instead); `G finrel` is the same
    # call, answered by the model with that behaviour
    rel = []
    for i in range(n // 2):
        g = guts_script(rng, PLATFORMS[i % 5])
        rel.append(Script([o.replace("G fin g ", "G finrel g ") for o in g.ops if not o.startswith("D dbgg")], tags=g.tags + ("no-debug-assertions",)))
    return [LineStage("traits-guts", scripts, normalize=c03.normalize),
            LineStage("guts-no-debug-assertions", rel + [mac_script(rng) for _ in range(10)], normalize=c03.normalize, profile="relnd")]


def replay(d, lean_exe):
    if d.get("stage") == "guts-no-debug-assertions":
        from ..stage import LineStage
        from .. import core
        st = LineStage("replay", [Script(d.get("ops", []))], normalize=c03.normalize, max_minimise=0, profile="relnd")
        ok, exe, log = st.build_impl()
        mism = core.run_pair(st.scripts, exe, lean_exe, "rs", c03.normalize)
        return dict(still_fails=bool(mism))
    return replay_line(d, lean_exe, normalize=c03.normalize)
