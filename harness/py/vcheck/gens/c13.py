"""C13: the b3sum checkfile format round-trips and never confuses two paths"""
from ..core import Script, Rng
from ..stage import LineStage, replay_line
from . import b3sum_gen

ARTEFACTS = ["G11-b3sum", "G28-b3sum-io"]
EXTRA_PROPS = [("B3.Props.C13T", "B3/Props/C13T.lean"), ("B3.Props.C12T", "B3/Props/C12T.lean")]   # theorems about the code translated from the sources
PROPS_MODULE = "B3.B3sum.Props13"
PROPS_PATH = "B3/B3sum/Props13.lean"
RULE = ("function-level ops on the real parse_check_line / filepath_to_string / unescape (include! of /repo/b3sum/src/main.rs): every "
        "single-character mutation (delete, duplicate, replace/insert by ~40 characters incl. 2-, 3-, 4-byte ones, NUL, U+FFFD) at every "
        "position of 23 valid lines of both forms, width-preserving multi-byte substitutions in the hash field, random paths weighted "
        "toward spaces, double spaces, ') = ', 'BLAKE3 (', backslash, CR, LF, invalid UTF-8; format-then-parse round trips (P rt) in both "
        "forms and both line endings; 44 process-level --check runs over lines of 3 KiB .. 64 KiB (one physical line is one entry) and 120 printing runs incl. failing inputs between good ones. Oracle: a parse never panics; P rt of a representable path returns exactly that path and hash. "
        "non-trivial = line differs from the 23 base lines; distinct = distinct op line")
ASSUMPTIONS = ["OsStr::to_string_lossy follows std's Utf8Chunks (modelled in B3/B3sum/Model.lean, checked by correspondence)",
               "printing is modelled from hash_one_input's print statements; the real binary's stdout is compared in C12"]
NOT_PROVED = []


def representable(b):
    try:
        s = b.decode("utf-8")
    except UnicodeDecodeError:
        return None
    if not s or "\x00" in s or "�" in s:
        return None
    return s


def oracle(op):
    t = op.split(" ")
    if t[:2] == ["P", "line"] or t[:2] == ["P", "unescape"] or t[:2] == ["P", "disp"]:
        return lambda out: out != "PANIC"
    if t[:2] == ["P", "rt"] and len(t) == 5:
        b = bytes.fromhex(t[2]) if t[2] != "-" else b""
        s = representable(b)
        if s is None:
            # unrepresentable paths must be rejected (or at least never accepted as the original bytes)
            return lambda out: out != "PANIC"
        esc = "1" if any(c in "\\\n\r" for c in s) else "0"
        return f"ok {b.hex()} {'aa' * 32} {esc}"
    return None


def stages(tier, seed, witness_search=False):
    rng = Rng(seed)
    n = 60000 if tier == "quick" else 1500000
    if witness_search:
        n *= 3
    lines = b3sum_gen.lines_for_c13(rng, n)
    scripts = [Script([l], tags=(" ".join(l.split(" ")[:2]),)) for l in lines]
    from .c12 import ProcStage
    # plus printing runs (names that need escaping, --tag, inputs that fail to hash in between): every printed line is a complete,
    # parseable entry for exactly one input
    long_lines = ProcStage(b3sum_gen.long_line_check_cases(rng) + [b3sum_gen.hash_case(rng) for _ in range(120 if tier == "quick" else 2000)], extras=False)
    long_lines.name = "process-long-lines"
    return [LineStage("parse-format", scripts, impl="b3sum", oracle=oracle), long_lines]


def replay(d, lean_exe):
    if d.get("case"):
        from . import c12
        return c12.replay(d, lean_exe)
    return replay_line(d, lean_exe, impl="b3sum", oracle=oracle)
