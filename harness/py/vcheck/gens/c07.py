"""C07: native code stays inside its buffers and obeys the calling convention"""
from ..core import Script, Rng
from ..stage import LineStage, replay_line
from .common import *
from . import c05, c06

ARTEFACTS = ["G1-consts", "G3-arith", "G3b-regions", "G9-update", "G23-c-wide", "G26-asm-abi", "G31-asm-avx512-compress-wgnu", "G32-asm-sse41-compress-wgnu", "G33-asm-sse2-compress-wgnu", "G34-asm-sse41-hash-many", "G44-asm-sse41-hash-many-wgnu", "G46-asm-avx2-hash-many"]
EXTRA_PROPS = [("B3.Props.C01T", "B3/Props/C01T.lean"), ("B3.Props.C06W", "B3/Props/C06W.lean"), ("B3.Props.C07A", "B3/Props/C07A.lean"), ("B3.Props.C05W", "B3/Props/C05W.lean"), ("B3.Props.C05BW", "B3/Props/C05BW.lean"), ("B3.Props.C05MW", "B3/Props/C05MW.lean")]   # theorems about the code translated from the sources
RULE = ("the C05 kernel calls and the C06 API histories run in harness/c, where every input ends flush against a PROT_NONE page, every "
        "output is produced once flush against an upper and once flush after a lower guard page with 0xAA canaries on the open side, "
        "the working copy of the hasher is itself flush against a guard page, and every assembly routine (System V and Windows-GNU) is "
        "called through a trampoline that plants sentinels in all callee-saved registers of its ABI and checks them, rsp, DF and the "
        "MXCSR control bits on return; the model predicts plain hex output, so any CANARY / REGS / FAULT / MISMATCH / MUTATED / SAN "
        "flag is a difference; `CK align` repeats the assembly kernel calls with the stack pointer at each of the four 16-byte positions of a 64-byte line; `CK hmanysep` gives every hash_many input its own guarded buffer (not adjacent to the next input); CK dirty 1|2 adds garbage in the unused upper bits of narrow arguments of the Windows-GNU kernels (registers and stack slots); thorough also runs "
        "larger samples; a clang AddressSanitizer + UndefinedBehaviorSanitizer build of the library runs API histories (incl. update(NULL, 0)) and the intrinsics / portable kernels in both tiers; non-trivial = every kernel call / API history; distinct = distinct script")
ASSUMPTIONS = ["Miri cannot execute SIMD intrinsics or FFI: the unsafe Rust kernels are covered by the output canaries of harness/rs K ops only",
               "memory and register behaviour is observed on the inputs run, not proved"]
NOT_PROVED = ["machine-level behaviour of kernels (memory footprint, registers): observed against the model's prediction, not proved"]


def stages(tier, seed, witness_search=False):
    rng = Rng(seed)
    k = 300 if tier == "quick" else 10000
    ops = c05.single_ops(rng, "CK", c05.C_SYMS, k) + c05.many_ops(rng, "CK", c05.C_SYMS, k // 2)
    kscripts = [Script([o], tags=(" ".join(o.split(" ")[:3]),)) for o in ops]
    api = [c06.history(rng, PLATFORMS[i % 5], rng.randrange(1, 16), 60 * 1024) for i in range(150 if tier == "quick" else 3000)]
    api += c06.null_update_scripts(rng)
    # hash_many with every input in its own buffer, flush against its own guard page (inputs NOT adjacent)
    sep = []
    for sym in c05.C_SYMS:
        for blocks in (1, 16):
            for n in list(range(0, 18)) + [33, 64]:
                ctr = rng.choice([0, (1 << 32) - 3, rng.randrange(1 << 60)])
                sep.append(Script([f"CK hmanysep {sym} {n} {blocks} {rng.randrange(1 << 30)} {c05.rhex(rng, 32)} {ctr} {rng.randrange(2)} "
                                   f"{rng.randrange(256)} {rng.randrange(256)} {rng.randrange(256)}"], tags=(f"hmanysep {sym}",)))
    # every 16-byte position of the stack pointer within a 64-byte line at the call (the ABI promises the callee no more than 16-byte
    # alignment; the default trampoline position is 48 mod 64): frame layout mistakes that depend on where `and rsp, -64` lands
    asm_syms = [x for x in c05.C_SYMS if x.endswith("_asm")]
    aligned = []
    for a in (16, 32, 48):
        aops = c05.single_ops(rng, "CK", asm_syms, 20 if tier == "quick" else 400) + c05.many_ops(rng, "CK", asm_syms, 40 if tier == "quick" else 800)
        aligned += [Script([f"CK align {a}", o, "CK align 0"], tags=(f"align {a} " + " ".join(o.split(" ")[1:3]),)) for o in aops]
    rs_ops = c05.many_ops(rng, "K", PLATFORMS, k // 4)
    st = [LineStage("c-kernels-guarded", kscripts, impl="c"), LineStage("c-api-guarded", api, impl="c"),
          LineStage("c-hash-many-separate-inputs", sep, impl="c", max_minimise=40),
          LineStage("c-asm-stack-alignments", aligned, impl="c"),
          # the library under AddressSanitizer + UndefinedBehaviorSanitizer (clang): API histories incl. the NULL empty update, and
          # the intrinsics / portable kernels (a sanitizer report is the ` SAN` flag)
          LineStage("c-sanitizers", (api[:40] if tier == "quick" else api) + c06.null_update_scripts(rng)
                    + [sc for sc in kscripts if "_asm" not in sc.ops[0]][:(150 if tier == "quick" else 5000)], impl="c_asan"),
          LineStage("c-win-dirty-narrow-args", c05.win_dirty_scripts(rng, 20 if tier == "quick" else 600), impl="c"),
          LineStage("rs-kernels-canary", [Script([o], tags=("K",)) for o in rs_ops], features=("pure",))]
    # "write only the requested output plus the hasher object itself": no writable static storage besides the detection cache
    from . import c18
    st.append(c18.GlobalsStage())
    return st


def replay(d, lean_exe):
    if d.get("stage") == "shared-state-scan":
        return dict(still_fails=False, note="re-run the check: the scan lists writable symbols of the C objects")
    if d.get("stage", "").startswith("rs-"):
        return replay_line(d, lean_exe, features=("pure",))
    return replay_line(d, lean_exe, impl="c_asan" if d.get("stage") == "c-sanitizers" else "c")
