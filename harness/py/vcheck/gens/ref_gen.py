"""C15 (first half): scripts for the reference implementation (ops `R new|upd|fin`, harness/PROTOCOL.md).

`scripts_for_ref(rng, n)` returns `n` scripts.  Every script creates the registers it uses; its tags
name the branches of reference_impl.rs it is built to reach.  The tags are not guesses: a counter-level
simulation of `ChunkState::update` / `Hasher::update` / `add_chunk_chaining_value` (`_Sim`) follows the
byte counts of the script and records which branch each op takes:

    mode-hash|keyed|derive       constructor
    upd-empty                    update(&[]): both loops skipped
    block-partial                bytes copied into a block buffer that stays short of 64
    block-fill                   a copy that makes the block buffer exactly full (no compression yet)
    block-flush                  `block_len == BLOCK_LEN` at the loop head: compress with more input coming
    block-flush-start            ... that compression carries CHUNK_START (first block of its chunk)
    chunk-fill                   an update that leaves the chunk state at exactly 1024 bytes (waiting)
    chunk-roll                   `len() == CHUNK_LEN` at the loop head: chunk CV pushed
    merge-<k>                    add_chunk_chaining_value ran its while loop k times (k trailing zeros)
    fin-empty                    finalize of the empty message
    fin-block-full|partial       finalize with a full / short last block
    fin-start-end                the root/last chunk node carries CHUNK_START|CHUNK_END (<= 64 bytes in the chunk)
    fin-chunk-full               finalize while a full chunk is waiting for more input
    fin-stack-<d>                finalize folds d stack entries (d = popcount of completed chunks)
    fin-then-upd                 more input after a finalize (finalize takes &self)
    out-0|lt64|64|multi          number of output blocks
    out-trunc-word               out_len not a multiple of 4 (last word truncated)
    out-trunc-block              out_len > 64 and not a multiple of 64 (full blocks, then a short last one)
    out-big                      out_len > 300
    twin                         a second register fed the same bytes in another split; both finalized

Standard library only (plus the package's own `Script` when imported as part of vcheck).
"""
try:
    from ..core import Script
except Exception:  # stand-alone use
    class Script:
        def __init__(self, ops, tags=(), nontrivial=True):
            self.ops = list(ops)
            self.tags = tuple(tags)
            self.nontrivial = nontrivial

        def key(self):
            return "\n".join(self.ops)

CHUNK = 1024
BLOCK = 64
MAX_RANDOM = 200 * 1024

# contexts for derive_key: valid UTF-8 only (`new_derive_key(context: &str)`), lengths around block/chunk edges
CONTEXTS = [b"", b"a", b"BLAKE3 2019-12-27 16:29:52 test vectors context", b"x" * 63, b"y" * 64, b"z" * 65,
            "héllo wörld ☃ \U0001F600".encode(), b"c" * 1023, b"d" * 1024, b"e" * 1025, b"f" * 2048,
            b"g" * 2049, b"h" * 3000, b"i" * 4096, b"j" * 5121]

SIZE_CLASSES = ["0", "1", "63", "64", "65", "1023", "1024", "1025", "k*1024", "k*1024-1", "k*1024+1", "2^j*1024",
                "2^j*1024-1", "2^j*1024+1", "blocks", "sub-block", "random-small", "random"]


def _hexs(b):
    return b.hex() if b else "-"


def size_of_class(cls, rng):
    if cls in ("0", "1", "63", "64", "65", "1023", "1024", "1025"):
        return int(cls)
    if cls.startswith("k*1024"):
        k = rng.randrange(2, 41)
        return k * CHUNK + {"k*1024": 0, "k*1024-1": -1, "k*1024+1": 1}[cls]
    if cls.startswith("2^j*1024"):
        j = rng.choice([0, 1, 1, 2, 2, 3, 3, 4, 4, 5, 5, 6, 7, 8])
        return (1 << j) * CHUNK + {"2^j*1024": 0, "2^j*1024-1": -1, "2^j*1024+1": 1}[cls]
    if cls == "blocks":
        return BLOCK * rng.randrange(1, 33)
    if cls == "sub-block":
        return rng.randrange(2, 63)
    if cls == "random-small":
        return rng.randrange(0, 5000)
    x = rng.random()
    if x < 0.6:
        return rng.randrange(0, 20 * CHUNK)
    return rng.randrange(0, MAX_RANDOM + 1)


def out_len(rng):
    x = rng.random()
    if x < 0.55:
        return rng.randrange(0, 301)
    if x < 0.8:
        return rng.choice([0, 1, 3, 4, 5, 31, 32, 33, 63, 64, 65, 67, 127, 128, 129, 130, 191, 192, 193, 255, 256, 257, 300])
    if x < 0.93:
        return max(0, BLOCK * rng.randrange(1, 70) + rng.choice([-3, -2, -1, 0, 1, 2, 3]))
    return rng.randrange(301, 5001)


class _Sim:
    """counters of reference_impl.rs's Hasher, to tag the branches an op takes"""

    def __init__(self, tags):
        self.blocks = 0      # blocks_compressed
        self.blen = 0        # block_len
        self.counter = 0     # chunk_counter
        self.stack = 0       # cv_stack_len
        self.total = 0
        self.tags = tags
        self.finalized = False

    def clen(self):
        return BLOCK * self.blocks + self.blen

    def _chunk_update(self, n):
        while n > 0:
            if self.blen == BLOCK:
                self.tags.add("block-flush")
                if self.blocks == 0:
                    self.tags.add("block-flush-start")
                self.blocks += 1
                self.blen = 0
            take = min(BLOCK - self.blen, n)
            self.blen += take
            self.tags.add("block-fill" if self.blen == BLOCK else "block-partial")
            n -= take

    def update(self, n):
        if self.finalized:
            self.tags.add("fin-then-upd")
        if n == 0:
            self.tags.add("upd-empty")
        self.total += n
        while n > 0:
            if self.clen() == CHUNK:
                self.tags.add("chunk-roll")
                total = self.counter + 1
                k = 0
                while total & 1 == 0:
                    self.stack -= 1
                    total >>= 1
                    k += 1
                self.stack += 1
                assert 0 < self.stack <= 54
                self.tags.add(f"merge-{k}")
                self.counter += 1
                self.blocks = self.blen = 0
            take = min(CHUNK - self.clen(), n)
            self._chunk_update(take)
            n -= take
        if self.clen() == CHUNK:
            self.tags.add("chunk-fill")

    def finalize(self, out):
        self.finalized = True
        t = self.tags
        if self.total == 0:
            t.add("fin-empty")
        elif self.blen == BLOCK:
            t.add("fin-block-full")
        else:
            t.add("fin-block-partial")
        if self.blocks == 0:
            t.add("fin-start-end")
        if self.clen() == CHUNK:
            t.add("fin-chunk-full")
        t.add(f"fin-stack-{self.stack}")
        if out == 0:
            t.add("out-0")
        elif out < 64:
            t.add("out-lt64")
        elif out == 64:
            t.add("out-64")
        else:
            t.add("out-multi")
        if out % 4:
            t.add("out-trunc-word")
        if out > 64 and out % 64:
            t.add("out-trunc-block")
        if out > 300:
            t.add("out-big")


def _mode(rng, kind, tags):
    tags.add("mode-" + kind)
    if kind == "hash":
        return "hash"
    if kind == "keyed":
        return "keyed " + bytes(rng.randrange(256) for _ in range(32)).hex()
    return "derive " + _hexs(rng.choice(CONTEXTS))


def _split(total, rng, style):
    """cut `total` bytes into update sizes"""
    if style == "one" or total == 0:
        return [total]
    if style == "bytes":                       # many tiny updates
        parts, left = [], total
        while left > 0 and len(parts) < 400:
            p = min(left, rng.choice([1, 1, 2, 3, 7, 31, 32, 33]))
            parts.append(p)
            left -= p
        if left:
            parts.append(left)
        return parts
    if style == "blocks":                      # cuts on / next to block boundaries
        unit = BLOCK
    elif style == "chunks":                    # cuts on / next to chunk boundaries
        unit = CHUNK
    else:
        unit = None
    cuts = set()
    for _ in range(rng.randrange(1, 9)):
        if unit is None:
            cuts.add(rng.randrange(0, total + 1))
        else:
            c = unit * rng.randrange(0, total // unit + 2) + rng.choice([-1, 0, 0, 0, 1])
            cuts.add(max(0, min(total, c)))
    pts = [0] + sorted(cuts) + [total]
    parts = [b - a for a, b in zip(pts, pts[1:])]
    if rng.random() < 0.3:
        parts.insert(rng.randrange(0, len(parts) + 1), 0)      # an empty update somewhere
    return parts


def _pats(sizes, seed):
    """update ops for consecutive pieces of one LCG stream"""
    ops, skip = [], 0
    for s in sizes:
        ops.append((s, f"pats {s} {seed} {skip}" if skip else f"pat {s} {seed}"))
        skip += s
    return ops


def history(rng, kind=None, total=None, style=None, outs=None):
    """one register: constructor, updates from the size classes, finalizes in between and at the end"""
    tags = set()
    kind = kind or rng.choice(["hash", "keyed", "derive"])
    ops = [f"R new a {_mode(rng, kind, tags)}"]
    sim = _Sim(tags)
    if total is None:
        sizes = []
        for _ in range(rng.choice([1, 1, 2, 2, 3, 4, 6])):
            cls = rng.choice(SIZE_CLASSES)
            tags.add("size:" + cls)
            sizes.append(size_of_class(cls, rng))
        # keep the whole history within the driver budget
        while sum(sizes) > 300 * 1024:
            sizes.pop()
    else:
        sizes = _split(total, rng, style or rng.choice(["one", "bytes", "blocks", "chunks", "random"]))
    nupd = 0
    for s in sizes:
        ops.append(f"R upd a pat {s} {rng.randrange(1 << 32)}")
        sim.update(s)
        nupd += 1
        if rng.random() < 0.25:
            o = out_len(rng)
            ops.append(f"R fin a {o}")
            sim.finalize(o)
    for o in (outs or [out_len(rng), 32]):
        ops.append(f"R fin a {o}")
        sim.finalize(o)
    return Script(ops, tags=tuple(sorted(tags)), nontrivial=nupd >= 2 or sim.total > CHUNK)


def twin(rng, total=None):
    """two registers absorb the same bytes in different splits; both are finalized with the same lengths"""
    tags = {"twin"}
    kind = rng.choice(["hash", "keyed", "derive"])
    mode = _mode(rng, kind, tags)
    if total is None:
        cls = rng.choice(SIZE_CLASSES)
        tags.add("size:" + cls)
        total = size_of_class(cls, rng) + rng.choice([0, 0, 1, 64, 1024])
    seed = rng.randrange(1 << 32)
    ops = [f"R new a {mode}", f"R new b {mode}"]
    sa, sb = _Sim(tags), _Sim(tags)
    for s, d in _pats(_split(total, rng, rng.choice(["one", "chunks", "random"])), seed):
        ops.append(f"R upd a {d}")
        sa.update(s)
    for s, d in _pats(_split(total, rng, rng.choice(["bytes", "blocks", "chunks", "random"])), seed):
        ops.append(f"R upd b {d}")
        sb.update(s)
    for o in [out_len(rng), 32, 64 + rng.randrange(0, 70)]:
        ops += [f"R fin a {o}", f"R fin b {o}"]
        sa.finalize(o)
        sb.finalize(o)
    return Script(ops, tags=tuple(sorted(tags)))


def lattice():
    """deterministic grid: every length within +-1 of a block boundary up to 2 chunks and of a chunk boundary up
    to 2^7+1 chunks (merges of 0..7 levels), in one update and in a split at the previous boundary"""
    lens = set()
    for b in range(0, 2 * CHUNK + 1, BLOCK):
        lens |= {b - 1, b, b + 1}
    for c in list(range(0, 18)) + [31, 32, 33, 63, 64, 65, 127, 128, 129]:
        lens |= {c * CHUNK - 1, c * CHUNK, c * CHUNK + 1}
    return sorted(x for x in lens if x >= 0)


def scripts_for_ref(rng, n):
    """`n` scripts; the first ones are a deterministic grid over boundary lengths, the rest random histories"""
    out = []
    grid = lattice()
    kinds = ["hash", "keyed", "derive"]
    i = 0
    # 1. boundary lengths: one update, then the same length split on the last chunk / block boundary below it
    for L in grid:
        if len(out) >= max(1, n // 3):
            break
        kind = kinds[i % 3]
        i += 1
        tags = {"grid"}
        mode = _mode(rng, kind, tags)
        seed = rng.randrange(1 << 32)
        sa, sb = _Sim(tags), _Sim(tags)
        ops = [f"R new a {mode}", f"R new b {mode}", f"R upd a pat {L} {seed}"]
        sa.update(L)
        cut = ((L - 1) // CHUNK) * CHUNK if L > CHUNK else ((L - 1) // BLOCK) * BLOCK if L > BLOCK else L // 2
        for s, d in _pats([cut, L - cut], seed):
            ops.append(f"R upd b {d}")
            sb.update(s)
        for o in [32, [0, 1, 63, 64, 65, 130, 257][i % 7]]:
            ops += [f"R fin a {o}", f"R fin b {o}"]
            sa.finalize(o)
            sb.finalize(o)
        out.append(Script(ops, tags=tuple(sorted(tags))))
    # 2. output lengths 0..300 on a few fixed states, several lengths per script
    states = [0, 1, 64, 65, 1024, 1025, 2048, 3 * CHUNK + 5, 7 * CHUNK, 8 * CHUNK + 1]
    o = 0
    while o <= 300 and len(out) < max(2, (n * 2) // 5):
        tags = {"outlens"}
        st = states[(o // 8) % len(states)]
        mode = _mode(rng, kinds[(o // 8) % 3], tags)
        sim = _Sim(tags)
        ops = [f"R new a {mode}", f"R upd a pat {st} {rng.randrange(1 << 32)}"]
        sim.update(st)
        for oo in range(o, min(o + 8, 301)):
            ops.append(f"R fin a {oo}")
            sim.finalize(oo)
        o += 8
        out.append(Script(ops, tags=tuple(sorted(tags)), nontrivial=st > CHUNK))
    # 3. random histories and twins
    while len(out) < n:
        x = rng.random()
        if x < 0.45:
            out.append(history(rng))
        elif x < 0.7:
            cls = rng.choice(SIZE_CLASSES)
            out.append(history(rng, total=size_of_class(cls, rng) + rng.choice([0, 0, 0, 1, 63, 64, 1023, 1024])))
        elif x < 0.95:
            out.append(twin(rng))
        else:
            # deep merges: a power-of-two number of chunks plus one byte forces the roll with k merges
            j = rng.choice([3, 4, 5, 6, 7])
            out.append(history(rng, total=(1 << j) * CHUNK + rng.choice([1, 2, 65, 1024, 1025]),
                               style=rng.choice(["one", "chunks", "blocks"]),
                               outs=[out_len(rng), rng.randrange(301, 5001)]))
    return out[:n]


def tag_histogram(scripts):
    h = {}
    for sc in scripts:
        for t in sc.tags:
            h[t] = h.get(t, 0) + 1
    return dict(sorted(h.items()))


if __name__ == "__main__":
    import random
    import sys
    n = int(sys.argv[1]) if len(sys.argv) > 1 else 3000
    seed = int(sys.argv[2]) if len(sys.argv) > 2 else 1
    scs = scripts_for_ref(random.Random(seed), n)
    if len(sys.argv) > 3 and sys.argv[3] == "tags":
        for k, v in tag_histogram(scs).items():
            print(f"{v:6d} {k}")
    else:
        for sc in scs:
            for op in sc.ops:
                print(op)
