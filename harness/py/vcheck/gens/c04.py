"""C04: results do not depend on SIMD level, build flavour or feature set"""
from ..core import Script, Rng
from ..stage import LineStage, replay_line
from .common import *
from . import c01, c02, c03, c09, c10

ARTEFACTS = ["G1-consts", "G2-rs-portable", "G3-arith", "G4-listings", "G9-update", "G22-dispatch", "G25-oneshot", "G8-chunkstate", "G35-build-rs", "G36-cfg-gates", "G38-rs-wasm32-simd", "G39-c-neon"]
EXTRA_PROPS = [("B3.Props.C01T", "B3/Props/C01T.lean"), ("B3.Props.C04T", "B3/Props/C04T.lean"), ("B3.Props.C01O", "B3/Props/C01O.lean"), ("B3.Props.C02T", "B3/Props/C02T.lean"), ("B3.Props.C04B", "B3/Props/C04B.lean"), ("B3.Simd.WasmProps", "B3/Simd/WasmProps.lean"), ("B3.Simd.CNeonProps", "B3/Simd/CNeonProps.lean")]   # theorems about the code translated from the sources
RULE = ("every script of the C01/C02/C03/C09 generators is replicated at each forced platform {portable, sse2, sse41, avx2, avx512} "
        "(hook: thread-local override in Platform::detect) and compared with the ONE Lean model (whose SIMD degree is a parameter) and "
        "the spec, which makes all levels equal to each other; the same scripts run against a `pure` build (Rust intrinsics, no "
        "assembly) in the quick tier (plus the deterministic ones against prefer_intrinsics = C intrinsics) and additionally prefer_intrinsics, no_avx512, no_avx2, no_sse41, no_sse2 builds in the thorough "
        "tier (stock feature flags cross-check the hook); feature sets: harness/rs enables std+rayon+mmap+zeroize+serde+traits-preview, "
        "a third build uses the ordinary release profile (no debug assertions / overflow checks) on the deterministic scripts; harness/rs_min builds the crate with default-features = false and nothing else and runs the same scripts (minus the platform "
        "hook); histories include re-use after reset and clone_from; non-trivial = script with >= 2 chunks of input; distinct = distinct script")
ASSUMPTIONS = ["NEON and wasm cannot run on this machine and are outside the property's list; their kernel files are nevertheless translated and proved equal to the specification over trusted lane models (G38, G39)",
               "feature sets between 'none' and 'all optional features' are not built separately (each optional feature only adds cfg-gated items; G4 lists them)"]
NOT_PROVED = []


def replicate(scripts):
    out = []
    for sc in scripts:
        body = [op for op in sc.ops if not op.startswith("P plat ")]
        for p in PLATFORMS:
            out.append(Script([f"P plat {p}"] + body, tags=(p,) + tuple(t for t in sc.tags if t not in PLATFORMS), nontrivial=sc.nontrivial))
    return out


def base_scripts(rng, k):
    out = []
    for n in [0, 1, 64, 1023, 1024, 1025, 2048, 2049, 3 * 1024, 4 * 1024 + 1, 5 * 1024, 8 * 1024, 8 * 1024 + 1, 9 * 1024,
              16 * 1024, 16 * 1024 + 1, 17 * 1024, 31 * 1024, 32 * 1024 + 5, 33 * 1024, 48 * 1024, 64 * 1024 + 1, 100 * 1024]:
        out.append(Script(["P plat portable", f"O hash {mode_tok(rng)} {pat(n, rng)}"], tags=("oneshot",), nontrivial=n > 1024))
    for i in range(k):
        out.append(c02.history(rng, "portable", rng.randrange(2, 14), 80 * 1024))
        out.append(c03.history(rng, "portable", rng.randrange(2, 12)))
        out.append(c09.decomp_script(rng, "portable", 100 * 1024))
        if i % 2 == 0:
            # re-use after reset / clone: the optional features (zeroize, traits) add code exactly on these paths
            out.append(c10.reset_script(rng, "portable"))
            out.append(cross_mode_clone_script(rng, "portable"))
    out += c03.boundary_grid(rng, "portable", 18)
    out += [sc for sc in c01.context_sequence_scripts(rng) if "portable" in sc.tags]
    return out


def stages(tier, seed, witness_search=False):
    rng = Rng(seed)
    k = 40 if tier == "quick" else 350
    if witness_search:
        k *= 3
    scripts = replicate(base_scripts(rng, k))
    st = [LineStage("default-build", scripts, normalize=norm_all), LineStage("pure-build", scripts, features=("pure",), normalize=norm_all)]
    if tier == "quick":
        # the C intrinsics build (third kernel family) on the deterministic part: one-shot lengths and the xof boundary grids
        det = [sc for sc in scripts if "oneshot" in sc.tags or "boundary-grid" in sc.tags or "context-sequence" in sc.tags]
        st.append(LineStage("prefer_intrinsics-build", det, features=("prefer_intrinsics",), normalize=norm_all))
    # the ordinary release profile (no debug assertions, no overflow checks) on the deterministic part: every forced platform
    det2 = [sc for sc in scripts if "oneshot" in sc.tags or "boundary-grid" in sc.tags or "context-sequence" in sc.tags]
    st.append(LineStage("no-debug-assertions-build", det2, normalize=norm_all, profile="relnd"))
    # the pure build compiled for this machine's own CPU (-C target-cpu=native): every cfg(target_feature = "...") arm the CPU
    # supports is compiled in, instead of the baseline x86-64 arms that all other builds take
    st.append(LineStage("pure-native-cpu-build", det2, features=("pure", "native"), normalize=norm_all))
    # the other end of the feature-set quantifier: the crate with default-features = false and no optional feature (harness/rs_min;
    # no platform hook there, so the `P plat` lines are dropped and the detected level is used), default and pure flavours
    seen, nodef = set(), []
    for sc in scripts:
        ops = [o for o in sc.ops if not o.startswith("P plat ")]
        if ops and "\n".join(ops) not in seen:
            seen.add("\n".join(ops))
            nodef.append(Script(ops, tags=sc.tags, nontrivial=sc.nontrivial))
    st.append(LineStage("no-default-features-build", nodef, impl="rs_min", normalize=norm_all))
    if tier == "thorough":
        st.append(LineStage("no-default-features-pure-build", nodef, impl="rs_min", features=("pure",), normalize=norm_all))
    # the optional mmap / rayon features only change how the bytes reach the hasher: the file entry points against plain update
    from . import c11
    st.append(c11.FileStage(seed + 13, fifo=False))
    if tier == "thorough":
        for f in ["prefer_intrinsics", "no_avx512", "no_avx2", "no_sse41", "no_sse2"]:
            st.append(LineStage(f + "-build", scripts, features=(f,), normalize=norm_all))
    return st


def replay(d, lean_exe):
    if d.get("stage") == "files":
        return dict(still_fails=False, note="file scripts use scratch paths; re-run the check with the same VERIF_SEED")
    feats = ()
    st = d.get("stage", "")
    if st == "no-debug-assertions-build":
        from ..stage import LineStage
        from .. import core
        ls = LineStage("replay", [Script(d.get("ops", []))], normalize=norm_all, max_minimise=0, profile="relnd")
        ok, exe, log = ls.build_impl()
        return dict(still_fails=bool(core.run_pair(ls.scripts, exe, lean_exe, "rs", norm_all)))
    if st.startswith("no-default-features"):
        return replay_line(d, lean_exe, impl="rs_min", features=("pure",) if "pure" in st else (), normalize=norm_all)
    if st == "pure-native-cpu-build":
        feats = ("pure", "native")
    elif st.endswith("-build") and st != "default-build":
        feats = (st[:-6],)
    return replay_line(d, lean_exe, features=feats, normalize=norm_all)
