"""C18: independent hashers are isolated: concurrent use from many threads is safe"""
import re
import subprocess

from .. import core
from ..core import Script, Rng
from .common import *
from . import c02, c03, c06

ARTEFACTS = ["G4-listings", "G22-dispatch"]
EXTRA_PROPS = [("B3.Props.C04T", "B3/Props/C04T.lean")]   # the dispatch functions as translated: the kernel chosen is a function of the feature mask alone
RULE = ("fresh processes in which 2..16 threads are released together by a barrier on their first-ever calls into the library (so "
        "CPU-feature detection itself races), each thread running its own C02/C03 history (Rust crate) or C06 history (C library) on "
        "its own instances (one third of the processes: staggered first calls; one third: hundreds of short calls per thread through "
        "every entry point with per-thread keys and contexts); every thread's outputs are compared with the model's sequential prediction for that thread's script (and "
        "the spec); plus a scan of the sources and of the C objects' symbol tables for writable globals other than the detection "
        "caches; non-trivial = every process run; distinct = distinct set of per-thread scripts")
ASSUMPTIONS = ["the schedules explored are the ones the OS scheduler produced in the processes run; the interleaving model proves the detection-cache protocol benign for all schedules",
               "std, cpufeatures and libc are trusted"]
NOT_PROVED = ["absence of data races in the real binaries: shown in the model for the modelled shared state (detection cache) only; TSan builds in the thorough tier support it"]


def strip_plat(sc):
    return [op for op in sc.ops if not op.startswith("P plat ") and not op.startswith("C feat ")]


class ThreadStage:
    def __init__(self, name, impl, procs, seed, exe_suffix=""):
        # exe_suffix: another build of the C driver (e.g. "_nd" = library compiled with -DNDEBUG -std=c99)
        self.name, self.impl, self.procs, self.seed, self.exe_suffix = name, impl, procs, seed, exe_suffix

    def run(self, lean_exe):
        rng = Rng(self.seed)
        if self.impl == "rs":
            ok, exe, log = core.build_rs(())
        else:
            ok, exe, log = core.build_c()
            exe = exe + self.exe_suffix
        if not ok:
            return dict(evaluations=0, distinct=set(), hist={}, samples=[], mismatches=[dict(kind="driver-crash", impl_name=self.impl, ops=[], log_tail=log[-2000:])])
        # what does detection give on this machine? (the model needs the SIMD degree)
        if self.impl == "rs":
            _, o, _ = core.run_driver(exe, ["H new a hash", "D dbg a"])
            m = re.search(r"platform:_(\w+?)_", o[1] if len(o) > 1 else "")
            plat = {"Portable": "portable", "SSE2": "sse2", "SSE41": "sse41", "AVX2": "avx2", "AVX512": "avx512"}.get(m.group(1) if m else "", "portable")
            pre = f"P plat {plat}"
        else:
            _, o, _ = core.run_driver(exe, ["C featmask"])
            deg = o[0].split(" ")[1] if o and len(o[0].split(" ")) > 1 else "1"
            pre = "C feat " + {"1": "portable", "4": "sse41", "8": "avx2", "16": "avx512"}.get(deg, "portable")
        mism, evals, distinct = [], 0, set()
        for p in range(self.procs):
            nthreads = rng.choice([2, 3, 4, 8, 16])
            secs = []
            staggered = (p % 4 == 1)
            hammer = (p % 4 == 2)
            size_race = (p % 4 == 3)
            if size_race:
                nthreads = 4
            for t in range(nthreads):
                if size_race:
                    # a fresh process in which most threads are inside medium-sized updates (17..127 KiB) while one thread makes the
                    # process's first large call: any process-wide state that depends on the SIZES seen so far shows here
                    big = rng.choice([128 * 1024, 256 * 1024, 1 << 20])
                    if t == 0:
                        ops = [("C init a hash", "H new a hash"), (f"C upd a {pat(rng.choice([1, 700]), rng)}", f"H upd a {pat(rng.choice([1, 700]), rng)}"),
                               ("C fin a 32", "H fin a")]
                        d = pat(big, rng)
                        ops += [("C init b hash", "H new b hash"), (f"C upd b {d}", f"H upd b {d}"), ("C fin b 32", "H fin b")]
                    else:
                        ops = []
                        for i in range(12):
                            d = pat(rng.choice([17, 32, 48, 64, 100, 127]) * 1024 + rng.choice([0, 1]), rng)
                            ops += [("C init a hash", "H new a hash"), (f"C upd a {d}", f"H upd a {d}"), ("C fin a 32", "H fin a")]
                    secs.append([o[0] if self.impl == "c" else o[1] for o in ops])
                    continue
                if hammer:
                    # many short calls through every entry point, each thread with its own key / context / input: maximises
                    # contention on any process-wide state keyed by API arguments (a memo of the last key, context, length...)
                    ctx = hexs(bytes(rng.randrange(32, 127) for _ in range(rng.choice([1, 8, 31, 64]))))
                    key = key_hex(rng)
                    sec = []
                    for i in range(250):
                        k = rng.choice([0, 1, 64, 65, 1024, 1025, 3000])
                        if self.impl == "rs":
                            sec.append(rng.choice([f"O hash derive {ctx} {pat(k, rng)}", f"O hash keyed {key} {pat(k, rng)}", f"O hash hash {pat(k, rng)}"]))
                            if i % 25 == 0:
                                sec += [f"H new a derive {ctx}", f"H upd a {pat(k, rng)}", "H fin a", "H reset a", f"H upd a {pat(7, rng)}", "H fin a"]
                        else:
                            sec += [f"C init a {rng.choice(['derive ' + ctx, 'keyed ' + key, 'hash'])}", f"C upd a {pat(k, rng)}", "C fin a 32"]
                    secs.append(sec)
                    continue
                if staggered:
                    # staggered first calls: the time spent generating the first input differs per thread, so one thread is
                    # deep inside a multi-chunk update while another is still inside feature detection
                    n = rng.choice([3 * 1024 + 1, 40 * 1024, 150 * 1024, 300 * 1024]) + 1024 * t * rng.randrange(0, 20)
                    if self.impl == "rs":
                        secs.append(["H new a hash", f"H upd a {pat(n, rng)}", "H fin a", f"H upd a {pat(5000, rng)}", "H fin a"])
                    else:
                        secs.append(["C init a hash", f"C upd a {pat(n, rng)}", "C fin a 32", f"C upd a {pat(5000, rng)}", "C fin a 32"])
                    continue
                if self.impl == "rs":
                    sc = c02.history(rng, "portable", rng.randrange(2, 12), 60 * 1024) if rng.random() < 0.6 else c03.history(rng, "portable", rng.randrange(2, 10))
                else:
                    sc = c06.history(rng, "portable", rng.randrange(2, 10), 60 * 1024)
                secs.append(strip_plat(sc))
            inp = "".join("#thread\n" + "\n".join(s) + "\n" for s in secs)
            try:
                pr = subprocess.run([exe, "--threads"], input=inp, stdout=subprocess.PIPE, stderr=subprocess.PIPE, text=True, timeout=300)
                out = pr.stdout.split("\n")
            except subprocess.TimeoutExpired:
                out = []
            got, cur = [], None
            for l in out:
                if l.strip() == "#thread":
                    cur = []
                    got.append(cur)
                elif cur is not None and (l != "" or len(cur) < len(secs[len(got) - 1])):
                    cur.append(l)
            distinct.add(inp)
            for t, s in enumerate(secs):
                evals += len(s)
                g = got[t][:len(s)] if t < len(got) else []
                sc = Script([pre] + s)
                _, lo, _ = core.run_driver(lean_exe, sc.ops)
                r = core.compare_outputs([sc], ["ok"] + [norm_all(op, o) for op, o in zip(s, g)], lo, self.impl + "-threads")
                if r and len(mism) < 5:
                    m = r[0]
                    mism.append(dict(kind=m.kind, impl_name=m.impl_name, ops=sc.ops, failing_op_index=m.index, impl_output=m.impl[:500],
                                     model_output=m.model[:500], spec_output=m.spec[:500], impl_differs=True, threads=nthreads, thread_index=t,
                                     note="output of one thread in a concurrent run differs from the sequential prediction; the other threads' scripts are in `all_sections`",
                                     all_sections=secs if len(inp) < 20000 else None))
        return dict(evaluations=evals, distinct=distinct, hist={"processes": self.procs}, samples=[secs[0][:8]] if self.procs else [], mismatches=mism)


class GlobalsStage:
    """writable globals: source scan (Rust) and symbol tables (C objects) - anything beyond the detection caches breaks the proviso"""
    name = "shared-state-scan"

    def run(self, lean_exe):
        import os
        mism = []
        found = []
        caches = []
        repo = core.REPO
        for rel in ["src/lib.rs", "src/platform.rs", "src/join.rs", "src/io.rs", "src/hazmat.rs", "src/traits.rs", "src/guts.rs", "src/portable.rs",
                    "src/ffi_sse2.rs", "src/ffi_sse41.rs", "src/ffi_avx2.rs", "src/ffi_avx512.rs", "src/rust_sse2.rs", "src/rust_sse41.rs", "src/rust_avx2.rs"]:
            try:
                text = open(os.path.join(repo, rel)).read()
            except OSError:
                continue
            # cfg(blake3_team_blake3_verif) blocks are the verification hooks themselves
            text = re.sub(r"#\[cfg\(blake3_team_blake3_verif\)\]\s*(pub\s+)?(mod|static|fn|impl|enum)[^\n]*\{.*?\n\}\n", "", text, flags=re.S)
            text = re.sub(r"#\[cfg\(blake3_team_blake3_verif\)\]\s*static[^;]*;", "", text, flags=re.S)
            # drop everything from the first verification-hook item to the end of its block (hooks are add-only, at the
            # end of items) - simpler and stricter: remove lines between a cfg(blake3_team_blake3_verif) attribute and the
            # closing brace at column 0
            text = re.sub(r"#\[cfg\(blake3_team_blake3_verif\)\][^\n]*\n(?:.*\n)*?\}\n", "", text)
            for m in re.finditer(r"^\s*(pub\s+)?(static\s+mut\s+\w+|static\s+\w+\s*:\s*[^=;]*(Atomic|Mutex|Cell|Once|Lazy)[^=;]*|(std::)?thread_local!)", text, flags=re.M):
                found.append(f"{rel}: {m.group(0).strip()[:80]}")
            self_caches = re.findall(r"cpufeatures::new!\((\w+)", text)
            for c in self_caches:
                caches.append(f"{rel}: cpufeatures::new!({c}, ...)  [detection cache]")
        ok, exe, _ = core.build_c()
        cobjs = []
        bdir = os.path.join(core.C_DIR, "build", "obj")
        for o in ["blake3.o", "blake3_dispatch.o", "blake3_portable.o"]:
            p = os.path.join(bdir, o)
            if os.path.exists(p):
                rc, out = core.run(["nm", p])
                for l in out.splitlines():
                    parts = l.split()
                    if len(parts) == 3 and parts[1] in "BbDdCc":
                        cobjs.append(f"{o}: {parts[2]} ({parts[1]})")
        allowed_c = {"g_cpu_features"}
        bad = [x for x in found] + [x for x in cobjs if x.split(": ")[1].split(" ")[0] not in allowed_c]
        if bad:
            mism.append(dict(kind="impl-vs-spec", impl_name="globals", ops=[], impl_differs=True,
                             note="writable shared state other than the feature-detection cache", found=bad))
        return dict(evaluations=len(found) + len(cobjs) + 1, distinct={"scan"}, hist={"rust-statics-outside-detection": len(found), "rust-detection-caches": len(caches), "c-writable-symbols": len(cobjs)},
                    samples=[cobjs[:5] + caches[:5]], mismatches=mism)


def stages(tier, seed, witness_search=False):
    procs = 30 if tier == "quick" else 400
    if witness_search:
        procs *= 3
    # hashers on mapped files driven from the workers of one rayon pool (the file stage's pool-workers script: every hasher
    # must finish, with the digest it yields alone)
    from . import c11
    return [ThreadStage("rs-threads", "rs", procs, seed), ThreadStage("c-threads", "c", procs, seed + 1),
            # the C library as a C99 release build (-DNDEBUG -std=c99: no _Thread_local, no C11 atomics, no assertions)
            ThreadStage("c-threads-ndebug-c99-build", "c", max(8, procs // 2), seed + 2, exe_suffix="_nd"), GlobalsStage(),
            c11.FileStage(seed + 17, fifo=False)]


def replay(d, lean_exe):
    from ..stage import replay_line
    if d.get("stage") == "files":
        return dict(still_fails=False, note="file scripts use scratch paths; re-run the check with the same VERIF_SEED")
    impl = "c" if d.get("impl_name", "").startswith("c") else "rs"
    return replay_line(d, lean_exe, impl=impl, normalize=norm_all)
