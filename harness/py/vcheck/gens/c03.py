"""C03: extended output is one coherent, seekable byte stream"""
from ..core import Script, Rng
from ..stage import LineStage, replay_line
from .common import *

ARTEFACTS = ["G1-consts", "G2-rs-portable", "G3b-regions", "G8-chunkstate", "G22-dispatch", "G4-listings"]
EXTRA_PROPS = [("B3.Props.Surface", "B3/Props/Surface.lean"), ("B3.Props.C02T", "B3/Props/C02T.lean"), ("B3.Props.CapT", "B3/Props/CapT.lean"), ("B3.Props.C04T", "B3/Props/C04T.lean")]   # theorems about the code translated from the sources
RULE = ("reader histories: a root state (chunk root or parent root, any mode, or merge_subtrees_root_xof) then 1-25 ops from "
        "{fill n, read n, setpos p, seek start/cur/end v, pos, clone}; positions from the boundary set {0,1,31,32,63,64,65, "
        "2^32*64 +- d, 2^38 +- d, 2^63, 2^64-1-k}; sizes {0..130, 1023..1025, 64j, 64j+-1, <= 40000}; reads keep p+n <= 2^64-1; "
        "default (assembly) and pure (Rust intrinsics) builds; inputs of the Rust harness end flush against an inaccessible page; non-trivial = at least one fill after a seek; distinct = distinct script")
ASSUMPTIONS = ["xof_many kernels satisfy the kernel contract (C05)"]
NOT_PROVED = []

M64 = (1 << 64) - 1


def positions(rng):
    base = [0, 1, 31, 32, 63, 64, 65, 127, 128, (1 << 32) * 64, (1 << 38), 1 << 37, 1 << 63, M64 - 1, M64 - 64, M64 - 200, M64]
    p = rng.choice(base) + rng.choice([0, 0, 1, -1, 63, 64, -64, -63, 17])
    return min(max(p, 0), M64)


def sizes(rng):
    x = rng.random()
    if x < 0.4:
        return rng.randrange(0, 131)
    if x < 0.5:
        return rng.choice([1023, 1024, 1025])
    if x < 0.8:
        return max(0, 64 * rng.randrange(1, 40) + rng.choice([-1, 0, 1]))
    return rng.randrange(0, 40000 if x > 0.97 else 3000)


def history(rng, plat, nops):
    ops = [f"P plat {plat}"]
    kind = rng.random()
    if kind < 0.75:
        n = rng.choice([0, 1, 64, 65, 1024, 1025, 2048, 5000, 70000]) if rng.random() < 0.7 else rng.randrange(0, 9000)
        ops += [f"H new h {mode_tok(rng)}", f"H upd h {pat(n, rng)}", "H xof h x"]
    else:
        ops += [f"Z merge rootxof {mode_tok(rng)} {key_hex(rng)} {key_hex(rng)} x"]
    pos = 0
    seeks = fills = 0
    readers = ["x"]
    pos_of = {"x": 0}
    for _ in range(nops):
        x = rng.choice(readers)
        pos = pos_of[x]
        r = rng.random()
        if r < 0.45:
            n = sizes(rng)
            if pos + n > M64:
                n = M64 - pos
            ops.append(f"X {'read' if rng.random() < 0.2 else 'fill'} {x} {n}")
            pos_of[x] = pos + n
            fills += seeks > 0
        elif r < 0.6:
            p = positions(rng)
            ops.append(f"X setpos {x} {p}")
            pos_of[x] = p
            seeks += 1
        elif r < 0.8:
            w = rng.choice(["start", "cur", "cur", "end"])
            if w == "start":
                v = positions(rng)
                pos_of[x] = min(v, M64)
            elif w == "cur":
                v = rng.choice([0, 1, -1, 64, -64, -pos, -pos - 1, M64 - pos, (1 << 63) - 1, -(1 << 63), rng.randrange(-5000, 5000)])
                v = max(min(v, (1 << 63) - 1), -(1 << 63))
                if pos + v >= 0:
                    pos_of[x] = min(pos + v, M64)
            else:
                v = rng.choice([0, -1, 1, -100])
            ops.append(f"X seek {x} {w} {v}")
            seeks += 1
        elif r < 0.86:
            # the provided methods of std::io::Seek (rewind = seek(Start(0)), stream_position = seek(Current(0)))
            if rng.random() < 0.6:
                ops.append(f"X rewind {x}")
                pos_of[x] = 0
            else:
                ops.append(f"X spos {x}")
            seeks += 1
        elif r < 0.92:
            ops.append(f"X pos {x}")
        elif len(readers) < 3:
            y = f"y{len(readers)}"
            ops.append(f"X clone {x} {y}")
            readers.append(y)
            pos_of[y] = pos
    for x in readers:
        ops.append(f"X pos {x}")
        n = min(70, M64 - pos_of[x])
        ops.append(f"X fill {x} {n}")
    return Script(ops, tags=(plat, "merge-root" if kind >= 0.75 else "hasher-root"), nontrivial=fills > 0)


def boundary_grid(rng, plat, nmax=24):
    """whole-block reads of n blocks starting j blocks before the 2^32-th block (byte 2^38), every 1 <= j <= n <= nmax, and
    the same around block 2^32 * 3 and block 2^31 (byte 2^37: the sign bit of the low counter word, which the SIMD kernels'
    compare-based carry has to get right); exercises every lane / tail position of xof_many at a counter carry"""
    out = []
    for base in [1 << 38, 3 << 38, 1 << 37]:
        ops = [f"P plat {plat}", f"H new h {mode_tok(rng)}", f"H upd h {pat(rng.choice([0, 1, 1025, 5000]), rng)}", "H xof h x"]
        for n in range(1, nmax + 1):
            for j in range(0, n + 1):
                ops += [f"X setpos x {base - 64 * j + rng.choice([0, 0, 0, 1, 63])}", f"X fill x {64 * n + rng.choice([0, 0, 1, 63])}"]
        out.append(Script(ops, tags=(plat, "boundary-grid")))
    return out


def normalize(op, out):
    # `X read` prints "<n> <hex>"; the model prints the bytes only (Read::read always fills the buffer)
    if op.startswith("X read "):
        parts = out.split(" ")
        want = op.split(" ")[3]
        if len(parts) == 2 and parts[0] == want:
            return parts[1]
        if len(parts) == 1 and want == "0" and parts[0] == "0":
            return ""
        return "short-read:" + out[:40]
    return out


def to_model(sc):
    return sc


def stages(tier, seed, witness_search=False):
    rng = Rng(seed)
    n = 1500 if tier == "quick" else 30000
    if witness_search:
        n *= 4
    scripts = [history(rng, PLATFORMS[i % 5], rng.randrange(1, 26)) for i in range(n)]
    for p in (PLATFORMS if tier != "quick" else ["avx512", "portable"]):
        scripts += boundary_grid(rng, p, 24 if tier == "quick" else 40)
    # the Lean driver knows `fill` only; `read` is the same model op
    # the extended output goes through compress_xof / xof_many of whichever kernel family the build mounts: the same histories
    # (a third of them in the quick tier) against the Rust-intrinsics build as well
    return [LineStage("readers", scripts, normalize=normalize),
            LineStage("readers-pure-build", scripts if tier != "quick" else scripts[::3], features=("pure",), normalize=normalize)]


def replay(d, lean_exe):
    return replay_line(d, lean_exe, features=("pure",) if d.get("stage") == "readers-pure-build" else (), normalize=normalize)
