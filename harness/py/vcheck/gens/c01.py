"""C01: one-shot hash / keyed_hash / derive_key compute the specification"""
from ..core import Script, Rng
from ..stage import LineStage, replay_line
from .common import *

ARTEFACTS = ["G1-consts", "G2-rs-portable", "G9-update", "G25-oneshot", "G24-portable-many", "G42-conversions"]
EXTRA_PROPS = [("B3.Props.C01V", "B3/Props/C01V.lean"), ("B3.Props.C01T", "B3/Props/C01T.lean"), ("B3.Props.C01O", "B3/Props/C01O.lean"), ("B3.Props.CapT", "B3/Props/CapT.lean")]   # theorems about the code translated from the sources
RULE = ("one op per case: `O hash <mode> pat <len> <seed>` at a forced platform; lengths: every length 0..N exhaustively, "
        "the +-1 lattice around multiples of 64/1024/2^k chunks/4-8-16*j chunks; modes hash/keyed(random key)/derive(contexts "
        "incl. empty, non-ASCII, >1 chunk); keys and inputs are handed over at odd addresses (offset 1..8 in an 8-aligned buffer); a second build in the ordinary release profile (no debug assertions, no overflow checks) runs the lattice, the context scripts and every 16th small length; non-trivial = input longer than one block; distinct = distinct op line")
ASSUMPTIONS = ["lengths above what the Lean driver can hold in memory (a few MiB) are covered by the theorem only",
               "SIMD kernels satisfy the kernel contract (C05)"]
NOT_PROVED = []


def context_sequence_scripts(rng):
    """several derive-key calls in a row on one thread with contexts that share a long prefix and have equal length (a result must
    not depend on an earlier call), through the one-shot function and through new_derive_key"""
    out = []
    for plen, total in [(64, 66), (64, 80), (100, 102), (128, 130), (1024, 1100), (70, 70 + 1)]:
        base = bytes(rng.randrange(32, 127) for _ in range(plen))
        ctxs = [base + bytes([65 + i]) * (total - plen) for i in range(3)]
        for p in ["portable", "avx512"]:
            ops = [f"P plat {p}"]
            for rep in range(2):
                for c in ctxs:
                    d = pat(rng.choice([0, 5, 1025]), rng)
                    ops.append(f"O hash derive {hexs(c)} {d}")
                for i, c in enumerate(ctxs):
                    ops += [f"H new h{i} derive {hexs(c)}", f"H upd h{i} {pat(10, rng)}", f"H fin h{i}"]
            out.append(Script(ops, tags=("context-sequence", p)))
    return out


def stages(tier, seed, witness_search=False):
    rng = Rng(seed)
    scripts = []
    small_max = 4200 if tier == "quick" else 9000
    if witness_search:
        small_max *= 2
    plats = PLATFORMS
    i = 0
    for n in range(0, small_max + 1):
        kind = ["hash", "keyed", "derive"][n % 3]
        p = plats[i % len(plats)]
        i += 1
        scripts.append(Script([f"P plat {p}", f"O hash {mode_tok(rng, kind)} {pat(n, rng)}"], tags=("small", kind, p), nontrivial=n > 64))
    max_chunks = 130 if tier == "quick" else 520
    for n in lattice_lengths(max_chunks):
        if n <= small_max and tier == "quick":
            continue
        for kind in (["hash", "keyed", "derive"] if tier != "quick" else [rng.choice(["hash", "keyed", "derive"])]):
            p = plats[i % len(plats)]
            i += 1
            scripts.append(Script([f"P plat {p}", f"O hash {mode_tok(rng, kind)} {pat(n, rng)}"], tags=("lattice", kind, p)))
    # contexts x a few lengths x all platforms
    for ctx in CONTEXTS:
        for n in [0, 1, 1024, 1025, 5000]:
            for p in plats:
                scripts.append(Script([f"P plat {p}", f"O hash derive {hexs(ctx)} {pat(n, rng)}"], tags=("contexts", p)))
    scripts += context_sequence_scripts(rng)
    if tier == "thorough":
        for p in plats:
            for e in range(11, 12):
                n = (1 << e) * 1024
                for d in (-1, 0, 1):
                    scripts.append(Script([f"P plat {p}", f"O hash {mode_tok(rng)} {pat(n + d, rng)}"], tags=("big", p)))
    # the ordinary release profile (no debug assertions, no overflow checks): anything evaluated only inside a debug_assert!
    # disappears there.  The lattice, the context scripts and every 16th small length, at every forced platform.
    rel = [sc for k, sc in enumerate(scripts) if "small" not in sc.tags or k % 16 == 0]
    return [LineStage("oneshot", scripts), LineStage("oneshot-no-debug-assertions", rel, profile="relnd")]


def replay(d, lean_exe):
    if d.get("stage") == "oneshot-no-debug-assertions":
        from .. import core
        ls = LineStage("replay", [Script(d.get("ops", []))], max_minimise=0, profile="relnd")
        ok, exe, log = ls.build_impl()
        return dict(still_fails=bool(core.run_pair(ls.scripts, exe, lean_exe, "rs", None)))
    return replay_line(d, lean_exe)
