"""C11: reader, mmap and Write adapters hash exactly the bytes of their source"""
import os
import shutil
import tempfile

from .. import core
from ..core import Script, Rng
from ..stage import LineStage, replay_line
from . import io_gen

ARTEFACTS = ["G4-listings", "G1-consts", "G12-io"]
EXTRA_PROPS = [("B3.Props.Surface", "B3/Props/Surface.lean"), ("B3.Props.C11T", "B3/Props/C11T.lean")]   # theorems about the code translated from the sources
PROPS_MODULE = "B3.Io.Props"
PROPS_PATH = "B3/Io/Props.lean"
RULE = ("(1) scripted readers through update_reader: ALL event sequences up to length 3 (quick) / 4 (thorough; lengths 5 and 6 were run once: 137k scripts) over {data 1, data 65536, "
        "data 70000 (split delivery), data short, interrupted, fail, eof}, plus random longer ones crossing 1024-byte and 64 KiB "
        "boundaries, short-read events and distinct error kinds; result, read calls, events consumed, count() and finalize() compared "
        "with the model (copy_wide over the event list feeding the hasher model) and the spec hash of the bytes yielded before the first "
        "fail/eof; (2) real files of every length 16380..16390, 0, 1, 65535..65537, 1 MiB and special files (/proc, /dev/null, a "
        "directory, a missing path, FIFOs) through update_mmap / update_mmap_rayon / update_reader, compared with plain update of the "
        "same bytes; (3) Write::write and Write::write_vectored (slice shapes mixing short, chunk-sized and long slices, repeated until all is accepted); non-trivial = script with at least one data event; distinct = distinct script")
ASSUMPTIONS = ["RegularFile / FaithfulReads (B3/Io/Model.lean): lseek(End(-16383)) fails for L < 16383, returns L-16383 otherwise; reads return the file's bytes",
               "a file modified while it is mapped or read is out of scope"]
NOT_PROVED = ["OS and memmap2 behaviour on real files is observed (strace-validated by the builder), not proved"]


def to_script(s):
    sc = Script(list(s), tags=tuple(t for t in s.tags if isinstance(t, str))[:3], nontrivial=getattr(s, "nontrivial", True))
    sc.io = s
    return sc


class FileStage:
    """file / mmap scripts: implementation only, checked against its own plain-update registers"""
    name = "files"

    def __init__(self, rng_seed, fifo):
        self.seed = rng_seed
        self.fifo = fifo

    def run(self, lean_exe):
        ok, exe, log = core.build_rs(())
        if not ok:
            return dict(evaluations=0, distinct=set(), hist={}, samples=[], mismatches=[dict(kind="driver-crash", impl_name="rs", ops=[], log_tail=log[-2000:])])
        tmp = tempfile.mkdtemp(prefix="verif_c11_")
        mism = []
        try:
            rng = Rng(self.seed)
            scripts = io_gen.file_scripts(rng, tmp, self.fifo)
            n = 0
            for s in scripts:
                threads = io_gen.start_fifo_writers(s) if getattr(s, "fifos", None) else []
                rc, outs, err = core.run_driver(exe, list(s), timeout=120)
                for t in threads:
                    t.join(timeout=10)
                n += len(s)
                bad = io_gen.check_outputs(s, outs)
                if bad and len(mism) < 5:
                    mism.append(dict(kind="impl-vs-spec", impl_name="rs", ops=list(s), complaints=bad[:5], impl_differs=True,
                                     note="paths are under a scratch directory that is removed after the run; regenerate with the same seed"))
            return dict(evaluations=n, distinct={s.key() for s in scripts}, hist={"file-scripts": len(scripts)},
                        samples=[list(scripts[0])[:8]], mismatches=mism)
        finally:
            shutil.rmtree(tmp, ignore_errors=True)


def stages(tier, seed, witness_search=False):
    rng = Rng(seed)
    exh = 3 if tier == "quick" else 4
    n = 150 if tier == "quick" else 3000
    if witness_search:
        n *= 3
    scripts = io_gen.exhaustive_reader_scripts(rng, exh, True) + [io_gen.random_reader_script(rng, True) for _ in range(n)]
    scripts += [io_gen.write_script(rng, k) for k in (0, 1, 64, 1024, 70000)]
    scripts += [io_gen.writev_script(rng, sh) for sh in ([16, 4096], [1, 1, 1, 2000], [1024, 1], [1023, 1025], [0, 5, 0, 1024, 7])]
    scripts += [io_gen.writev_script(rng) for _ in range(20 if tier == "quick" else 400)]
    return [LineStage("readers", [to_script(s) for s in scripts]), FileStage(seed, fifo=True)]


def replay(d, lean_exe):
    if d.get("stage") == "files":
        return dict(still_fails=False, note="file scripts use scratch paths; re-run the check with the same VERIF_SEED")
    return replay_line(d, lean_exe)
