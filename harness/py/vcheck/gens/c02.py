"""C02: incremental hashing is independent of input splitting; finalize is a pure query"""
from ..core import Script, Rng
from ..stage import LineStage, replay_line
from .common import *

ARTEFACTS = ["G1-consts", "G4-listings", "G2-rs-portable", "G3b-regions", "G3-arith", "G6-skeleton", "G8-chunkstate", "G9-update"]
EXTRA_PROPS = [("B3.Props.Surface", "B3/Props/Surface.lean"), ("B3.Props.C10", "B3/Props/C10.lean"), ("B3.Props.C02T", "B3/Props/C02T.lean"), ("B3.Props.C01T", "B3/Props/C01T.lean"), ("B3.Props.CapT", "B3/Props/CapT.lean")]   # theorems about the code translated from the sources
RULE = ("op histories of 1-40 ops over up to 4 registers: new(mode), upd/updw/updwv = write_vectored(size class), clone, clone_from into a hasher of another key or mode, fin, xof+fill, cnt, "
        "(updates through update, Write::write, update_reader over scripted readers incl. short reads, update_rayon, the scripted join) at a forced platform; an exhaustive grid prefix p in 0..17 chunks x batch in 1..40 chunks (shrink loop) plus partial-chunk "
        "prefixes; non-trivial = at least one update after another update or a clone; distinct = distinct script text")
ASSUMPTIONS = ["update_rayon / update_mmap* / update_reader reduce to update (C08, C11)"]
NOT_PROVED = []


def history(rng, plat, nops, big):
    ops = [f"P plat {plat}"]
    regs = []
    tags = set()
    upd_count = 0
    for _ in range(nops):
        if not regs or (rng.random() < 0.08 and len(regs) < 4):
            r = f"r{len(regs)}"
            ops.append(f"H new {r} {mode_tok(rng)}")
            regs.append(r)
            continue
        r = rng.choice(regs)
        x = rng.random()
        if x < 0.55:
            cls = rng.choice(SIZE_CLASSES)
            n = size_of_class(cls, rng, big)
            how = rng.random()
            if how < 0.70:
                ops.append(f"H upd {r} {pat(n, rng)}")
            elif how < 0.75:
                ops.append(f"H updw {r} {pat(n, rng)}")
            elif how < 0.78:
                ops.append(f"H updwv {r} {','.join(str(rng.choice([0, 1, 16, 64, 1000, 1024, 1025, 4096])) for _ in range(rng.randrange(1, 5)))} {pat(n, rng)}")
            elif how < 0.90:
                # update_reader over a scripted reader: the same bytes as one event, as short reads, or in two pieces with an
                # Interrupted in between
                sd_ = rng.randrange(1 << 32)
                style = rng.choice(["one", "short", "two"])
                if style == "one" or n < 2:
                    ops.append(f"H updrd {r} d{n}:{sd_}")
                elif style == "short":
                    ops.append(f"H updrd {r} s{n}:{sd_}:{rng.choice([1, 7, 64, 1000, 4096, 65535])}" if n <= 40000 else f"H updrd {r} s{n}:{sd_}:{rng.choice([4096, 65535])}")
                else:
                    ops.append(f"H updrd {r} d{n}:{sd_} i d{rng.choice([1, 1024, 5000])}:{rng.randrange(1 << 32)} z")
                tags.add("update_reader")
            elif how < 0.95:
                ops.append(f"H updray {r} {rng.choice([1, 2, 4, 16])} {pat(n, rng)}")
                tags.add("update_rayon")
            else:
                ops.append(f"H updsj {r} {''.join(rng.choice('012') for _ in range(3))} {pat(n, rng)}")
                tags.add("scripted_join")
            tags.add(cls)
            upd_count += 1
        elif x < 0.70:
            ops.append(f"H fin {r}")
        elif x < 0.78:
            ops.append(f"H cnt {r}")
        elif x < 0.88:
            ops.append(f"H xof {r} x0")
            ops.append(f"X fill x0 {rng.choice([0, 1, 32, 64, 65, 131, 200])}")
        elif len(regs) < 4:
            r2 = f"r{len(regs)}"
            ops.append(f"H clone {r} {r2}")
            regs.append(r2)
            tags.add("clone")
        else:
            ops.append(f"H fin {r}")
    for r in regs:
        ops.append(f"H cnt {r}")
        ops.append(f"H fin {r}")
    return Script(ops, tags=tuple(sorted(tags)) + (plat,), nontrivial=upd_count >= 2)


def normalize(op, out):
    import re
    if op.startswith("H updsj ") and re.match(r"^ok \d+$", out):
        return "ok"
    return out


def stages(tier, seed, witness_search=False):
    rng = Rng(seed)
    scripts = []
    nhist = 400 if tier == "quick" else 6000
    if witness_search:
        nhist *= 5
    big = 120 * 1024 if tier == "quick" else 300 * 1024
    for i in range(nhist):
        scripts.append(history(rng, PLATFORMS[i % 5], rng.randrange(1, 41 if tier != "quick" else 25), big))
    scripts += [cross_mode_clone_script(rng, PLATFORMS[i % 5]) for i in range(40 if tier == "quick" else 600)]
    # several derive-key hashers in a row on one thread with contexts that share a long prefix (a Hasher must not depend on earlier ones)
    from . import c01
    scripts += c01.context_sequence_scripts(rng)
    # large first updates through the multithreaded entry point, then more input (state after update_rayon must be update's)
    for n in ([200 * 1024, 1000000, 133 * 1024 + 1] if tier == "quick" else [200 * 1024, 1000000, 133 * 1024 + 1, 3 * 1024 * 1024 + 5, 2 ** 21]):
        for plat in ["avx512", "portable"]:
            scripts.append(Script([f"P plat {plat}", f"H new a {mode_tok(rng)}", f"H updray a {rng.choice([2, 8])} {pat(n, rng)}", "H cnt a",
                                   f"H upd a {pat(rng.choice([1, 1024, 70000]), rng)}", "H cnt a", "H fin a", "H xof a x", "X fill x 64"],
                                  tags=("rayon-large", plat)))
    # exhaustive grid for the shrink loop: prefix chunks x batch chunks (+ odd byte prefixes)
    pmax, bmax = (18, 41) if tier != "quick" else (10, 21)
    for p in range(0, pmax):
        for b in range(1, bmax):
            plat = PLATFORMS[(p + b) % 5]
            extra = rng.choice([0, 0, 1, 1023, 512])
            ops = [f"P plat {plat}", "H new a " + mode_tok(rng)]
            if p or extra:
                ops.append(f"H upd a {pat(p * 1024 + extra, rng)}")
            ops += [f"H upd a {pat(b * 1024 + rng.choice([0, 0, 1, -1]), rng)}", "H cnt a", "H fin a",
                    f"H upd a {pat(rng.choice([0, 1, 1024, 3000]), rng)}", "H fin a", "H xof a x", "X fill x 96"]
            scripts.append(Script(ops, tags=("grid", plat)))
    from . import c11, c08
    scripts += c08.rayon_tail_scripts(rng, 40 if tier == "quick" else 600)
    # the file entry points (update_mmap, update_mmap_rayon, update_reader on real files incl. unmappable ones) against plain update
    return [LineStage("histories", scripts, normalize=normalize), c11.FileStage(seed + 11, fifo=False)]


def replay(d, lean_exe):
    if d.get("stage") == "files":
        return dict(still_fails=False, note="file scripts use scratch paths; re-run the check with the same VERIF_SEED")
    return replay_line(d, lean_exe, normalize=normalize)
