"""C14: Hash values convert losslessly and compare by content"""
from ..core import Script, Rng
from ..stage import LineStage, replay_line
from . import hex_gen

ARTEFACTS = ["G4-listings", "G10-hash"]
EXTRA_PROPS = [("B3.Props.Surface", "B3/Props/Surface.lean"), ("B3.Props.C14T", "B3/Props/C14T.lean")]   # theorems about the code translated from the sources
PROPS_MODULE = "B3.Hex.Props"
PROPS_PATH = "B3/Hex/Props.lean"
RULE = ("E ops on the real Hash API: every byte value at every position of a hash (to_hex/Display/array round trips), Display under 17 formatter settings (width, fill, alignment, precision, sign, alternate, to_string), every byte value "
        "at every position of an otherwise valid 64-character hex string (from_hex; every ASCII byte at every position through FromStr; error kinds included), lengths 0..130, "
        "upper/lower/mixed case, all 256 single-bit flips for the three PartialEq impls plus slices of length 0..64, from_slice lengths "
        "0..64, serde_json and ciborium encodings (sequence form, legacy byte-string form, mutated encodings through the decoders); "
        "non-trivial = every line; distinct = distinct op line")
ASSUMPTIONS = ["constant_time_eq, serde_json and ciborium are modelled from their documented behaviour and checked by correspondence"]
NOT_PROVED = []


def stages(tier, seed, witness_search=False):
    rng = Rng(seed)
    n = 60000 if tier == "quick" else 600000
    if witness_search:
        n *= 3
    lines = hex_gen.lines_for_c14(rng, n)
    return [LineStage("conversions", [Script([l], tags=(" ".join(l.split(" ")[:2]),)) for l in lines])]


def replay(d, lean_exe):
    return replay_line(d, lean_exe)
