"""C06: the C library computes the same function as the specification and the crate"""
from ..core import Script, Rng
from ..stage import LineStage, replay_line
from .common import *

ARTEFACTS = ["G1-consts", "G2-rs-portable", "G3-arith", "G3b-regions", "G14-c-state", "G4-listings", "G23-c-wide", "G24-portable-many", "G22-dispatch"]
EXTRA_PROPS = [("B3.Props.C06T", "B3/Props/C06T.lean"), ("B3.Props.C18", "B3/Props/C18.lean"), ("B3.Props.C06W", "B3/Props/C06W.lean"), ("B3.Props.C04T", "B3/Props/C04T.lean")]   # theorems about the code translated from the sources
RULE = ("C API histories under every g_cpu_features level: init / init_keyed / init_derive_key / init_derive_key_raw (contexts with "
        "embedded NULs for raw), update splits from the C02 size classes, finalize(out_len) and finalize_seek(seek, out_len) with seeks "
        "from the C03 boundary set and out_len in {0..130, 64j+-1, <=5000}, reset, clone, samelive (finalize leaves the hasher "
        "unchanged; reset == fresh init; the two derive-key initialisers agree); outputs flush against guard pages; round_down_to_power_of_2 and popcnt of blake3_impl.h at every 2^k-1, 2^k, 2^k+1 (k < 64); "
        "three builds of the library: assembly dispatch, C intrinsics dispatch, SSE2-only (-DBLAKE3_NO_SSE41 -DBLAKE3_NO_AVX2 -DBLAKE3_NO_AVX512); non-trivial = at least two updates or a seek; distinct = distinct script")
ASSUMPTIONS = ["SIMD kernels satisfy the kernel contract (C05); the dispatcher selects among them by g_cpu_features (forced by the harness)"]
NOT_PROVED = []
M64 = (1 << 64) - 1


def seeks(rng):
    base = [0, 1, 31, 32, 63, 64, 65, 127, 128, (1 << 32) * 64, 1 << 38, 1 << 63, M64 - 5000, M64 - 64]
    return max(0, min(M64, rng.choice(base) + rng.choice([0, 0, 1, -1, 63, 64, -64, 17])))


def outlens(rng):
    x = rng.random()
    if x < 0.45:
        return rng.randrange(0, 131)
    if x < 0.85:
        return max(0, 64 * rng.randrange(1, 30) + rng.choice([-1, 0, 1]))
    return rng.randrange(0, 5000)


def history(rng, feat, nops, big):
    ops = [f"C feat {feat}"]
    kind = rng.choice(["hash", "keyed", "derive", "raw"])
    if kind == "raw":
        ctx = bytes(rng.choice([0, 0, 65, 66, 255, rng.randrange(256)]) for _ in range(rng.choice([0, 1, 5, 64, 65, 1100])))
        ops.append(f"C initraw a {hexs(ctx)}")
    elif kind == "derive":
        ctx = rng.choice([c for c in CONTEXTS if b"\x00" not in c])
        ops.append(f"C init a derive {hexs(ctx)}")
        ops.append(f"C initraw z {hexs(ctx)}")
        ops.append("C samelive a z")
    else:
        ops.append(f"C init a {mode_tok(rng, kind)}")
    regs = ["a"]
    upd = sk = 0
    tags = {feat, kind}
    for _ in range(nops):
        r = rng.choice(regs)
        x = rng.random()
        if x < 0.5:
            cls = rng.choice(SIZE_CLASSES)
            ops.append(f"C upd {r} {pat(size_of_class(cls, rng, big), rng)}")
            upd += 1
            tags.add(cls)
        elif x < 0.65:
            ops.append(f"C fin {r} {outlens(rng)}")
        elif x < 0.83:
            s = seeks(rng)
            n = min(outlens(rng), M64 - s)
            ops.append(f"C finseek {r} {s} {n}")
            sk += 1
        elif x < 0.9:
            ops += [f"C clone {r} t", f"C fin {r} 64", f"C samelive {r} t"]
        elif x < 0.95 and len(regs) < 3:
            r2 = "b" if "b" not in regs else "c"
            ops.append(f"C clone {r} {r2}")
            regs.append(r2)
        else:
            ops.append(f"C reset {r}")
            tags.add("reset")
    for r in regs:
        ops += [f"C fin {r} 32", f"C finseek {r} 33 70"]
    return Script(ops, tags=tuple(sorted(tags)), nontrivial=upd >= 2 or sk > 0)


def null_update_scripts(rng):
    """the documented empty call update(NULL, 0) in every position of a short history (fresh, mid-block, after a whole chunk)"""
    out = []
    for feat in ("avx512", "portable"):
        for pre in (0, 1, 64, 65, 1024, 2048):
            ops = [f"C feat {feat}", f"C init a {mode_tok(rng)}", "C updnull a"]
            if pre:
                ops += [f"C upd a {pat(pre, rng)}", "C updnull a"]
            ops += ["C fin a 32", f"C upd a {pat(3, rng)}", "C updnull a", "C fin a 40"]
            out.append(Script(ops, tags=("null-empty-update", feat)))
    return out


def stages(tier, seed, witness_search=False):
    rng = Rng(seed)
    n = 300 if tier == "quick" else 6000
    if witness_search:
        n *= 4
    big = 100 * 1024 if tier == "quick" else 300 * 1024
    scripts = [history(rng, PLATFORMS[i % 5], rng.randrange(1, 20), big) for i in range(n)]
    # grid for the shrink loop in blake3_hasher_update
    pmax, bmax = (8, 18) if tier == "quick" else (18, 41)
    for p in range(pmax):
        for b in range(1, bmax):
            feat = PLATFORMS[(p + b) % 5]
            ops = [f"C feat {feat}", f"C init a {mode_tok(rng, rng.choice(['hash', 'keyed']))}"]
            if p:
                ops.append(f"C upd a {pat(p * 1024 + rng.choice([0, 0, 1, 1023]), rng)}")
            ops += [f"C upd a {pat(b * 1024 + rng.choice([0, 1, -1]), rng)}", "C fin a 32", f"C upd a {pat(rng.choice([0, 1, 2048]), rng)}",
                    "C finseek a 60 140"]
            scripts.append(Script(ops, tags=("grid", feat)))
    # seeks at the counter boundaries of the wide xof kernels (16-, 8-, 4-, 2-block groups and the single-block tail), where the
    # high counter word changes inside one call: 2^38 bytes = block 2^32, and 2^37 = bit 31 of the low word
    for base in [1 << 38, 1 << 37, 3 << 38]:
        for feat in PLATFORMS:
            ops = [f"C feat {feat}", f"C init a {mode_tok(rng, 'hash')}", f"C upd a {pat(rng.choice([0, 3, 1025]), rng)}"]
            for back in [0, 1, 2, 3, 5, 9, 17, 40]:
                ops.append(f"C finseek a {base - 64 * back + rng.choice([0, 0, 7])} {rng.choice([64 * back + 64, 1100, 2048 + 65, 130])}")
            scripts.append(Script(ops, tags=("seek-boundary", feat)))
    # the arithmetic helpers of blake3_impl.h on the whole 64-bit domain (an update of >= 2^33 bytes in one call is the only way the
    # API reaches the upper half): every 2^k - 1, 2^k, 2^k + 1 and random values
    xs = {0, 1, 2, 3, (1 << 64) - 1}
    for k in range(1, 64):
        xs |= {(1 << k) - 1, 1 << k, (1 << k) + 1, (1 << k) + rng.randrange(1 << k)}
    ar = []
    for x in sorted(xs):
        ar += [f"C rdp2 {x}", f"C popcnt {x}"]
    scripts.append(Script(ar, tags=("arith-helpers",)))
    scripts += null_update_scripts(rng)
    return [LineStage("c-api", scripts, impl="c"),
            # the same histories against the library built with the C intrinsics kernels behind the dispatcher
            LineStage("c-api-intrinsics", scripts, impl="c_ci"),
            # the library compiled as an SSE2-only build (BLAKE3_NO_SSE41 / NO_AVX2 / NO_AVX512): widest SIMD degree 4
            LineStage("c-api-sse2-only-build", scripts[::2], impl="c_s2"),
            # the library compiled with -DNDEBUG -std=c99 (what a release build of a C project passes): assertions expand to nothing
            LineStage("c-api-ndebug-c99-build", scripts[1::2], impl="c_nd")]


def replay(d, lean_exe):
    if d.get("stage") == "c-api-ndebug-c99-build":
        return replay_line(d, lean_exe, impl="c_nd")
    if d.get("stage") == "c-api-sse2-only-build":
        return replay_line(d, lean_exe, impl="c_s2")
    return replay_line(d, lean_exe, impl="c_ci" if d.get("stage") == "c-api-intrinsics" else "c")
