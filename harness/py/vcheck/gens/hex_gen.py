"""C14 (Hash conversions and comparisons): generator for the `E ...` ops of the line protocol.

Standard library only.  Entry point:

  lines_for_c14(rng, n) -> list of op lines for /verif/harness/rs (b3-verif-harness, `conv_step`) and
                           the Lean driver (B3.Hex.stepLine); the two outputs must be identical.

The exhaustive blocks are always present (about 46k lines); random ops fill up to `n` lines.

  tohex/arr/dbg   every byte value at every position of a hash (32 x 256), on two backgrounds
  fromhex         every byte value at every position of an otherwise valid 64-char string (64 x 256), on a
                  lowercase, an uppercase and a mixed-case background; every length 0..130 (valid digits,
                  and with an invalid byte first / last); two invalid bytes (which one is reported)
  fromstr         valid strings in each case, multi-byte UTF-8 of total byte length 64, invalid UTF-8 (bad-op)
  eq              all 256 single-bit flips against a 32-byte slice (slice, array and hash forms), the same
                  with one byte replaced by every value, slices of every length 0..64 (prefixes, prefixes of
                  an unrelated string, extensions)
  fromslice       every length 0..64
  json/cbor       boundary values (0, 9, 10, 23, 24, 99, 100, 255 at every position) and random values
  jsondec/cbordec the decoders on mutated encodings (single byte substitutions / deletions / insertions,
                  whitespace, alternative integer widths, indefinite lengths, tags, bignums, segmented and
                  over-long byte strings, truncations)
"""

HEXL = "0123456789abcdef"
HEXU = "0123456789ABCDEF"


def hx(b):
    b = bytes(b)
    return b.hex() if b else "-"


def rand_hash(rng):
    return bytes(rng.randrange(256) for _ in range(32))


def _hexstr(rng, case):
    """64 valid hex digits as bytes; case: lower / upper / mixed"""
    out = bytearray()
    for _ in range(64):
        v = rng.randrange(16)
        if case == "lower":
            c = HEXL[v]
        elif case == "upper":
            c = HEXU[v]
        else:
            c = rng.choice((HEXL, HEXU))[v]
        out.append(ord(c))
    return bytes(out)


# ---------------------------------------------------------------------------------------------
# CBOR / JSON builders for the decoder ops

def cbor_head(major, n, width=None):
    """header with the argument in the shortest form, or forced to `width` argument bytes (0 = immediate)"""
    if width is None:
        width = 0 if n < 24 else 1 if n < 256 else 2 if n < 65536 else 4 if n < (1 << 32) else 8
    if width == 0:
        assert n < 24
        return bytes([major * 32 + n])
    ai = {1: 24, 2: 25, 4: 26, 8: 27}[width]
    return bytes([major * 32 + ai]) + n.to_bytes(width, "big")


def cbor_seq(h):
    return cbor_head(4, 32) + b"".join(cbor_head(0, b) for b in h)


def cbor_legacy(h):
    return cbor_head(2, 32) + bytes(h)


def json_seq(h):
    return ("[" + ",".join(str(b) for b in h) + "]").encode()


def cbor_variants(rng, h):
    """structured variations of the encodings of h; both accepted and rejected ones"""
    out = []
    items = [cbor_head(0, b) for b in h]
    body = b"".join(items)
    # array header widths, indefinite array, tags in front
    for w in (1, 2, 4, 8):
        out.append(cbor_head(4, 32, w) + body)
    out.append(b"\x9f" + body + b"\xff")
    out.append(b"\x9f" + body)                      # no break: 32 elements were read, accepted
    out.append(b"\x9f" + body[:-1] + b"\xff")
    out.append(b"\x9f" + b"".join(items[:31]) + b"\xff")
    for tag in (0, 1, 2, 3, 23, 24, 55799, 1 << 40):
        out.append(cbor_head(6, tag) + cbor_seq(h))
        out.append(cbor_head(6, tag) + cbor_legacy(h))
    out.append(cbor_head(6, 5) + cbor_head(6, 6) + cbor_seq(h))
    # wrong lengths
    for ln in (0, 1, 31, 33, 34, 64, 1 << 16, 1 << 32, (1 << 64) - 1):
        out.append(cbor_head(4, ln) + body)
        out.append(cbor_head(4, ln) + body + bytes([0]) * 3)
    # wrong major types with the same argument
    for major in (0, 1, 3, 5, 7):
        out.append(cbor_head(major, 32) + body)
    # element encodings: widths, negatives, bignums, tags on elements, floats, simple values, nested
    k = rng.randrange(32)
    for alt in (cbor_head(0, h[k], 1), cbor_head(0, h[k], 2), cbor_head(0, h[k], 4), cbor_head(0, h[k], 8),
                cbor_head(0, 255), cbor_head(0, 256), cbor_head(0, 65535), cbor_head(0, 1 << 32), cbor_head(0, (1 << 64) - 1),
                cbor_head(1, h[k]), cbor_head(1, 0),
                b"\xc2\x41" + bytes([h[k]]), b"\xc2\x40", b"\xc2\x43\x00\x00" + bytes([h[k]]), b"\xc2\x42\x01\x00",
                b"\xc2\x50" + bytes(15) + bytes([h[k]]), b"\xc2\x51" + bytes(16) + bytes([h[k]]),
                b"\xc2\x51\x01" + bytes(16), b"\xc2\x52" + bytes(2) + bytes(15) + bytes([7]),
                b"\xc3\x41" + bytes([h[k]]), b"\xc3\x40",
                b"\xc2\x5f\x41" + bytes([h[k]]) + b"\xff", b"\xc2\x5f\x40\x41" + bytes([h[k]]) + b"\x40\xff",
                b"\xc2\x5f\x5f\x41" + bytes([h[k]]) + b"\xff\xff", b"\xc2\x5f\xff", b"\xc2\xff", b"\xc2\x5f\x00\xff",
                b"\xc2" + bytes([h[k]]), b"\xc2\x61\x30", b"\xc2\xc2\x41\x05", b"\xc2\xc5\x41\x05",
                b"\xc5" + cbor_head(0, h[k]), b"\xc5\xc6\xd8\x20" + cbor_head(0, h[k]), b"\xc5\xc2\x41" + bytes([h[k]]),
                b"\xf9\x3c\x00", b"\xfa\x3f\x80\x00\x00", b"\xfb" + bytes(8), b"\xf4", b"\xf5", b"\xf6", b"\xf7", b"\xf8\x20",
                b"\x81" + cbor_head(0, h[k]), b"\x41" + bytes([h[k]]), b"\x61\x30", b"\xa0", b"\xff",
                b"\x1c", b"\x1d", b"\x1e", b"\x1f", b"\x18", b"\x19\x00"):
            out.append(cbor_head(4, 32) + b"".join(items[:k]) + alt + b"".join(items[k + 1:]))
            out.append(b"\x9f" + b"".join(items[:k]) + alt + b"".join(items[k + 1:]) + b"\xff")
    # byte-string forms
    hb = bytes(h)
    for w in (1, 2, 4, 8):
        out.append(cbor_head(2, 32, w) + hb)
    for ln in (0, 1, 23, 24, 31, 33, 40, 64, 256, 1 << 16, (1 << 64) - 1):
        out.append(cbor_head(2, ln) + hb)
        out.append(cbor_head(2, ln) + hb + hb)
        out.append(cbor_head(2, ln) + (hb * 10)[:ln] if ln < 1000 else cbor_head(2, ln) + hb)
    cut = rng.randrange(1, 32)
    out += [b"\x5f" + cbor_head(2, cut) + hb[:cut] + cbor_head(2, 32 - cut) + hb[cut:] + b"\xff",
            b"\x5f" + cbor_head(2, cut) + hb[:cut] + cbor_head(2, 32 - cut) + hb[cut:],
            b"\x5f" + cbor_head(2, 32) + hb + b"\xff",
            b"\x5f\x40" + cbor_head(2, 32) + hb + b"\x40\xff",
            b"\x5f\x5f" + cbor_head(2, 32) + hb + b"\xff\xff",
            b"\x5f\x5f" + cbor_head(2, 16) + hb[:16] + b"\xff" + cbor_head(2, 16) + hb[16:] + b"\xff",
            b"\x5f\x5f\x5f" + cbor_head(2, 32) + hb + b"\xff\xff\xff",
            b"\x5f\x5f" + cbor_head(2, 32) + hb + b"\xff",
            b"\x5f\xff", b"\x5f", b"\x5f\x5f\xff\xff", b"\x5f\x5f\xff" + cbor_head(2, 32) + hb + b"\xff",
            b"\x5f" + cbor_head(3, 32) + hb + b"\xff",
            b"\x5f" + cbor_head(2, 31) + hb[:31] + b"\x00\xff",
            b"\x5f" + cbor_head(2, 32) + hb + b"\x00",
            b"\x7f" + cbor_head(3, 32) + hb + b"\xff",
            cbor_head(3, 32) + hb, b"\xff" + cbor_seq(h), b""]
    # truncations of both forms
    enc = cbor_seq(h)
    for cutp in sorted({0, 1, 2, 3, len(enc) - 2, len(enc) - 1, rng.randrange(len(enc))}):
        out.append(enc[:cutp])
    leg = cbor_legacy(h)
    for cutp in (0, 1, 2, 3, 33, 34):
        out.append(leg[:cutp])
    out += [enc + b"\x00", enc + enc, leg + b"\xff"]
    return out


def json_variants(rng, h):
    out = []
    nums = [str(b) for b in h]
    base = "[" + ",".join(nums) + "]"
    ws = [" ", "\n", "\t", "\r", "  \n", ""]
    out.append(" " + base + " ")
    out.append("\n[ " + " , ".join(nums) + " ]\r\n\t")
    out.append("".join(rng.choice(ws) + t for t in ["["] + list(",".join(nums)) + ["]"]) + rng.choice(ws))
    out.append("[" + ", ".join(nums) + "]")
    for bad_ws in ("\x0b", "\x0c", "\xa0", "\x00", "/**/", "//\n"):
        out.append(bad_ws + base)
        out.append("[" + bad_ws + ",".join(nums) + "]")
        out.append(base + bad_ws)
    out += ["[" + ",".join(nums) + ",]", "[," + ",".join(nums) + "]", "[" + ",".join(nums[:31]) + "]",
            "[" + ",".join(nums + ["0"]) + "]", "[" + ",".join(nums[:31]) + ",]", "[" + ",,".join(nums) + "]",
            "[" + ",".join(nums), ",".join(nums) + "]", ",".join(nums), "[" + " ".join(nums) + "]",
            "[[" + ",".join(nums) + "]]", "[" + ",".join(nums) + "]]", base + base, base + ",", base + "x", base + "]",
            '"' + bytes(h).hex() + '"', "{" + ",".join(nums) + "}", "[]", "[", "]", "", " ", "null", "0",
            '{"0":' + base + "}", "[" + ",".join('"%s"' % x for x in nums) + "]", "\ufeff" + base]
    k = rng.randrange(32)
    v = h[k]
    for alt in ("0", "00", "01", "-0", "-1", "+1", "1.0", "1e0", "1E0", "0.0", "0e0", "0x1", "255", "256", "0255", "1000",
                "18446744073709551615", "18446744073709551616", "99999999999999999999999999", str(v) + ".", str(v) + ".0",
                str(v) + "e0", "-" + str(v), "0" + str(v), str(v) + " ", " " + str(v), str(v) + "\n", "1 2", "1_0", "\u0661",
                "null", "true", "false", '"1"', "[1]", "{}", "", " ", "1a", "a", ".5", "1.", "e1", "--1", "2 55", "\u0663"):
        out.append("[" + ",".join(nums[:k] + [alt] + nums[k + 1:]) + "]")
    return [s.encode("utf-8") for s in out]


def byte_mutations(rng, enc, count):
    """single-byte substitutions, deletions and insertions at random places"""
    out = []
    for _ in range(count):
        i = rng.randrange(len(enc))
        x = rng.random()
        if x < 0.6:
            out.append(enc[:i] + bytes([rng.randrange(256)]) + enc[i + 1:])
        elif x < 0.8:
            out.append(enc[:i] + enc[i + 1:])
        else:
            out.append(enc[:i] + bytes([rng.randrange(256)]) + enc[i:])
    return out


JSON_ALPHABET = b"0123456789,[] \n\t\r-+.eE\"x"
CBOR_INTERESTING = [0x00, 0x17, 0x18, 0x19, 0x1a, 0x1b, 0x1c, 0x1f, 0x20, 0x38, 0x40, 0x41, 0x58, 0x5f, 0x60, 0x78, 0x7f,
                    0x80, 0x98, 0x9f, 0xa0, 0xbf, 0xc0, 0xc2, 0xc3, 0xc5, 0xd8, 0xdf, 0xe0, 0xf4, 0xf8, 0xf9, 0xfb, 0xfc, 0xff]


def boundary_hash(rng, pos, val):
    h = bytearray(rand_hash(rng))
    h[pos] = val
    return bytes(h)


# ---------------------------------------------------------------------------------------------

FMT_SPECS = ["plain", "prec8", "prec0", "prec64", "prec100", "w80", "w70r", "w70l", "w66c", "w70fill", "w08", "w100zero", "alt", "plus",
             "argw", "argp", "tostring"]


def lines_for_c14(rng, n):
    """op lines; the exhaustive blocks are always present, random ops fill up to `n` lines"""
    ops = []
    seen = set()

    def add(op):
        if op not in seen:
            seen.add(op)
            ops.append(op)

    # --- to_hex / Display / array conversions: every byte value at every position
    bg = rand_hash(rng)
    for pos in range(32):
        for val in range(256):
            h = bytearray(bg)
            h[pos] = val
            add("E tohex " + hx(h))
            add("E arr " + hx(h))
    zero = bytes(32)
    for pos in range(32):
        for val in range(256):
            h = bytearray(zero)
            h[pos] = val
            add("E tohex " + hx(h))
    for v in (0x00, 0xff, 0x0f, 0xf0, 0xa5):
        add("E tohex " + hx(bytes([v]) * 32))
        add("E arr " + hx(bytes([v]) * 32))
        add("E dbg " + hx(bytes([v]) * 32))
    for _ in range(20):
        add("E dbg " + hx(rand_hash(rng)))
    # Display under every formatter setting the harness knows: still exactly the 64 digits
    for spec in FMT_SPECS:
        for hh in (rand_hash(rng), bytes(32), bytes([0xff]) * 32):
            add(f"E fmt {spec} " + hx(hh))
    # malformed register arguments are refused by both drivers
    add("E tohex " + hx(bytes(31)))
    add("E tohex " + hx(bytes(33)))
    add("E arr -")

    # --- from_hex: every byte value at every position of a valid string
    for case in ("lower", "upper", "mixed"):
        base = _hexstr(rng, case)
        add("E fromhex " + hx(base))
        add("E fromstr " + hx(base))
        positions = range(64)
        for pos in positions:
            for val in range(256):
                s = bytearray(base)
                s[pos] = val
                add("E fromhex " + hx(s))
                if val < 128 and case == "mixed":
                    # FromStr must agree with from_hex on every string a &str can hold: every ASCII byte at every position
                    add("E fromstr " + hx(s))
    # lengths that differ from 64 only above bit 31 / bit 32 (zero-page backed input, 64 valid digits in front)
    good = _hexstr(rng, "lower")
    for big in [(1 << 32) + 64, (1 << 33) + 64, (1 << 32) + 63, 1 << 32, (1 << 16) + 64, 256 + 64, 65]:
        add(f"E fromhexbig {big} " + hx(good))
    # an AsRef<[u8]> argument that shows different bytes at a second look (shorter, longer, empty, another valid string, bad digits)
    for _ in range(6):
        g1, g2 = _hexstr(rng, "lower"), _hexstr(rng, "upper")
        for second in [g1[:10], g1 + b"abcdef", b"", g2, b"zz" + g1[2:], g1[:63], g1]:
            add("E fromhexre " + hx(g1) + " " + (hx(second) or "-"))
        for first in [g1[:63], g1 + b"0", b"", b"g" + g1[1:]]:
            add("E fromhexre " + (hx(first) or "-") + " " + hx(g2))
    # upper / lower / mixed renderings of the same value must decode alike
    for _ in range(40):
        h = rand_hash(rng)
        low = h.hex().encode()
        add("E fromhex " + hx(low))
        add("E fromhex " + hx(low.upper()))
        add("E fromhex " + hx(bytes(rng.choice((c, c ^ 0x20)) if c > 0x40 else c for c in low)))
        add("E fromstr " + hx(low.upper()))
    # lengths 0..130
    for ln in range(131):
        valid = bytes(ord(rng.choice(HEXL + HEXU)) for _ in range(ln))
        add("E fromhex " + hx(valid))
        add("E fromstr " + hx(valid))
        if ln:
            add("E fromhex " + hx(b"g" + valid[1:]))
            add("E fromhex " + hx(valid[:-1] + b"\xff"))
            add("E fromhex " + hx(bytes(ln)))
    for ln in (255, 256, 257, 1000, 4096, 65536):
        add("E fromhex " + hx(b"a" * ln))
    # two invalid bytes: the first one in evaluation order is the one reported
    base = _hexstr(rng, "mixed")
    for _ in range(300):
        i, j = rng.randrange(64), rng.randrange(64)
        s = bytearray(base)
        s[i] = rng.choice(b"gG/:@`Zz \x00\xff\x80")
        s[j] = rng.choice(b"hH/:@`Zz \x00\xfe\x81")
        add("E fromhex " + hx(s))
    # FromStr: multi-byte UTF-8 with a total byte length of 64 (and other lengths), invalid UTF-8
    for filler in ("\u00e9", "\u2603", "\U0001F600", "\uff41", "\u0660"):
        fb = filler.encode()
        for count in (1, 2):
            room = 64 - count * len(fb)
            for at in (0, room // 2, room):
                s = b"a" * at + fb * count + b"b" * (room - at)
                add("E fromstr " + hx(s))
        add("E fromstr " + hx(b"0" * 63 + fb))
    for bad in (b"\xff" + b"a" * 63, b"a" * 63 + b"\xc3", b"\xc0\x80" + b"a" * 62, b"\xed\xa0\x80" + b"a" * 61,
                b"\xf4\x90\x80\x80" + b"a" * 60, b"\x80" * 64, b"\xe2\x82" + b"a" * 62):
        add("E fromstr " + hx(bad))
        add("E fromhex " + hx(bad))

    # --- equality
    for a in (rand_hash(rng), bytes(32), b"\xff" * 32):
        add("E eq %s %s" % (hx(a), hx(a)))
        for bit in range(256):
            b = bytearray(a)
            b[bit // 8] ^= 1 << (bit % 8)
            add("E eq %s %s" % (hx(a), hx(b)))
            add("E eq %s %s" % (hx(b), hx(a)))
        for ln in range(65):
            add("E eq %s %s" % (hx(a), hx((a + a)[:ln])))            # prefixes and extensions of a itself
            add("E eq %s %s" % (hx(a), hx(bytes(ln))))
            add("E eq %s %s" % (hx(a), hx(bytes(rng.randrange(256) for _ in range(ln)))))
            if ln > 32:
                add("E eq %s %s" % (hx(a), hx(bytes(ln - 32) + a)))  # a as a suffix
    a = rand_hash(rng)
    for pos in range(32):
        for val in range(256):
            b = bytearray(a)
            b[pos] = val
            add("E eq %s %s" % (hx(a), hx(b)))
    # slices of 31 / 33 bytes that differ from a in one bit or not at all
    for bit in range(0, 256, 5):
        b = bytearray(a)
        b[bit // 8] ^= 1 << (bit % 8)
        add("E eq %s %s" % (hx(a), hx(b[:31])))
        add("E eq %s %s" % (hx(a), hx(bytes(b) + b"\x00")))

    # --- from_slice
    for ln in range(65):
        add("E fromslice " + hx(bytes(rng.randrange(256) for _ in range(ln))))
        add("E fromslice " + hx(bytes(ln)))
    for ln in (100, 255, 256, 1024):
        add("E fromslice " + hx(bytes(ln)))
    for pos in range(32):
        for val in (0, 1, 0x7f, 0x80, 0xff):
            add("E fromslice " + hx(boundary_hash(rng, pos, val)))

    # --- serde
    for pos in range(32):
        for val in (0, 1, 9, 10, 11, 23, 24, 25, 99, 100, 101, 127, 128, 199, 200, 254, 255):
            h = boundary_hash(rng, pos, val)
            add("E json " + hx(h))
            add("E cbor " + hx(h))
            add("E bin " + hx(h))
    for v in (0, 9, 10, 23, 24, 99, 100, 254, 255):
        add("E json " + hx(bytes([v]) * 32))
        add("E cbor " + hx(bytes([v]) * 32))
        add("E bin " + hx(bytes([v]) * 32))
    for val in range(256):
        h = boundary_hash(rng, rng.randrange(32), val)
        add("E json " + hx(h))
        add("E cbor " + hx(h))
    for _ in range(3):
        h = rand_hash(rng)
        for v in cbor_variants(rng, h):
            add("E cbordec " + hx(v))
        for v in json_variants(rng, h):
            add("E jsondec " + hx(v))
    h = bytes([254]) * 32
    for v in cbor_variants(rng, h):
        add("E cbordec " + hx(v))
    for v in json_variants(rng, h):
        add("E jsondec " + hx(v))
    # every byte value at every position of one encoding of each kind
    h = bytes(rng.choice((0, 5, 23, 24, 100, 255, rng.randrange(256))) for _ in range(32))
    for enc in (cbor_seq(h), cbor_legacy(h)):
        for pos in range(len(enc)):
            for val in range(256):
                add("E cbordec " + hx(enc[:pos] + bytes([val]) + enc[pos + 1:]))
    hj = bytes(rng.choice((0, 7, 10, 99, 100, 255)) for _ in range(32))
    enc = json_seq(hj)
    for pos in range(len(enc)):
        for val in JSON_ALPHABET:
            add("E jsondec " + hx(enc[:pos] + bytes([val]) + enc[pos + 1:]))
            add("E jsondec " + hx(enc[:pos] + bytes([val]) + enc[pos:]))
        add("E jsondec " + hx(enc[:pos] + enc[pos + 1:]))

    # --- random fill
    tries = 0
    while len(ops) < n and tries < 20 * n + 1000:
        tries += 1
        x = rng.random()
        if x < 0.10:
            add("E tohex " + hx(rand_hash(rng)))
        elif x < 0.15:
            add("E arr " + hx(rand_hash(rng)))
        elif x < 0.40:
            s = bytearray(_hexstr(rng, rng.choice(("lower", "upper", "mixed"))))
            y = rng.random()
            if y < 0.5:
                for _ in range(rng.randrange(1, 3)):
                    s[rng.randrange(64)] = rng.randrange(256)
            elif y < 0.6:
                s = s[:rng.randrange(64)]
            elif y < 0.7:
                s = s + bytes(ord(rng.choice(HEXL)) for _ in range(rng.randrange(1, 70)))
            add(("E fromhex " if rng.random() < 0.8 else "E fromstr ") + hx(s))
        elif x < 0.55:
            a = rand_hash(rng)
            b = bytearray(a)
            y = rng.random()
            if y < 0.5:
                b[rng.randrange(32)] ^= 1 << rng.randrange(8)
            elif y < 0.6:
                b = bytearray(rand_hash(rng))
            elif y < 0.8:
                b = (b + b)[:rng.randrange(65)]
            add("E eq %s %s" % (hx(a), hx(b)))
        elif x < 0.60:
            add("E fromslice " + hx(bytes(rng.randrange(256) for _ in range(rng.choice((32, 32, 31, 33, rng.randrange(65)))))))
        elif x < 0.70:
            add("E json " + hx(rand_hash(rng)))
        elif x < 0.80:
            add("E cbor " + hx(rand_hash(rng)))
        elif x < 0.90:
            h = bytes(rng.choice((rng.randrange(24), rng.randrange(256))) for _ in range(32))
            enc = rng.choice((cbor_seq, cbor_legacy))(h)
            if rng.random() < 0.5:
                i = rng.randrange(len(enc))
                m = enc[:i] + bytes([rng.choice(CBOR_INTERESTING)]) + enc[i + rng.randrange(2):]
            else:
                m = byte_mutations(rng, enc, 1)[0]
            add("E cbordec " + hx(m))
        else:
            h = bytes(rng.choice((rng.randrange(10), rng.randrange(256))) for _ in range(32))
            enc = json_seq(h)
            if rng.random() < 0.5:
                i = rng.randrange(len(enc))
                m = enc[:i] + bytes([rng.choice(JSON_ALPHABET)]) + enc[i + rng.randrange(2):]
            else:
                m = byte_mutations(rng, enc, 1)[0]
            add("E jsondec " + hx(m))
    return ops


if __name__ == "__main__":
    import random
    import sys
    n_ = int(sys.argv[1]) if len(sys.argv) > 1 else 120000
    seed_ = int(sys.argv[2]) if len(sys.argv) > 2 else 1
    sys.stdout.write("\n".join(lines_for_c14(random.Random(seed_), n_)) + "\n")
