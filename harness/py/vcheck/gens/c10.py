"""C10: reset() restores the initial state after any history; clones are independent"""
from ..core import Script, Rng
from ..stage import LineStage, replay_line
from .common import *

ARTEFACTS = ["G1-consts", "G4-listings", "G2-rs-portable", "G8-chunkstate"]
EXTRA_PROPS = [("B3.Props.Surface", "B3/Props/Surface.lean"), ("B3.Props.C02T", "B3/Props/C02T.lean")]   # theorems about the code translated from the sources
RULE = ("prefix . reset . suffix histories: prefixes contain partial chunks, deep stacks (2^k+1 chunks), hazmat offsets, finalize "
        "calls; the reset is Hasher::reset or, through the trait impls, Reset::reset / finalize_fixed_reset / finalize_xof_reset; after reset the same suffix is run on the reset hasher and on a fresh one of the same mode and every output compared "
        "(and both with the model/spec); clone-then-diverge histories incl. Clone::clone_from into a hasher that has its own history (deep stack) and into one built with a different key or mode; non-trivial = prefix absorbed input or set an offset; "
        "distinct = distinct script")
ASSUMPTIONS = []
NOT_PROVED = []


def suffix(rng, r):
    ops = []
    for _ in range(rng.randrange(1, 6)):
        x = rng.random()
        if x < 0.6:
            ops.append(f"H upd {r} {pat(size_of_class(rng.choice(SIZE_CLASSES), rng, 40000), rng)}")
        elif x < 0.8:
            ops.append(f"H fin {r}")
        else:
            ops.append(f"H cnt {r}")
    ops += [f"H cnt {r}", f"H fin {r}", f"H xof {r} x", "X fill x 70"]
    return ops


def reset_script(rng, plat):
    mode = mode_tok(rng)
    ops = [f"P plat {plat}", f"H new a {mode}"]
    kind = rng.choice(["partial", "deep", "offset", "offset-input", "offset-panic", "fin", "empty"])
    if kind == "partial":
        ops.append(f"H upd a {pat(rng.choice([1, 63, 64, 65, 1023, 1024, 1025, 5000]), rng)}")
    elif kind == "deep":
        ops.append(f"H upd a {pat(((1 << rng.randrange(1, 8)) + 1) * 1024 + rng.choice([0, 1]), rng)}")
    elif kind == "offset":
        ops.append(f"H off a {1024 * rng.choice([1, 2, 3, 1 << 20, 1 << 40, (1 << 54) - 1])}")
    elif kind == "offset-input":
        ops.append(f"H off a {1024 * rng.choice([2, 4, 1 << 20, 1 << 40])}")
        ops.append(f"H upd a {pat(rng.choice([1, 1024, 1500, 2048]), rng)}")
        ops.append("H cvnr a")
    elif kind == "offset-panic":
        # a misuse that panics (too much input for the subtree / finalize with an offset), caught by the caller, who then
        # resets the hasher and goes on using it: nothing of the failed call may survive the reset
        k = rng.choice([1, 2, 4, 1 << 20])
        ops.append(f"H off a {1024 * k}")
        if rng.random() < 0.5:
            ops.append(f"H upd a {pat(rng.choice([1, 500, 1024]), rng)}")
        # `NR`: the harness does not restore the register after the panic
        ops.append("NR " + rng.choice(([f"H upd a {pat(1024 * k + rng.choice([1, 1024, 5000]), rng)}"] if k <= 4 else []) + ["H fin a", "H xof a x"]))
    elif kind == "fin":
        ops += [f"H upd a {pat(3000, rng)}", "H fin a", "H xof a x", "X fill x 10"]
    # Hasher::reset itself, or one of the ways the trait impls (src/traits.rs) reach it
    ops += rng.choice([["H reset a"], ["H reset a"], ["T reset a"], ["T finr a"], ["T xofr a y", "T read y 40"]]) if kind not in ("offset", "offset-input", "offset-panic") else ["H reset a"]
    # the same suffix on the reset hasher and on a fresh one: the ops are deterministic given the seed, so
    # generate once and rename
    st = rng.getstate()
    s1 = suffix(rng, "a")
    rng.setstate(st)
    s2 = suffix(rng, "b")
    ops += ["H cnt a"] + s1 + [f"H new b {mode}"] + s2
    return Script(ops, tags=(plat, kind), nontrivial=kind != "empty")


def clone_script(rng, plat):
    mode = mode_tok(rng)
    ops = [f"P plat {plat}", f"H new a {mode}", f"H upd a {pat(size_of_class(rng.choice(SIZE_CLASSES), rng, 60000), rng)}",
           "H clone a b"]
    for _ in range(rng.randrange(2, 8)):
        r = rng.choice("ab")
        o = "b" if r == "a" else "a"
        ops.append(rng.choice([f"H upd {r} {pat(size_of_class(rng.choice(SIZE_CLASSES), rng, 30000), rng)}", f"H fin {r}", f"H reset {r}", f"H cnt {r}",
                               f"H upd {r} {pat(rng.choice([2049, 5000, 70000]), rng)}", f"H clonefrom {o} {r}"]))
    ops += ["H cnt a", "H fin a", "H cnt b", "H fin b"]
    return Script(ops, tags=(plat, "clone"))


def stages(tier, seed, witness_search=False):
    rng = Rng(seed)
    n = 400 if tier == "quick" else 8000
    if witness_search:
        n *= 4
    scripts = [reset_script(rng, PLATFORMS[i % 5]) for i in range(n)] + [clone_script(rng, PLATFORMS[i % 5]) for i in range(n // 2)]
    scripts += [cross_mode_clone_script(rng, PLATFORMS[i % 5]) for i in range(40 if tier == "quick" else 600)]
    return [LineStage("reset-clone", scripts)]


def replay(d, lean_exe):
    return replay_line(d, lean_exe)
