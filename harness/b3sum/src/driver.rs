//! Line-protocol driver for the private functions of /repo/b3sum/src/main.rs.
//!
//! The b3sum source is `include!`d verbatim inside the module `b3`; the `pub fn x_*` wrappers
//! placed next to it give access to the private items without touching /repo.
//!
//! Protocol (see /verif/harness/PROTOCOL.md for the general rules): one op per stdin line, one
//! output line per op, `bad-op` for a malformed op, `PANIC` when the op panicked. Hex = lowercase
//! hex of raw bytes, the empty byte string is `-` on input and the empty string on output.
//!
//!   P line <hex>                     <hex> = UTF-8 bytes of the `&str` given to parse_check_line,
//!                                    INCLUDING its line terminator if it has one (the function
//!                                    trims trailing CR/LF itself). Not valid UTF-8 -> `bad-op`.
//!        -> ok <hex path> <hash hex64> <is_escaped 0|1>  |  err:<class>
//!           classes: empty-line format hash-length hex escape empty-path nul fffd
//!   P disp <hex>                     the name check_one_line would print for this line
//!        -> ok <hex of (is_escaped ? "\\" : "") + file_string>  |  err:<class>
//!   P fmt <hex OS path bytes> plain|tag
//!        -> ok <hex of the line hash_one_input prints, without the final "\n">, for a hash of 64 'a'
//!   P f2s <hex OS path bytes>        filepath_to_string
//!        -> ok <hex filepath_string> <is_escaped 0|1>
//!   P unescape <hex>                 -> ok <hex>  |  err:<class>
//!   P rt <hex OS path bytes> plain|tag lf|crlf|none
//!        format as in `P fmt`, append the terminator, parse as in `P line`
//!   P xof <mode> <data> <seek> <len> the library's output S[seek..seek+len] (not b3sum code;
//!        the reference value for process-level tests).  <mode>: hash | keyed <hex32> | derive <hex ctx>;
//!        <data>: hex <bytes> | pat <len> <seed>
//!        -> <hex>

use std::io::{BufRead, Write};
use std::panic::{catch_unwind, AssertUnwindSafe};

#[allow(dead_code)]
mod b3 {
    include!("/repo/b3sum/src/main.rs");

    // ---- wrappers (not part of /repo) -------------------------------------------------------

    pub struct XParsed {
        pub file_string: String,
        pub is_escaped: bool,
        pub file_path: Vec<u8>,
        pub expected_hash: [u8; 32],
    }

    pub fn x_parse_check_line(line: &str) -> Result<XParsed, String> {
        use std::os::unix::ffi::OsStrExt;
        match parse_check_line(line) {
            Ok(p) => Ok(XParsed {
                file_string: p.file_string.clone(),
                is_escaped: p.is_escaped,
                file_path: p.file_path.as_os_str().as_bytes().to_vec(),
                expected_hash: *p.expected_hash.as_bytes(),
            }),
            Err(e) => Err(e.to_string()),
        }
    }

    pub fn x_filepath_to_string(path: &[u8]) -> (String, bool) {
        use std::os::unix::ffi::OsStrExt;
        let p = Path::new(std::ffi::OsStr::from_bytes(path));
        let fs = filepath_to_string(p);
        (fs.filepath_string, fs.is_escaped)
    }

    pub fn x_unescape(s: &str) -> Result<String, String> {
        unescape(s).map_err(|e| e.to_string())
    }

    /// Mirrors the printing statements of `hash_one_input` (which writes to the process stdout and
    /// needs an openable file): `print!("\\")` if escaped, then either
    /// `print!("BLAKE3 ({}) = ", s); <hex>; println!()` or `<hex>; println!("  {}", s)`.
    /// The process-level tests compare the real binary's stdout with the same model.
    pub fn x_format_line(path: &[u8], tag: bool, hash_hex: &str) -> String {
        let (filepath_string, is_escaped) = x_filepath_to_string(path);
        let mut out = String::new();
        if is_escaped {
            out.push_str("\\");
        }
        if tag {
            out.push_str(&format!("BLAKE3 ({}) = ", filepath_string));
            out.push_str(hash_hex);
            return out;
        }
        out.push_str(hash_hex);
        out.push_str(&format!("  {}", filepath_string));
        out
    }
}

fn unhex(s: &str) -> Option<Vec<u8>> {
    if s == "-" {
        return Some(Vec::new());
    }
    if s.len() % 2 != 0 || s.is_empty() {
        return None;
    }
    let mut v = Vec::with_capacity(s.len() / 2);
    let b = s.as_bytes();
    for i in (0..b.len()).step_by(2) {
        let h = hexval(b[i])?;
        let l = hexval(b[i + 1])?;
        v.push(h * 16 + l);
    }
    Some(v)
}

fn hexval(c: u8) -> Option<u8> {
    match c {
        b'0'..=b'9' => Some(c - b'0'),
        b'a'..=b'f' => Some(c - b'a' + 10),
        _ => None,
    }
}

fn tohex(b: &[u8]) -> String {
    let mut s = String::with_capacity(b.len() * 2);
    for x in b {
        s.push_str(&format!("{:02x}", x));
    }
    s
}

fn err_class(msg: &str) -> String {
    match msg {
        "Empty line" => "err:empty-line".into(),
        "Invalid check line format" => "err:format".into(),
        "Invalid hash length" => "err:hash-length".into(),
        "Invalid hex" => "err:hex".into(),
        "Invalid backslash escape" => "err:escape".into(),
        "empty file path" => "err:empty-path".into(),
        "Null character in path" => "err:nul".into(),
        "Unicode replacement character in path" => "err:fffd".into(),
        other => format!("err:other:{}", tohex(other.as_bytes())),
    }
}

const FIXED_HASH: &str = "aaaaaaaaaaaaaaaaaaaaaaaaaaaaaaaaaaaaaaaaaaaaaaaaaaaaaaaaaaaaaaaa";

fn parse_out(line: &str) -> String {
    match b3::x_parse_check_line(line) {
        Ok(p) => format!(
            "ok {} {} {}",
            tohex(&p.file_path),
            tohex(&p.expected_hash),
            if p.is_escaped { 1 } else { 0 }
        ),
        Err(m) => err_class(&m),
    }
}

fn lcg_bytes(len: usize, seed: u64) -> Vec<u8> {
    let mut s = seed;
    let mut v = Vec::with_capacity(len);
    for _ in 0..len {
        s = s
            .wrapping_mul(6364136223846793005)
            .wrapping_add(1442695040888963407);
        v.push((s >> 56) as u8);
    }
    v
}

fn step(toks: &[&str]) -> Option<String> {
    if toks.len() < 2 || toks[0] != "P" {
        return None;
    }
    match toks[1] {
        "line" if toks.len() == 3 => {
            let bytes = unhex(toks[2])?;
            let s = String::from_utf8(bytes).ok()?;
            Some(parse_out(&s))
        }
        "disp" if toks.len() == 3 => {
            let bytes = unhex(toks[2])?;
            let s = String::from_utf8(bytes).ok()?;
            Some(match b3::x_parse_check_line(&s) {
                Ok(p) => {
                    let name = if p.is_escaped {
                        "\\".to_string() + &p.file_string
                    } else {
                        p.file_string
                    };
                    format!("ok {}", tohex(name.as_bytes()))
                }
                Err(m) => err_class(&m),
            })
        }
        "fmt" if toks.len() == 4 => {
            let path = unhex(toks[2])?;
            let tag = match toks[3] {
                "plain" => false,
                "tag" => true,
                _ => return None,
            };
            let line = b3::x_format_line(&path, tag, FIXED_HASH);
            Some(format!("ok {}", tohex(line.as_bytes())))
        }
        "f2s" if toks.len() == 3 => {
            let path = unhex(toks[2])?;
            let (s, esc) = b3::x_filepath_to_string(&path);
            Some(format!("ok {} {}", tohex(s.as_bytes()), if esc { 1 } else { 0 }))
        }
        "unescape" if toks.len() == 3 => {
            let bytes = unhex(toks[2])?;
            let s = String::from_utf8(bytes).ok()?;
            Some(match b3::x_unescape(&s) {
                Ok(u) => format!("ok {}", tohex(u.as_bytes())),
                Err(m) => err_class(&m),
            })
        }
        "rt" if toks.len() == 5 => {
            let path = unhex(toks[2])?;
            let tag = match toks[3] {
                "plain" => false,
                "tag" => true,
                _ => return None,
            };
            let term = match toks[4] {
                "lf" => "\n",
                "crlf" => "\r\n",
                "none" => "",
                _ => return None,
            };
            let mut line = b3::x_format_line(&path, tag, FIXED_HASH);
            line.push_str(term);
            Some(parse_out(&line))
        }
        "xof" => {
            let mut i = 2;
            let mut hasher = match *toks.get(i)? {
                "hash" => {
                    i += 1;
                    blake3::Hasher::new()
                }
                "keyed" => {
                    let k = unhex(toks.get(i + 1)?)?;
                    let k: [u8; 32] = k.try_into().ok()?;
                    i += 2;
                    blake3::Hasher::new_keyed(&k)
                }
                "derive" => {
                    let c = unhex(toks.get(i + 1)?)?;
                    let c = String::from_utf8(c).ok()?;
                    i += 2;
                    blake3::Hasher::new_derive_key(&c)
                }
                _ => return None,
            };
            let data = match *toks.get(i)? {
                "hex" => {
                    let d = unhex(toks.get(i + 1)?)?;
                    i += 2;
                    d
                }
                "pat" => {
                    let len: usize = toks.get(i + 1)?.parse().ok()?;
                    let seed: u64 = toks.get(i + 2)?.parse().ok()?;
                    i += 3;
                    lcg_bytes(len, seed)
                }
                _ => return None,
            };
            if toks.len() != i + 2 {
                return None;
            }
            let seek: u64 = toks[i].parse().ok()?;
            let len: usize = toks[i + 1].parse().ok()?;
            if len > (1 << 24) {
                return None;
            }
            hasher.update(&data);
            let mut r = hasher.finalize_xof();
            r.set_position(seek);
            let mut out = vec![0u8; len];
            r.fill(&mut out);
            Some(tohex(&out))
        }
        _ => None,
    }
}

fn main() {
    std::panic::set_hook(Box::new(|_| {}));
    let stdin = std::io::stdin();
    let stdout = std::io::stdout();
    let mut out = std::io::BufWriter::with_capacity(1 << 16, stdout.lock());
    for line in stdin.lock().lines() {
        let line = match line {
            Ok(l) => l,
            Err(_) => {
                let _ = writeln!(out, "bad-op");
                continue;
            }
        };
        let toks: Vec<&str> = line.split(' ').collect();
        let res = catch_unwind(AssertUnwindSafe(|| step(&toks)));
        let text = match res {
            Ok(Some(s)) => s,
            Ok(None) => "bad-op".to_string(),
            Err(_) => "PANIC".to_string(),
        };
        let _ = writeln!(out, "{}", text);
    }
    let _ = out.flush();
}
