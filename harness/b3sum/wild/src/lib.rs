//! Local stand-in for the `wild` crate (not available offline). On Unix, `wild::args_os()` is
//! documented to be `std::env::args_os()`.
pub fn args_os() -> std::env::ArgsOs {
    std::env::args_os()
}
