#[doc(hidden)]
pub mod __private229 {
    #[doc(hidden)]
    pub use crate::private::*;
}
use serde_core::__private229 as serde_core_private;
