#[doc(hidden)]
pub mod __private229 {
    #[doc(hidden)]
    pub use crate::private::*;
}
